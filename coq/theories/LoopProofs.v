(* Proofs of LoopSpec.v: the graph-level loop theorems (GraphProofs.v) lifted to the statement
   list of a program, through the graphs Build.build_program constructs. *)
From Coq Require Import Relations Permutation.
From HclV Require Import Base Expr ExprSpec ExprLemmas ExprProofs Machine Lexer Parser Graph GraphSpec GraphProofs Build MachineSpec
                         MachineProofs SchedSpec BuildSpec Generated BuildProofs LoopSpec.
Open Scope string_scope.
Open Scope list_scope.
Open Scope N_scope.

(* ================================================================================== *)
(* Part 0: chains, cycles, transitive closure                                          *)
(* ================================================================================== *)
Section ChainFacts.
  Context {A : Type}.

  Lemma chain_cons2 (R : A -> A -> Prop) a b r : chain R (a :: b :: r) = (R a b /\ chain R (b :: r)).
  Proof. reflexivity. Qed.

  Lemma chain_mono (R R' : A -> A -> Prop) :
    (forall a b, R a b -> R' a b) -> forall l, chain R l -> chain R' l.
  Proof.
    intros H. induction l as [|a l IH]; [intros _; exact I|].
    destruct l as [|b r]; [intros _; exact I|].
    rewrite !chain_cons2. intros [H1 H2]. split; [apply H; exact H1 | apply IH; exact H2].
  Qed.

  Lemma cycle_of_mono (R R' : A -> A -> Prop) :
    (forall a b, R a b -> R' a b) -> forall c, cycle_of R c -> cycle_of R' c.
  Proof.
    intros H [|x l]; cbn [cycle_of]; [intros []|].
    intros [H1 H2]. split; [apply (chain_mono R R' H); exact H1 | apply H; exact H2].
  Qed.

  Lemma last_default (d d' : A) : forall l, l <> [] -> last l d = last l d'.
  Proof.
    induction l as [|a l IH]; intros Hne; [contradiction Hne; reflexivity|].
    destruct l as [|b r]; [reflexivity|].
    change (last (b :: r) d = last (b :: r) d'). apply IH. discriminate.
  Qed.

  Lemma last_cons2 (d a b : A) r : last (a :: b :: r) d = last (b :: r) d.
  Proof. reflexivity. Qed.

  Lemma chain_last_rt (R : A -> A -> Prop) : forall l x,
    chain R (x :: l) -> clos_refl_trans A R x (last (x :: l) x).
  Proof.
    induction l as [|a l IH]; intros x H.
    - apply rt_refl.
    - rewrite chain_cons2 in H. destruct H as [H1 H2]. rewrite last_cons2.
      rewrite (last_default x a (a :: l)) by discriminate.
      apply rt_trans with a; [apply rt_step; exact H1 | apply IH; exact H2].
  Qed.

  Lemma t1n_chain (R : A -> A -> Prop) x y :
    clos_trans_1n A R x y -> exists l, chain R (x :: l) /\ R (last (x :: l) x) y.
  Proof.
    intros H. induction H as [x y Hxy | x y z Hxy Hyz [l [IH1 IH2]]].
    - exists []. split; [exact I | exact Hxy].
    - exists (y :: l). split.
      + rewrite chain_cons2. split; assumption.
      + rewrite last_cons2. rewrite (last_default x y (y :: l)) by discriminate. exact IH2.
  Qed.

  Theorem cycle_iff_self_dependence (R : A -> A -> Prop) : stmt_cycle_iff_self_dependence R.
  Proof.
    unfold stmt_cycle_iff_self_dependence. split.
    - intros [[|x l] Hc]; cbn [cycle_of] in Hc; [contradiction|]. destruct Hc as [H1 H2].
      exists x. apply clos_rt_t with (last (x :: l) x).
      + apply chain_last_rt. exact H1.
      + apply t_step. exact H2.
    - intros [w Hw]. apply clos_trans_t1n in Hw. apply t1n_chain in Hw.
      destruct Hw as [l [H1 H2]]. exists (w :: l). cbn [cycle_of]. split; assumption.
  Qed.

  Lemma cycle_iff_self_dependence_holds (R : A -> A -> Prop) : stmt_cycle_iff_self_dependence R.
  Proof. exact (cycle_iff_self_dependence R). Qed.

  Lemma clos_trans_transp (R : A -> A -> Prop) a b :
    clos_trans A (fun x y => R y x) a b -> clos_trans A R b a.
  Proof.
    intros H. induction H as [x y H | x y z _ IH1 _ IH2].
    - apply t_step. exact H.
    - apply t_trans with y; assumption.
  Qed.

  (* the same, for a relation given in the "reads" direction *)
  Lemma self_dependence_iff_cycle (reads : A -> A -> Prop) :
    (exists w, clos_trans A reads w w) <-> (exists c, cycle_of (fun a b => reads b a) c).
  Proof.
    pose proof (cycle_iff_self_dependence (fun a b => reads b a)) as Hc.
    unfold stmt_cycle_iff_self_dependence in Hc. rewrite Hc. split; intros [w Hw]; exists w.
    - apply (clos_trans_transp (fun a b => reads b a)). exact Hw.
    - apply (clos_trans_transp reads). exact Hw.
  Qed.

  Lemma cycle_of_nonempty (R : A -> A -> Prop) c : cycle_of R c -> c <> [].
  Proof. destruct c; [intros [] | discriminate]. Qed.
End ChainFacts.

(* ---- the checkers of Graph.v, as chains over the edge relation ------------------------------ *)
Notation gcycle g c := (is_cycle string String.eqb g c = true).
Notation ghas_cycle := (has_cycle string String.eqb).
Notation gsort := (toposort string String.eqb).

Lemma is_path_chain g l : is_path string String.eqb g l = true <-> chain (gedge g) l.
Proof.
  induction l as [|a l IH]; [cbn; tauto|]. destruct l as [|b r]; [cbn; tauto|].
  rewrite (is_path_cons2 string String.eqb), chain_cons2, andb_true_iff,
          (is_edge_iff string String.eqb String.eqb_eq), IH. reflexivity.
Qed.

Lemma is_cycle_cycle_of g c : gcycle g c <-> cycle_of (gedge g) c.
Proof.
  destruct c as [|x l]; [cbn; split; [discriminate | intros []]|].
  unfold is_cycle. cbn [cycle_of].
  rewrite andb_true_iff, is_path_chain, (is_edge_iff string String.eqb String.eqb_eq). reflexivity.
Qed.

(* the sorter always answers on a well-formed graph *)
Lemma toposort_total g : gwf g ->
  (exists order, gsort g = Ok (inl order) /\ ~ ghas_cycle g) \/
  (exists c, gsort g = Ok (inr c) /\ gcycle g c).
Proof.
  intros Hwf.
  destruct (kahn_total string String.eqb String.eqb_eq g Hwf) as [order [visited Hk]].
  destruct (N.of_nat (List.length visited) =? g_num_edges g) eqn:E.
  - left. exists order.
    assert (Ht : gsort g = Ok (inl order)).
    { unfold toposort. rewrite Hk. cbn [bind]. rewrite E. reflexivity. }
    split; [exact Ht|]. apply (order_implies_acyclic string String.eqb String.eqb_eq g order Hwf Ht).
  - right. apply N.eqb_neq in E.
    pose proof (kahn_stuck_implies_cycle string String.eqb String.eqb_eq g order visited Hwf Hk E) as Hc.
    destruct (toposort_exact string String.eqb String.eqb_eq g Hwf) as [H1 _].
    destruct (H1 Hc) as [c [Hc1 Hc2]]. exists c. split; assumption.
Qed.

(* ================================================================================== *)
(* Part 1: the kinds of the diagnostics of each pass                                   *)
(* ================================================================================== *)
(* a non-empty list of diagnostics all of whose kinds satisfy K *)
Definition kinds (K : ekind -> bool) (es : list err) : Prop := Forall (fun d => K (ek d) = true) es.
Definition good (K : ekind -> bool) (es : list err) : Prop := es <> [] /\ kinds K es.

Lemma kinds_app K a b : kinds K (a ++ b) <-> kinds K a /\ kinds K b.
Proof. unfold kinds. apply Forall_app. Qed.

Lemma kinds_nil K : kinds K [].
Proof. constructor. Qed.

Lemma kinds_mono (K K' : ekind -> bool) es : (forall k, K k = true -> K' k = true) -> kinds K es -> kinds K' es.
Proof. intros H. unfold kinds. apply Forall_impl. intros d. apply H. Qed.

Lemma good_mono (K K' : ekind -> bool) es : (forall k, K k = true -> K' k = true) -> good K es -> good K' es.
Proof. intros H [H1 H2]. split; [exact H1 | apply (kinds_mono K K' es H H2)]. Qed.

Lemma kinds_one K k names : K k = true -> kinds K [mkErr k names].
Proof. intros H. constructor; [exact H | constructor]. Qed.

Lemma kinds_repeat K k names n : K k = true -> kinds K (repeat (mkErr k names) n).
Proof. intros H. induction n as [|n IH]; cbn [repeat]; constructor; assumption. Qed.

Lemma kinds_flat_map {X} K (g : X -> list err) (l : list X) :
  (forall x, In x l -> kinds K (g x)) -> kinds K (flat_map g l).
Proof.
  induction l as [|x l IH]; intros H; cbn [flat_map]; [constructor|].
  apply kinds_app. split; [apply H; left; reflexivity | apply IH; intros y Hy; apply H; right; exact Hy].
Qed.

Lemma kinds_map {X} K (k : ekind) (g : X -> list string) (l : list X) :
  K k = true -> kinds K (map (fun x => mkErr k (g x)) l).
Proof. intros H. induction l as [|x l IH]; cbn [map]; constructor; assumption. Qed.

Ltac kerr_solve :=
  repeat match goal with
  | H : Err _ = Err _ |- _ => injection H as <-
  | H : Ok _ = Err _ |- _ => discriminate H
  | H : err1 _ _ = Err _ |- _ => unfold err1 in H
  | H : apply _ _ _ _ = Err _ |- _ => unfold apply in H
  | H : combine_exprs _ _ = Err _ |- _ => unfold combine_exprs in H
  | H : bind ?r _ = Err _ |- _ => let E := fresh "E" in destruct r eqn:E; cbn [bind] in H
  | H : (if ?b then _ else _) = Err _ |- _ => destruct b
  | H : match ?x with _ => _ end = Err _ |- _ => destruct x
  end; try discriminate; eauto;
  try (split; [discriminate | apply kinds_one; reflexivity]).

Section EvalErr.
  Variables (f : features) (rho : string -> option wval).

  Lemma eval_err_all :
    (forall e es, eval f rho e = Err es -> good expr_diag es) /\
    (forall a es, eval_arms f rho a = Err es -> good expr_diag es) /\
    (forall items x es, eval_items f rho x items = Err es -> good expr_diag es).
  Proof.
    apply expr_arms_exprs_ind.
    - intros v es H. cbn [eval] in H. discriminate H.
    - intros op l IHl r IHr es H. cbn [eval] in H. kerr_solve.
    - intros op e IHe es H. cbn [eval] in H. kerr_solve.
    - intros a IHa es H. rewrite eval_mux in H. kerr_solve.
    - intros n es H. cbn [eval] in H. kerr_solve.
    - intros e IHe lo hi es H. cbn [eval] in H. kerr_solve.
    - intros l IHl r IHr es H. cbn [eval] in H. kerr_solve.
    - intros e IHe items IHi es H. rewrite eval_in in H. kerr_solve.
    - intros es H. rewrite eval_arms_nil in H. discriminate H.
    - intros c IHc v IHv rest IHr es H. rewrite eval_arms_cons in H. kerr_solve.
    - intros x es H. rewrite eval_items_nil in H. discriminate H.
    - intros e IHe rest IHr x es H. rewrite eval_items_cons in H. kerr_solve.
  Qed.

  Lemma eval_err e es : eval f rho e = Err es -> good expr_diag es.
  Proof. apply (proj1 eval_err_all). Qed.
End EvalErr.

Section CheckKinds.
  Variables (f : features) (G : string -> option width) (C : string -> option wval).

  Lemma check_kinds_all :
    (forall e es, check f G C e = Err es -> good expr_diag es) /\
    (forall a st es, check_arms f G C a st = Err es -> good expr_diag es) /\
    (forall items wl,
       (forall es, check_items f G C wl items = Err es -> good expr_diag es) /\
       (forall more, check_items f G C wl items = Ok more -> kinds expr_diag more)).
  Proof.
    apply expr_arms_exprs_ind.
    - intros v es H. cbn [check] in H. discriminate H.
    - intros op l IHl r IHr es H. cbn [check] in H. kerr_solve.
    - intros op e IHe es H. cbn [check] in H. kerr_solve.
    - intros a IHa es H. rewrite check_mux_eq in H. kerr_solve.
    - intros n es H. cbn [check] in H. kerr_solve.
    - intros e IHe lo hi es H. cbn [check] in H. kerr_solve.
    - intros l IHl r IHr es H. cbn [check] in H. kerr_solve.
    - intros e IHe items IHi es H. rewrite check_in_eq in H.
      destruct (check f G C e) as [wl|es1] eqn:E1; cbn [bind] in H; [|injection H as <-; eauto].
      destruct (IHi wl) as [I1 I2].
      destruct (check_items f G C wl items) as [more|es2] eqn:E2; cbn [bind] in H; [|injection H as <-; eauto].
      destruct more as [|d more]; [discriminate H|]. injection H as <-.
      split; [discriminate | apply I2; reflexivity].
    - intros st es H. cbn [check_arms] in H. discriminate H.
    - intros c IHc v IHv rest IHr st es H. rewrite check_arms_cons_eq in H. kerr_solve.
    - intros wl. split; [intros es H; cbn [check_items] in H; discriminate H|].
      intros more H. cbn [check_items] in H. injection H as <-. apply kinds_nil.
    - intros e IHe rest IHr wl. destruct (IHr wl) as [I1 I2]. split.
      + intros es H. rewrite check_items_cons_eq in H.
        destruct (check f G C e) as [wi|es1] eqn:E1; cbn [bind] in H; [|injection H as <-; eauto].
        destruct (check_items f G C wl rest) as [more|es2] eqn:E2; cbn [bind] in H; [|injection H as <-; eauto].
        destruct (wcombine wl wi); discriminate H.
      + intros more H. rewrite check_items_cons_eq in H.
        destruct (check f G C e) as [wi|es1] eqn:E1; cbn [bind] in H; [|discriminate H].
        destruct (check_items f G C wl rest) as [more0|es2] eqn:E2; cbn [bind] in H; [|discriminate H].
        destruct (wcombine wl wi); injection H as <-; [apply I2; reflexivity|].
        constructor; [reflexivity | apply I2; reflexivity].
  Qed.

  Lemma check_kinds e es : check f G C e = Err es -> good expr_diag es.
  Proof. apply (proj1 check_kinds_all). Qed.
End CheckKinds.

(* ---- kinds that are not the circular-dependency diagnostic ---------------------------------- *)
Definition not_loop (k : ekind) : bool := match k with WireLoop => false | _ => true end.

Lemma expr_not_loop k : expr_diag k = true -> not_loop k = true.
Proof. destruct k; cbn; intros H; try reflexivity; discriminate H. Qed.
Lemma decl_not_loop k : decl_diag k = true -> not_loop k = true.
Proof. destruct k; cbn; intros H; try reflexivity; discriminate H. Qed.
Lemma mid_not_loop k : mid_diag k = true -> not_loop k = true.
Proof. destruct k; cbn; intros H; try reflexivity; discriminate H. Qed.
Lemma expr_mid k : expr_diag k = true -> mid_diag k = true.
Proof. intros H. unfold mid_diag. rewrite H. reflexivity. Qed.

Lemma kinds_not_loop_In es c : kinds not_loop es -> ~ In (mkErr WireLoop c) es.
Proof.
  intros H Hin. unfold kinds in H. rewrite Forall_forall in H. apply H in Hin. discriminate Hin.
Qed.

Lemma kinds_not_loop_ne es : kinds not_loop es -> Forall (fun d => ek d <> WireLoop) es.
Proof.
  unfold kinds. apply Forall_impl. intros d H E. rewrite E in H. discriminate H.
Qed.

Lemma fold_kinds {S X} (errs : S -> list err) K (step : S -> X -> S) :
  (forall s x, kinds K (errs s) -> kinds K (errs (step s x))) ->
  forall l s, kinds K (errs s) -> kinds K (errs (fold_left step l s)).
Proof.
  intros H. induction l as [|x l IH]; intros s Hs; cbn [fold_left]; [exact Hs|].
  apply IH. apply H. exact Hs.
Qed.

(* ---- the sorter: its own failures are never a WireLoop; a cycle answer is a cycle of the graph
        it was given, whatever that graph ------------------------------------------------------- *)
Section SorterKinds.
  Variable node : Type.
  Variable eqb : node -> node -> bool.
  Hypothesis eqb_spec : forall a b, eqb a b = true <-> a = b.

  Lemma visit_outs_kinds cur : forall outs counts visited queue es,
    visit_outs node eqb cur outs counts visited queue = Err es -> kinds not_loop es.
  Proof.
    induction outs as [|out r IH]; intros counts visited queue es H; cbn [visit_outs] in H; [discriminate H|].
    destruct (existsb (pair_eqb node eqb (cur, out)) visited) eqn:E1; [apply IH in H; exact H|].
    destruct ((match assoc node eqb counts out with Some c => c | None => 0 end) =? 0) eqn:E2.
    - unfold err1 in H. injection H as <-. apply kinds_one. reflexivity.
    - apply IH in H. exact H.
  Qed.

  Lemma kahn_loop_kinds g : forall fuel queue counts visited acc es,
    kahn_loop node eqb fuel g queue counts visited acc = Err es -> kinds not_loop es.
  Proof.
    induction fuel as [|fu IH]; intros queue counts visited acc es H.
    - destruct queue as [|cur rest]; cbn [kahn_loop] in H; [discriminate H|].
      unfold err1 in H. injection H as <-. apply kinds_one. reflexivity.
    - destruct queue as [|cur rest]; cbn [kahn_loop] in H; [discriminate H|].
      destruct (visit_outs node eqb cur (succs node eqb g cur) counts visited rest) as [[[c1 v1] q1]|es1] eqn:E;
        cbn [bind] in H.
      + apply IH in H. exact H.
      + injection H as <-. apply visit_outs_kinds in E. exact E.
  Qed.

  Lemma find_cycle_loop_kinds g : forall fuel stack ps es,
    find_cycle_loop node eqb fuel g stack ps = Err es -> kinds not_loop es.
  Proof.
    induction fuel as [|fu IH]; intros stack ps es H; cbn [find_cycle_loop] in H.
    - unfold err1 in H. injection H as <-. apply kinds_one. reflexivity.
    - destruct stack as [|[mp cur] rest].
      + unfold err1 in H. injection H as <-. apply kinds_one. reflexivity.
      + destruct mp as [parent|].
        * destruct (match assoc node eqb ps cur with Some _ => true | None => false end) eqn:E1.
          -- destruct (back_path node eqb (S (List.length (g_nodes g))) ps cur [parent] parent) eqn:E2;
               [discriminate H | apply IH in H; exact H].
          -- apply IH in H. exact H.
        * apply IH in H. exact H.
  Qed.

  Lemma toposort_err_kinds g es : toposort node eqb g = Err es -> kinds not_loop es.
  Proof.
    unfold toposort. intros H.
    destruct (kahn_loop node eqb (S (List.length (g_nodes g))) g (init_queue node eqb g)
                        (init_counts node eqb g) [] []) as [[order visited]|es1] eqn:E; cbn [bind] in H.
    - destruct (N.of_nat (List.length visited) =? g_num_edges g) eqn:E1; [discriminate H|].
      unfold find_cycle in H.
      destruct (find_cycle_loop node eqb (S (List.length (g_nodes g) + edge_total node g)) g
                                (map (fun n => (None, n)) (g_nodes g)) []) as [c|es2] eqn:E2; cbn [bind] in H.
      + discriminate H.
      + injection H as <-. apply find_cycle_loop_kinds in E2. exact E2.
    - injection H as <-. apply kahn_loop_kinds in E. exact E.
  Qed.

  (* GraphProofs.cycle_answer_sound does not use its well-formedness hypothesis *)
  Lemma toposort_cycle_sound g c : toposort node eqb g = Ok (inr c) -> is_cycle node eqb g c = true.
  Proof.
    unfold toposort. intros H.
    destruct (kahn_loop node eqb (S (List.length (g_nodes g))) g (init_queue node eqb g)
                        (init_counts node eqb g) [] []) as [[order visited]|es1]; cbn [bind] in H; [|discriminate H].
    destruct (N.of_nat (List.length visited) =? g_num_edges g); [discriminate H|].
    destruct (find_cycle node eqb g) as [c'|es2] eqn:Efc; cbn [bind] in H; [|discriminate H].
    injection H as ->. unfold find_cycle in Efc.
    apply (fcl_sound node eqb eqb_spec g _ _ _ c) in Efc; [exact Efc| |].
    - intros p x Hin. apply in_map_iff in Hin. destruct Hin as [n [Hn _]]. discriminate Hn.
    - intros x p Hx. discriminate Hx.
  Qed.
End SorterKinds.

Section PassKinds.
  Variable f : features.
  Variable fixed : list fixed_fn.
  Variable is_lower : string -> bool.
  Variable is_upper : string -> bool.

  Notation S1 stmts := (fold_left (step1 fixed) stmts (init1 fixed)).

  (* ---- the declaration pass ---------------------------------------------------------------- *)
  Lemma cdd_kinds s n : kinds decl_diag (check_double_declare fixed s n).
  Proof.
    unfold check_double_declare.
    destruct (mem_str n (s_decls s)); [apply kinds_one; reflexivity|].
    destruct (mem_str n (fixed_names fixed)); [apply kinds_one; reflexivity | apply kinds_nil].
  Qed.

  Lemma step1_kinds s x : kinds decl_diag (s_errs s) -> kinds decl_diag (s_errs (step1 fixed s x)).
  Proof.
    destruct x as [d|d|a|bn regs]; cbn [step1]; [| | |intros H; exact H].
    - apply (fold_kinds s_errs). intros s0 [n e] H0. cbn [step1_const s_errs].
      apply kinds_app. split; [exact H0 | apply cdd_kinds].
    - apply (fold_kinds s_errs). intros s0 [n w] H0. cbn [step1_wire s_errs].
      apply kinds_app. split; [exact H0 | apply cdd_kinds].
    - apply (fold_kinds s_errs). intros s0 [ts e] H0. cbn [fst snd].
      apply (fold_kinds s_errs); [|exact H0]. intros s1 n H1. cbn [step1_assign_name s_errs].
      apply kinds_app. split; [exact H1|].
      destruct (mem_str n (s_assigned s1)); [apply kinds_one; reflexivity|].
      destruct (mem_str n (fixed_out_names fixed)); [apply kinds_one; reflexivity | apply kinds_nil].
  Qed.

  Lemma S1_errs_kinds stmts : kinds decl_diag (s_errs (S1 stmts)).
  Proof. apply (fold_kinds s_errs); [apply step1_kinds | apply kinds_nil]. Qed.

  Lemma const_assigned_kinds s : kinds decl_diag (const_assigned_errors s).
  Proof.
    unfold const_assigned_errors. apply kinds_flat_map. intros n _.
    destruct (has (s_consts s) n); [apply kinds_one; reflexivity | apply kinds_nil].
  Qed.

  Lemma const_ref_kinds s : kinds decl_diag (const_ref_errors s).
  Proof.
    unfold const_ref_errors. apply kinds_flat_map. intros [n e] _. cbn [snd].
    apply kinds_flat_map. intros r _.
    destruct (has (s_wires s) r && negb (has (s_consts s) r)); [apply kinds_repeat; reflexivity|].
    destruct (negb (has (s_consts s) r)); [apply kinds_repeat; reflexivity | apply kinds_nil].
  Qed.

  Lemma decl_pass_kinds stmts :
    kinds decl_diag (s_errs (S1 stmts) ++ const_assigned_errors (S1 stmts) ++ const_ref_errors (S1 stmts)).
  Proof.
    apply kinds_app. split; [apply S1_errs_kinds|]. apply kinds_app.
    split; [apply const_assigned_kinds | apply const_ref_kinds].
  Qed.

  (* ---- register banks ------------------------------------------------------------------------ *)
  Lemma step3_register_kinds s consts bn inp outp a r :
    kinds mid_diag (t_errs (fst (fst a))) ->
    kinds mid_diag (t_errs (fst (fst (step3_register f s consts bn inp outp a r)))).
  Proof.
    destruct a as [[t sigs] defaults]. destruct r as [[rname w] dflt]. cbn [fst]. intros Ht.
    unfold step3_register. cbv beta iota zeta.
    match goal with
    | |- context [match ?pre with [] => _ | _ :: _ => _ end] =>
        assert (Hpre : kinds mid_diag pre); [|destruct pre as [|e0 pre0]]
    end.
    - assert (Hif : forall (b : bool) k names, mid_diag k = true ->
                      kinds mid_diag (if b then [mkErr k names] else [])).
      { intros b k names Hk. destruct b; [apply kinds_one; exact Hk | apply kinds_nil]. }
      apply kinds_app; split.
      { apply kinds_flat_map. intros n _. apply Hif. reflexivity. }
      apply kinds_app; split.
      { apply kinds_flat_map. intros rf _.
        destruct (has (s_wires s) rf && negb (has consts rf)); [apply kinds_repeat; reflexivity | apply kinds_nil]. }
      apply kinds_app; split; [apply Hif; reflexivity|].
      apply kinds_app; split; [apply Hif; reflexivity|].
      apply kinds_app; split; apply Hif; reflexivity.
    - match goal with
      | |- context [check ?a ?b ?c ?d] => destruct (check a b c d) as [wc|esc] eqn:Ec
      end.
      2:{ cbn [fst t_errs]. apply kinds_app. split; [exact Ht|]. apply check_kinds in Ec.
          destruct Ec as [_ Ec]. apply (kinds_mono expr_diag mid_diag esc expr_mid Ec). }
      destruct (eval f (lookup consts) dflt) as [v|es] eqn:Ee; cbn [fst t_errs].
      + apply kinds_app. split; [exact Ht|].
        destruct (wcombine (wd v) w); [apply kinds_nil | apply kinds_one; reflexivity].
      + apply kinds_app. split; [exact Ht|]. apply eval_err in Ee. destruct Ee as [_ Ee].
        apply (kinds_mono expr_diag mid_diag es expr_mid Ee).
    - cbn [fst t_errs]. apply kinds_app. split; [exact Ht | exact Hpre].
  Qed.

  Lemma step3_bank_kinds s consts t b :
    kinds mid_diag (t_errs t) -> kinds mid_diag (t_errs (step3_bank f is_lower is_upper s consts t b)).
  Proof.
    destruct b as [name regs]. intros Ht. unfold step3_bank. cbv beta iota.
    assert (Hbad : kinds mid_diag (t_errs t ++ [mkErr InvalidRegisterBankName [name]])).
    { apply kinds_app. split; [exact Ht | apply kinds_one; reflexivity]. }
    destruct (utf8_chars name "") as [|inp [|outp [|x l]]]; cbn [t_errs]; try exact Hbad.
    destruct (negb (is_lower inp) || negb (is_upper outp)); cbn [t_errs]; [exact Hbad|].
    match goal with
    | |- context [fold_left ?F regs ?A] =>
        pose proof (fold_kinds (fun a => t_errs (fst (fst a))) mid_diag F
                               (fun a r => step3_register_kinds s consts name inp outp a r) regs A) as Hf;
        destruct (fold_left F regs A) as [[t2 sigs] defaults]
    end.
    cbn [fst t_errs] in *. apply Hf. apply kinds_app. split; [exact Ht|].
    apply kinds_flat_map. intros n _.
    destruct (mem_str n (s_decls s)); [apply kinds_one; reflexivity | apply kinds_nil].
  Qed.

  Lemma T3_errs_kinds s consts :
    kinds mid_diag (t_errs (fold_left (step3_bank f is_lower is_upper s consts) (s_banks s)
                                      (mkSt3 [] [] (s_types s) [] [] []))).
  Proof. apply (fold_kinds t_errs); [intros t b; apply step3_bank_kinds | apply kinds_nil]. Qed.

  Lemma unset_kinds s t needed : kinds mid_diag (unset_errors s t needed).
  Proof.
    unfold unset_errors. apply kinds_flat_map. intros n _.
    destruct (has (s_assigns s) n); [apply kinds_nil|].
    destruct (mem_str n (s_decls s)); [apply kinds_one; reflexivity|].
    destruct (mem_str n (t_in_spans t)); apply kinds_one; reflexivity.
  Qed.

  (* ---- built-in components ------------------------------------------------------------------- *)
  Lemma preprocess_one_kinds consts assigns acc ff :
    kinds mid_diag (snd acc) -> kinds mid_diag (snd (preprocess_one f consts assigns acc ff)).
  Proof.
    destruct acc as [[[g by_out] no_out] errs]. cbn [snd]. intros He.
    unfold preprocess_one. cbv beta iota zeta.
    assert (Hm : forall l : list string, kinds mid_diag (map (fun n => mkErr UnsetBuiltinWire [n]) l)).
    { intros l. apply (kinds_map mid_diag UnsetBuiltinWire (fun n => [n])). reflexivity. }
    destruct (filter (fun n => negb (has assigns n)) (fixed_in_names ff)) as [|m ms].
    - destruct (ff_out ff) as [[o w]|]; cbn [snd]; exact He.
    - destruct (ff_mandatory ff).
      + destruct (ff_out ff) as [[o w]|]; cbn [snd]; (apply kinds_app; split; [exact He | apply Hm]).
      + cbn [snd]. apply kinds_app. split; [exact He|]. apply kinds_app. split.
        * destruct (ff_out ff) as [[o w]|]; [|apply kinds_nil].
          destruct (graph_has_node g o); [apply Hm | apply kinds_nil].
        * match goal with |- context [if ?b then _ else _] => destruct b end; [apply kinds_nil|].
          match goal with |- context [if ?b then _ else _] => destruct b end;
            [apply kinds_nil | apply kinds_one; reflexivity].
  Qed.

  Lemma preprocess_kinds consts assigns g0 :
    kinds mid_diag (snd (fold_left (preprocess_one f consts assigns) fixed (g0, [], [], []))).
  Proof.
    apply (fold_kinds snd); [intros acc ff; apply preprocess_one_kinds | apply kinds_nil].
  Qed.

  (* ---- the scheduler proper: never a WireLoop ------------------------------------------------- *)
  Lemma schedule_kinds widths consts assigns by_out decls : forall order acts errs und acts' errs' und',
    schedule f widths consts assigns by_out decls order acts errs und = (acts', errs', und') ->
    kinds not_loop errs -> kinds not_loop errs'.
  Proof.
    induction order as [|n r IH]; intros acts errs und acts' errs' und' H He; cbn [schedule] in H.
    - injection H as <- <- <-. exact He.
    - destruct (lookup assigns n) as [e|].
      + destruct (lookup widths n) as [w|].
        * destruct (check f (lookup widths) (lookup consts) e) as [we|es] eqn:Ec.
          -- apply (IH _ _ _ _ _ _ H). apply kinds_app. split; [exact He|].
             destruct (wcombine w we); [apply kinds_nil | apply kinds_one; reflexivity].
          -- apply (IH _ _ _ _ _ _ H). apply kinds_app. split; [exact He|].
             apply check_kinds in Ec. destruct Ec as [_ Ec].
             apply (kinds_mono expr_diag not_loop es expr_not_loop Ec).
        * apply (IH _ _ _ _ _ _ H). apply kinds_app. split; [exact He | apply kinds_one; reflexivity].
      + destruct (lookup by_out n) as [ff|]; [apply (IH _ _ _ _ _ _ H); exact He|].
        destruct (mem_str n decls); [|apply (IH _ _ _ _ _ _ H); exact He].
        apply (IH _ _ _ _ _ _ H). apply kinds_app. split; [exact He | apply kinds_one; reflexivity].
  Qed.
End PassKinds.

(* ================================================================================== *)
(* Part 2: the graph of the constants                                                  *)
(* ================================================================================== *)
Lemma insert_ins_nodes (o : string) : forall ins g x,
  In x (g_nodes (fold_left (fun g1 i => graph_insert g1 i o) ins g)) <->
  In x (g_nodes g) \/ In x ins \/ (x = o /\ ins <> []).
Proof.
  induction ins as [|i ins IH]; intros g x; cbn [fold_left In].
  - split; [intros H; left; exact H | intros [H|[[]|[_ H]]]; [exact H | contradiction H; reflexivity]].
  - rewrite IH, graph_insert_nodes. split.
    + intros [[H|[H|H]]|[H|[H1 H2]]].
      * left. exact H.
      * right. left. left. symmetry. exact H.
      * right. right. split; [exact H | discriminate].
      * right. left. right. exact H.
      * right. right. split; [exact H1 | discriminate].
    + intros [H|[[H|H]|[H _]]].
      * left. left. exact H.
      * left. right. left. symmetry. exact H.
      * right. left. exact H.
      * left. right. right. exact H.
Qed.

Lemma const_graph_fold : forall cs g,
  gwf g -> NoDup (map fst cs) ->
  (forall n, In n (map fst cs) -> forall x, ~ gedge g x n) ->
  let g' := fold_left (fun g ne =>
                         graph_add_node (fold_left (fun g1 r => graph_insert g1 r (fst ne))
                                                   (nodup_str (refs (snd ne))) g) (fst ne))
                      cs g in
  gwf g' /\
  (forall x y, gedge g' x y <-> gedge g x y \/ exists e, In (y, e) cs /\ In x (refs e)) /\
  (forall x, In x (g_nodes g') <->
             In x (g_nodes g) \/ In x (map fst cs) \/ exists y e, In (y, e) cs /\ In x (refs e)).
Proof.
  induction cs as [|[n e] cs IH]; intros g Hwf Hnd Hne; cbn [fold_left].
  - split; [exact Hwf|]. split.
    + intros x y. split; [intros H; left; exact H | intros [H|[e [[] _]]]; exact H].
    + intros x. cbn [map In]. split; [intros H; left; exact H | intros [H|[[]|[y [e [[] _]]]]]; exact H].
  - cbn [map fst] in Hnd, Hne. apply NoDup_cons_iff in Hnd. destruct Hnd as [Hn Hnd]. cbn [fst snd].
    destruct (insert_ins_wf n (nodup_str (refs e)) g Hwf (nodup_str_NoDup (refs e))) as [J1 [J2 _]].
    { intros i _. apply (Hne n (or_introl eq_refl) i). }
    cbv zeta in J1, J2.
    pose proof (insert_ins_nodes n (nodup_str (refs e)) g) as J3.
    set (g1 := fold_left (fun g1 r => graph_insert g1 r n) (nodup_str (refs e)) g) in *.
    assert (Hwf2 : gwf (graph_add_node g1 n)) by (apply graph_add_node_wf; exact J1).
    assert (Hne2 : forall n0, In n0 (map fst cs) -> forall x, ~ gedge (graph_add_node g1 n) x n0).
    { intros n0 H0 x He. apply graph_add_node_edge in He. apply J2 in He. destruct He as [He|[He _]].
      - apply (Hne n0 (or_intror H0) x). exact He.
      - subst n0. apply Hn. exact H0. }
    destruct (IH (graph_add_node g1 n) Hwf2 Hnd Hne2) as [I1 [I2 I3]]. cbv zeta in I1, I2, I3.
    split; [exact I1|]. split.
    + intros x y. rewrite I2, graph_add_node_edge, J2. cbn [In]. split.
      * intros [[H|[H1 H2]]|[e0 [H1 H2]]].
        -- left. exact H.
        -- right. exists e. subst y. split; [left; reflexivity | apply nodup_str_In; exact H2].
        -- right. exists e0. split; [right; exact H1 | exact H2].
      * intros [H|[e0 [[H1|H1] H2]]].
        -- left. left. exact H.
        -- injection H1 as <- <-. left. right. split; [reflexivity | apply nodup_str_In; exact H2].
        -- right. exists e0. split; assumption.
    + intros x. rewrite I3, graph_add_node_nodes, J3. cbn [map fst In]. split.
      * intros [[[H|[H|[H _]]]|H]|[H|[y [e0 [H1 H2]]]]].
        -- left. exact H.
        -- right. right. exists n, e. split; [left; reflexivity | apply nodup_str_In; exact H].
        -- right. left. left. symmetry. exact H.
        -- right. left. left. symmetry. exact H.
        -- right. left. right. exact H.
        -- right. right. exists y, e0. split; [right; exact H1 | exact H2].
      * intros [H|[[H|H]|[y [e0 [[H1|H1] H2]]]]].
        -- left. left. left. exact H.
        -- left. right. symmetry. exact H.
        -- right. left. exact H.
        -- injection H1 as <- <-. left. left. right. left. apply nodup_str_In. exact H2.
        -- right. right. exists y, e0. split; assumption.
Qed.

Lemma const_graph_facts cs : NoDup (map fst cs) ->
  gwf (const_graph cs) /\
  (forall x y, gedge (const_graph cs) x y <-> exists e, In (y, e) cs /\ In x (refs e)) /\
  (forall x, In x (g_nodes (const_graph cs)) <->
             In x (map fst cs) \/ exists y e, In (y, e) cs /\ In x (refs e)).
Proof.
  intros Hnd.
  destruct (const_graph_fold cs empty_graph empty_graph_wf Hnd) as [I1 [I2 I3]].
  { intros n _ x. apply empty_graph_edge. }
  cbv zeta in *. fold (const_graph cs) in I1, I2, I3.
  split; [exact I1|]. split.
  - intros x y. rewrite I2. split; [|intros H; right; exact H].
    intros [H|H]; [exfalso; exact (empty_graph_edge x y H) | exact H].
  - intros x. rewrite I3. cbn [empty_graph g_nodes In]. tauto.
Qed.

(* ---- evaluation of the constants in sorted order -------------------------------------------- *)
Section ConstEval.
  Variable f : features.

  Lemma has_upd {V} (m : list (string * V)) k v k' : has (upd m k v) k' = String.eqb k' k || has m k'.
  Proof. unfold has. rewrite lookup_upd. destruct (String.eqb k' k); reflexivity. Qed.

  Lemma eval_consts_complete cs : forall order vals errs vals' errs',
    eval_consts f cs order vals errs = (vals', errs') -> errs' = [] ->
    errs = [] /\ (forall k, has vals k = true -> has vals' k = true) /\
    (forall n, In n order -> has vals' n = true).
  Proof.
    induction order as [|n r IH]; intros vals errs vals' errs' H He; cbn [eval_consts] in H.
    - injection H as <- <-. split; [exact He|]. split; [intros k Hk; exact Hk | intros n []].
    - destruct (lookup cs n) as [e|] eqn:El.
      + match type of H with
        | context [check ?a ?b ?c ?d] => destruct (check a b c d) as [wc|esc] eqn:Ec
        end.
        * destruct (eval f (lookup vals) e) as [v|es] eqn:Ee.
          -- destruct (IH _ _ _ _ H He) as [I1 [I2 I3]]. split; [exact I1|]. split.
             ++ intros k Hk. apply I2. rewrite has_upd, Hk. apply orb_true_r.
             ++ intros n0 [<-|H0]; [|apply I3; exact H0].
                apply I2. rewrite has_upd, String.eqb_refl. reflexivity.
          -- destruct (IH _ _ _ _ H He) as [I1 _]. apply app_eq_nil in I1. destruct I1 as [_ I1].
             apply eval_err in Ee. destruct Ee as [Ee _]. contradiction (Ee I1).
        * destruct (IH _ _ _ _ H He) as [I1 _]. apply app_eq_nil in I1. destruct I1 as [_ I1].
          apply check_err in Ec. contradiction (Ec I1).
      + injection H as <- <-. apply app_eq_nil in He. destruct He as [_ He]. discriminate He.
  Qed.

  Lemma eval_consts_kinds cs : forall order vals errs vals' errs',
    eval_consts f cs order vals errs = (vals', errs') ->
    (forall n, In n order -> has cs n = true) ->
    kinds expr_diag errs -> kinds expr_diag errs'.
  Proof.
    induction order as [|n r IH]; intros vals errs vals' errs' H Hc He; cbn [eval_consts] in H.
    - injection H as <- <-. exact He.
    - assert (Hc' : forall n0, In n0 r -> has cs n0 = true) by (intros n0 H0; apply Hc; right; exact H0).
      destruct (lookup cs n) as [e|] eqn:El.
      + match type of H with
        | context [check ?a ?b ?c ?d] => destruct (check a b c d) as [wc|esc] eqn:Ec
        end.
        * destruct (eval f (lookup vals) e) as [v|es] eqn:Ee.
          -- apply (IH _ _ _ _ H Hc' He).
          -- apply (IH _ _ _ _ H Hc'). apply kinds_app. split; [exact He|].
             apply eval_err in Ee. apply Ee.
        * apply (IH _ _ _ _ H Hc'). apply kinds_app. split; [exact He|].
          apply check_kinds in Ec. apply Ec.
      + exfalso. pose proof (Hc n (or_introl eq_refl)) as Hn. unfold has in Hn. rewrite El in Hn. discriminate Hn.
  Qed.

  (* the three outcomes of resolve_constants on a closed set of definitions *)
  Lemma resolve_cases cs :
    NoDup (map fst cs) ->
    (forall n e r, In (n, e) cs -> In r (refs e) -> has cs r = true) ->
    (exists cyc, gsort (const_graph cs) = Ok (inr cyc) /\ gcycle (const_graph cs) cyc /\
                 resolve_constants f cs = Err [mkErr WireLoop cyc]) \/
    (~ ghas_cycle (const_graph cs) /\
     ((exists es, resolve_constants f cs = Err es /\ good expr_diag es) \/
      (exists consts, resolve_constants f cs = Ok consts /\ NoDup (map fst consts) /\
                      forall k, In k (map fst consts) <-> In k (map fst cs)))).
  Proof.
    intros Hnd Hclosed. destruct (const_graph_facts cs Hnd) as [G1 [G2 G3]].
    destruct (toposort_total _ G1) as [[order [Ht Hac]]|[cyc [Ht Hc]]].
    - right. split; [exact Hac|].
      destruct (order_valid string String.eqb String.eqb_eq _ order G1 Ht) as [_ [L2 _]].
      assert (Hord : forall n, In n order -> has cs n = true).
      { intros n Hn. apply L2 in Hn. apply G3 in Hn. destruct Hn as [Hn|[y [e [H1 H2]]]].
        - apply has_In. exact Hn.
        - apply (Hclosed y e n H1 H2). }
      unfold resolve_constants. rewrite Ht. cbn [bind].
      destruct (eval_consts f cs order [] []) as [vals errs] eqn:Ee.
      destruct errs as [|e0 errs].
      + right. exists vals. split; [reflexivity|].
        destruct (eval_consts_keys f cs _ _ _ _ _ Ee) as [K1 K2].
        destruct (eval_consts_complete cs _ _ _ _ _ Ee eq_refl) as [_ [_ C3]].
        split; [apply K1; constructor|]. intros k. split.
        * intros Hk. destruct (K2 k Hk) as [[]|Hx]. apply has_In. exact Hx.
        * intros Hk. apply has_In. apply C3. apply L2. apply G3. left. exact Hk.
      + left. exists (e0 :: errs). split; [reflexivity|]. split; [discriminate|].
        apply (eval_consts_kinds cs _ _ _ _ _ Ee Hord). apply kinds_nil.
    - left. exists cyc. split; [exact Ht|]. split; [exact Hc|].
      unfold resolve_constants. rewrite Ht. reflexivity.
  Qed.
End ConstEval.

(* ================================================================================== *)
(* Part 3: the register-bank outputs the builder knows are those the statements declare *)
(* ================================================================================== *)
Definition decl_outs (b : string * list (string * width * expr)) : list string :=
  match utf8_chars (fst b) "" with
  | [inp; outp] => map (fun r => (outp ++ "_" ++ fst (fst r))%string) (snd b)
  | _ => []
  end.

Section BankOuts.
  Variable f : features.
  Variable is_lower : string -> bool.
  Variable is_upper : string -> bool.

  Lemma step3_register_sigs s consts bn inp outp t sigs defaults rname w dflt :
    let a' := step3_register f s consts bn inp outp (t, sigs, defaults) (rname, w, dflt) in
    t_errs (fst (fst a')) = [] ->
    t_errs t = [] /\ t_banks (fst (fst a')) = t_banks t /\
    snd (fst a') = sigs ++ [((inp ++ "_" ++ rname)%string, (outp ++ "_" ++ rname)%string, w)].
  Proof.
    intros a'. subst a'. unfold step3_register. cbv beta iota zeta.
    match goal with
    | |- context [match ?pre with [] => _ | _ :: _ => _ end] => destruct pre as [|e0 pre0]
    end.
    - match goal with
      | |- context [check ?a ?b ?c ?d] => destruct (check a b c d) as [wc|esc] eqn:Ec
      end.
      2:{ cbn [fst snd t_errs t_banks]. intros He. apply app_eq_nil in He. destruct He as [_ He2].
          apply check_err in Ec. contradiction (Ec He2). }
      destruct (eval f (lookup consts) dflt) as [v|es] eqn:Ee; cbn [fst snd t_errs t_banks]; intros He;
        apply app_eq_nil in He; destruct He as [He1 He2].
      + split; [exact He1|]. split; reflexivity.
      + apply eval_err in Ee. destruct Ee as [Ee _]. contradiction (Ee He2).
    - cbn [fst snd t_errs t_banks]. intros He. apply app_eq_nil in He. destruct He as [_ He]. discriminate He.
  Qed.

  Lemma step3_regs_sigs s consts bn inp outp : forall regs a,
    t_errs (fst (fst (fold_left (step3_register f s consts bn inp outp) regs a))) = [] ->
    t_errs (fst (fst a)) = [] /\
    t_banks (fst (fst (fold_left (step3_register f s consts bn inp outp) regs a))) = t_banks (fst (fst a)) /\
    map (fun sg => snd (fst sg)) (snd (fst (fold_left (step3_register f s consts bn inp outp) regs a))) =
    map (fun sg => snd (fst sg)) (snd (fst a)) ++ map (fun r => (outp ++ "_" ++ fst (fst r))%string) regs.
  Proof.
    induction regs as [|r regs IH]; intros a He; cbn [fold_left] in *.
    - split; [exact He|]. split; [reflexivity|]. cbn [map]. rewrite app_nil_r. reflexivity.
    - destruct (IH _ He) as [I1 [I2 I3]].
      destruct a as [[t sigs] defaults]. destruct r as [[rname w] dflt].
      destruct (step3_register_sigs s consts bn inp outp t sigs defaults rname w dflt I1) as [J1 [J2 J3]].
      cbn [fst snd]. split; [exact J1|]. split; [rewrite I2; exact J2|].
      rewrite I3, J3, map_app. cbn [map fst snd]. rewrite <- app_assoc. reflexivity.
  Qed.

  Lemma all_out_names_snoc banks b :
    all_out_names (banks ++ [b]) = all_out_names banks ++ map (fun sg => snd (fst sg)) (b_signals b).
  Proof. unfold all_out_names. rewrite flat_map_app. cbn [flat_map]. rewrite app_nil_r. reflexivity. Qed.

  Lemma step3_bank_outs s consts t b :
    t_errs (step3_bank f is_lower is_upper s consts t b) = [] ->
    t_errs t = [] /\
    all_out_names (t_banks (step3_bank f is_lower is_upper s consts t b)) =
    all_out_names (t_banks t) ++ decl_outs b.
  Proof.
    destruct b as [name regs]. unfold step3_bank, decl_outs. cbv beta iota. cbn [fst snd].
    destruct (utf8_chars name "") as [|inp [|outp [|x l]]];
      try (cbn [t_errs]; intros He; apply app_eq_nil in He; destruct He as [_ He]; discriminate He).
    destruct (negb (is_lower inp) || negb (is_upper outp));
      [cbn [t_errs]; intros He; apply app_eq_nil in He; destruct He as [_ He]; discriminate He|].
    match goal with
    | |- context [fold_left ?F regs ?A] =>
        pose proof (step3_regs_sigs s consts name inp outp regs A) as Hf;
        destruct (fold_left F regs A) as [[t2 sigs] defaults]
    end.
    cbn [fst snd t_errs t_banks] in *. intros He. destruct (Hf He) as [H1 [H2 H3]].
    apply app_eq_nil in H1. destruct H1 as [H1 _]. split; [exact H1|].
    rewrite all_out_names_snoc. cbn [b_signals]. rewrite H2, H3. cbn [map app]. reflexivity.
  Qed.

  Lemma T3_outs_gen s consts : forall l t,
    t_errs (fold_left (step3_bank f is_lower is_upper s consts) l t) = [] ->
    t_errs t = [] /\
    all_out_names (t_banks (fold_left (step3_bank f is_lower is_upper s consts) l t)) =
    all_out_names (t_banks t) ++ flat_map decl_outs l.
  Proof.
    induction l as [|b l IH]; intros t He; cbn [fold_left flat_map] in *.
    - split; [exact He | rewrite app_nil_r; reflexivity].
    - destruct (IH _ He) as [I1 I2]. destruct (step3_bank_outs s consts t b I1) as [J1 J2].
      split; [exact J1|]. rewrite I2, J2, <- app_assoc. reflexivity.
  Qed.

  Lemma In_bpairs stmts name regs : In (name, regs) (flat_map bpairs stmts) <-> In (SBank name regs) stmts.
  Proof.
    rewrite in_flat_map. split.
    - intros [x [Hx Hin]]. destruct x as [d|d|a|bn rg]; cbn [bpairs In] in Hin; try contradiction.
      destruct Hin as [Hin|[]]. injection Hin as -> ->. exact Hx.
    - intros H. exists (SBank name regs). split; [exact H | left; reflexivity].
  Qed.

  Lemma decl_outs_bank_output stmts x :
    In x (flat_map decl_outs (flat_map bpairs stmts)) <-> bank_output stmts x.
  Proof.
    rewrite in_flat_map. unfold bank_output. split.
    - intros [[name regs] [Hb Hx]]. apply In_bpairs in Hb. unfold decl_outs in Hx. cbn [fst snd] in Hx.
      destruct (utf8_chars name "") as [|inp [|outp [|y l]]] eqn:Eu; try contradiction.
      apply in_map_iff in Hx. destruct Hx as [[[rname w] dflt] [Hx Hr]]. cbn [fst] in Hx.
      exists name, regs, inp, outp, rname, w, dflt. repeat split; [exact Hb | exact Eu | exact Hr | symmetry; exact Hx].
    - intros [name [regs [inp [outp [rname [w [dflt [Hb [Eu [Hr Hx]]]]]]]]]].
      exists (name, regs). split; [apply In_bpairs; exact Hb|].
      unfold decl_outs. cbn [fst snd]. rewrite Eu. apply in_map_iff.
      exists (rname, w, dflt). split; [symmetry; exact Hx | exact Hr].
  Qed.

  (* ---- the control signals the builder treats as known are those the statements leave unassigned *)
  Definition decl_dfl (s : st1) (b : string * list (string * width * expr)) : list string :=
    match utf8_chars (fst b) "" with
    | [inp; outp] =>
        (if has (s_assigns s) ("stall_" ++ outp)%string then [] else [("stall_" ++ outp)%string]) ++
        (if has (s_assigns s) ("bubble_" ++ outp)%string then [] else [("bubble_" ++ outp)%string])
    | _ => []
    end.

  Lemma step3_bank_dfl_iff s consts t b :
    t_errs (step3_bank f is_lower is_upper s consts t b) = [] ->
    forall n, In n (t_defaulted (step3_bank f is_lower is_upper s consts t b)) <->
              In n (t_defaulted t) \/ In n (decl_dfl s b).
  Proof.
    destruct b as [name regs]. unfold step3_bank, decl_dfl. cbv beta iota. cbn [fst snd].
    destruct (utf8_chars name "") as [|inp [|outp [|x l]]];
      try (cbn [t_errs]; intros He; apply app_eq_nil in He; destruct He as [_ He]; discriminate He).
    destruct (negb (is_lower inp) || negb (is_upper outp));
      [cbn [t_errs]; intros He; apply app_eq_nil in He; destruct He as [_ He]; discriminate He|].
    match goal with
    | |- context [fold_left ?F regs ?A] =>
        pose proof (step3_regs_keep f s consts name inp outp regs A) as Hk;
        destruct (fold_left F regs A) as [[t2 sigs] defaults]
    end.
    destruct Hk as [_ K2]. cbn [r_t fst t_defaulted] in K2.
    intros _ n. cbn [t_defaulted]. rewrite K2. apply fold_add_set_In.
  Qed.

  Lemma T3_dfl_gen s consts : forall l t,
    t_errs (fold_left (step3_bank f is_lower is_upper s consts) l t) = [] ->
    forall n, In n (t_defaulted (fold_left (step3_bank f is_lower is_upper s consts) l t)) <->
              In n (t_defaulted t) \/ In n (flat_map (decl_dfl s) l).
  Proof.
    induction l as [|b l IH]; intros t He n; cbn [fold_left flat_map] in *.
    - cbn [In]. tauto.
    - destruct (T3_outs_gen s consts _ _ He) as [He1 _].
      rewrite (IH _ He n), (step3_bank_dfl_iff s consts t b He1 n), in_app_iff. tauto.
  Qed.

  Lemma decl_dfl_defaulted_control fixed stmts n :
    In n (flat_map (decl_dfl (fold_left (step1 fixed) stmts (init1 fixed))) (flat_map bpairs stmts)) <->
    defaulted_control stmts n.
  Proof.
    set (s := fold_left (step1 fixed) stmts (init1 fixed)).
    assert (Hhas : forall x, has (s_assigns s) x = false <-> ~ In x (assigned_names stmts)).
    { intros x. rewrite <- (S1_assigns_has fixed is_lower is_upper stmts x). fold s.
      destruct (has (s_assigns s) x); split; intros H; try reflexivity; try discriminate H.
      - exfalso. apply H. reflexivity.
      - intros H'. discriminate H'. }
    rewrite in_flat_map. unfold defaulted_control. split.
    - intros [[name regs] [Hb Hx]]. apply In_bpairs in Hb. unfold decl_dfl in Hx. cbn [fst] in Hx.
      destruct (utf8_chars name "") as [|inp [|outp [|y l]]] eqn:Eu; try contradiction.
      exists name, regs, inp, outp. split; [exact Hb|]. split; [exact Eu|].
      apply in_app_iff in Hx. destruct Hx as [Hx|Hx].
      + destruct (has (s_assigns s) ("stall_" ++ outp)) eqn:E; [contradiction|].
        destruct Hx as [<-|[]]. split; [left; reflexivity | apply Hhas; exact E].
      + destruct (has (s_assigns s) ("bubble_" ++ outp)) eqn:E; [contradiction|].
        destruct Hx as [<-|[]]. split; [right; reflexivity | apply Hhas; exact E].
    - intros [name [regs [inp [outp [Hb [Eu [Hn Hna]]]]]]].
      exists (name, regs). split; [apply In_bpairs; exact Hb|].
      unfold decl_dfl. cbn [fst]. rewrite Eu. apply Hhas in Hna. apply in_app_iff.
      destruct Hn as [-> | ->]; [left | right]; rewrite Hna; left; reflexivity.
  Qed.

  Lemma T3_dfl fixed stmts consts :
    let s := fold_left (step1 fixed) stmts (init1 fixed) in
    t_errs (fold_left (step3_bank f is_lower is_upper s consts) (s_banks s)
                      (mkSt3 [] [] (s_types s) [] [] [])) = [] ->
    forall x, In x (t_defaulted (fold_left (step3_bank f is_lower is_upper s consts) (s_banks s)
                                           (mkSt3 [] [] (s_types s) [] [] []))) <->
              defaulted_control stmts x.
  Proof.
    intros s He x. rewrite (T3_dfl_gen s consts _ _ He x). cbn [t_defaulted In].
    subst s. rewrite S1_banks, fold_snoc. cbn [app].
    rewrite (decl_dfl_defaulted_control fixed stmts x). tauto.
  Qed.

  Lemma T3_outs fixed stmts consts :
    let s := fold_left (step1 fixed) stmts (init1 fixed) in
    t_errs (fold_left (step3_bank f is_lower is_upper s consts) (s_banks s)
                      (mkSt3 [] [] (s_types s) [] [] [])) = [] ->
    forall x, In x (all_out_names (t_banks (fold_left (step3_bank f is_lower is_upper s consts) (s_banks s)
                                                      (mkSt3 [] [] (s_types s) [] [] [])))) <->
              bank_output stmts x.
  Proof.
    intros s He x. destruct (T3_outs_gen s consts _ _ He) as [_ H]. rewrite H.
    cbn [t_banks all_out_names flat_map app]. subst s. rewrite S1_banks, fold_snoc. cbn [app].
    apply decl_outs_bank_output.
  Qed.
End BankOuts.

(* ================================================================================== *)
(* Part 4: the graph of the wires (assignments + built-in components in use)           *)
(* ================================================================================== *)
Section WireGraph.
  Variable f : features.

  Lemma preprocess_one_cases2 consts assigns g by_out no_out errs ff :
    snd (preprocess_one f consts assigns (g, by_out, no_out, errs) ff) = [] ->
    errs = [] /\
    (((exists i, In i (fixed_in_names ff) /\ has assigns i = false) /\
      preprocess_one f consts assigns (g, by_out, no_out, errs) ff = (g, by_out, no_out, [])) \/
     ((forall i, In i (fixed_in_names ff) -> has assigns i = true) /\
      ((ff_out ff = None /\
        preprocess_one f consts assigns (g, by_out, no_out, errs) ff = (g, by_out, no_out ++ [ff], [])) \/
       (exists o w, ff_out ff = Some (o, w) /\
          preprocess_one f consts assigns (g, by_out, no_out, errs) ff =
          (fold_left (fun g1 n => graph_insert g1 n o) (fixed_in_names ff) g, upd by_out o ff, no_out, []))))).
  Proof.
    unfold preprocess_one. cbv beta iota zeta.
    destruct (filter (fun n => negb (has assigns n)) (fixed_in_names ff)) as [|m ms] eqn:Em.
    - assert (Hall : forall i, In i (fixed_in_names ff) -> has assigns i = true).
      { intros i Hi. apply (filter_nil_inv _ _ Em) in Hi. apply negb_false_iff in Hi. exact Hi. }
      destruct (ff_out ff) as [[o w]|] eqn:Eo; cbn [snd]; intros ->; (split; [reflexivity|]); right;
        (split; [exact Hall|]).
      + right. exists o, w. split; reflexivity.
      + left. split; reflexivity.
    - assert (Hm : In m (fixed_in_names ff) /\ has assigns m = false).
      { assert (H0 : In m (filter (fun n => negb (has assigns n)) (fixed_in_names ff)))
          by (rewrite Em; left; reflexivity).
        apply filter_In in H0. destruct H0 as [H1 H2]. apply negb_true_iff in H2. split; assumption. }
      destruct (ff_mandatory ff).
      + destruct (ff_out ff) as [[o w]|]; cbn [snd map]; intros He; apply app_eq_nil in He;
          destruct He as [_ He]; discriminate He.
      + cbn [snd]. intros He. apply app_eq_nil in He. destruct He as [He1 He2]. subst errs.
        split; [reflexivity|]. left. split; [exists m; exact Hm|]. rewrite He2. reflexivity.
  Qed.

  (* the edges the built-in components add: exactly inputs -> output of the components in use *)
  Lemma preprocess_edges consts assigns : forall l g by_out no_out g' by_out' no_out',
    gwf g -> NoDup (fixed_out_names l) -> Forall (fun ff => NoDup (fixed_in_names ff)) l ->
    (forall o, In o (fixed_out_names l) -> forall x, ~ gedge g x o) ->
    fold_left (preprocess_one f consts assigns) l (g, by_out, no_out, []) = (g', by_out', no_out', []) ->
    gwf g' /\
    (forall x y, gedge g' x y <->
       gedge g x y \/
       exists ff w, In ff l /\ (forall i, In i (fixed_in_names ff) -> has assigns i = true) /\
                    ff_out ff = Some (y, w) /\ In x (fixed_in_names ff)).
  Proof.
    induction l as [|ff l IH]; intros g by_out no_out g' by_out' no_out' Hwf Hnd Hins Hne H; cbn [fold_left] in H.
    - injection H as <- <- <-. split; [exact Hwf|]. intros x y.
      split; [intros Hxy; left; exact Hxy | intros [Hxy|[ff [w [[] _]]]]; exact Hxy].
    - assert (He1 : snd (preprocess_one f consts assigns (g, by_out, no_out, []) ff) = []).
      { apply (fold_errs_grow snd (preprocess_one f consts assigns) (preprocess_one_errs f consts assigns) l).
        rewrite H. reflexivity. }
      inversion Hins as [|? ? Hi Hins']; subst.
      rewrite fixed_out_names_cons in Hnd, Hne.
      assert (Hnd' : NoDup (fixed_out_names l)).
      { apply NoDup_app_inv in Hnd. destruct Hnd as [_ [Hnd _]]. exact Hnd. }
      assert (Hne' : forall o, In o (fixed_out_names l) -> forall x, ~ gedge g x o).
      { intros o Ho. apply Hne. apply in_or_app. right. exact Ho. }
      destruct (preprocess_one_cases2 _ _ _ _ _ _ _ He1) as [_ [[[i0 [Hi0 Hi1]] Hc]|[Hall [[Ho Hc]|[o [w [Ho Hc]]]]]]];
        rewrite Hc in H.
      + destruct (IH _ _ _ _ _ _ Hwf Hnd' Hins' Hne' H) as [I1 I2]. split; [exact I1|].
        intros x y. rewrite I2. split.
        * intros [Hxy|[ff0 [w0 [H1 H2]]]]; [left; exact Hxy | right; exists ff0, w0; split; [right; exact H1 | exact H2]].
        * intros [Hxy|[ff0 [w0 [[H1|H1] [H2 H3]]]]]; [left; exact Hxy | | right; exists ff0, w0; split; [exact H1 | split; assumption]].
          subst ff0. rewrite (H2 i0 Hi0) in Hi1. discriminate Hi1.
      + destruct (IH _ _ _ _ _ _ Hwf Hnd' Hins' Hne' H) as [I1 I2]. split; [exact I1|].
        intros x y. rewrite I2. split.
        * intros [Hxy|[ff0 [w0 [H1 H2]]]]; [left; exact Hxy | right; exists ff0, w0; split; [right; exact H1 | exact H2]].
        * intros [Hxy|[ff0 [w0 [[H1|H1] [H2 [H3 H4]]]]]]; [left; exact Hxy | | right; exists ff0, w0; split; [exact H1 | split; [exact H2 | split; assumption]]].
          subst ff0. rewrite Ho in H3. discriminate H3.
      + rewrite Ho in Hnd, Hne. cbn [app] in Hnd, Hne.
        apply NoDup_cons_iff in Hnd. destruct Hnd as [Hon _].
        destruct (insert_ins_wf o (fixed_in_names ff) g Hwf Hi) as [W1 [W2 _]].
        { intros i _. apply Hne. left. reflexivity. }
        cbv zeta in W1, W2.
        set (g1 := fold_left (fun g1 n => graph_insert g1 n o) (fixed_in_names ff) g) in *.
        assert (Hne1 : forall o', In o' (fixed_out_names l) -> forall x, ~ gedge g1 x o').
        { intros o' Ho' x He. apply W2 in He. destruct He as [He|[He _]].
          - apply (Hne' o' Ho' x). exact He.
          - subst o'. apply Hon. exact Ho'. }
        destruct (IH _ _ _ _ _ _ W1 Hnd' Hins' Hne1 H) as [I1 I2]. split; [exact I1|].
        intros x y. rewrite I2, W2. split.
        * intros [[Hxy|[H1 H2]]|[ff0 [w0 [H1 H2]]]].
          -- left. exact Hxy.
          -- right. exists ff, w. subst y. split; [left; reflexivity|]. split; [exact Hall|]. split; assumption.
          -- right. exists ff0, w0. split; [right; exact H1 | exact H2].
        * intros [Hxy|[ff0 [w0 [[H1|H1] [H2 [H3 H4]]]]]].
          -- left. left. exact Hxy.
          -- subst ff0. rewrite Ho in H3. injection H3 as <- <-. left. right. split; [reflexivity | exact H4].
          -- right. exists ff0, w0. split; [exact H1|]. split; [exact H2|]. split; assumption.
  Qed.
  (* without any assumption on the table: every edge added is inputs -> output of a component in use *)
  Lemma fold_insert_edge (o : string) : forall ins g x y,
    gedge (fold_left (fun g1 n => graph_insert g1 n o) ins g) x y <-> gedge g x y \/ (y = o /\ In x ins).
  Proof.
    induction ins as [|i ins IH]; intros g x y; cbn [fold_left In].
    - split; [intros H; left; exact H | intros [H|[_ []]]; exact H].
    - rewrite IH, graph_insert_edge. split.
      + intros [[H|[H1 H2]]|[H1 H2]]; [left; exact H | right; split; [exact H2 | left; symmetry; exact H1] | right; split; [exact H1 | right; exact H2]].
      + intros [H|[H1 [H2|H2]]]; [left; left; exact H | left; right; split; [symmetry; exact H2 | exact H1] | right; split; assumption].
  Qed.

  Lemma preprocess_edges_sound consts assigns : forall l g by_out no_out g' by_out' no_out',
    fold_left (preprocess_one f consts assigns) l (g, by_out, no_out, []) = (g', by_out', no_out', []) ->
    forall x y, gedge g' x y ->
       gedge g x y \/
       exists ff w, In ff l /\ (forall i, In i (fixed_in_names ff) -> has assigns i = true) /\
                    ff_out ff = Some (y, w) /\ In x (fixed_in_names ff).
  Proof.
    induction l as [|ff l IH]; intros g by_out no_out g' by_out' no_out' H x y Hxy; cbn [fold_left] in H.
    - injection H as <- <- <-. left. exact Hxy.
    - assert (He1 : snd (preprocess_one f consts assigns (g, by_out, no_out, []) ff) = []).
      { apply (fold_errs_grow snd (preprocess_one f consts assigns) (preprocess_one_errs f consts assigns) l).
        rewrite H. reflexivity. }
      assert (Hlift : (exists ff0 w, In ff0 l /\ (forall i, In i (fixed_in_names ff0) -> has assigns i = true) /\
                                     ff_out ff0 = Some (y, w) /\ In x (fixed_in_names ff0)) ->
                      exists ff0 w, In ff0 (ff :: l) /\ (forall i, In i (fixed_in_names ff0) -> has assigns i = true) /\
                                    ff_out ff0 = Some (y, w) /\ In x (fixed_in_names ff0)).
      { intros [ff0 [w0 [H1 H2]]]. exists ff0, w0. split; [right; exact H1 | exact H2]. }
      destruct (preprocess_one_cases2 _ _ _ _ _ _ _ He1) as [_ [[_ Hc]|[Hall [[Ho Hc]|[o [w [Ho Hc]]]]]]];
        rewrite Hc in H.
      + destruct (IH _ _ _ _ _ _ H x y Hxy) as [Hg|Hg]; [left; exact Hg | right; apply Hlift; exact Hg].
      + destruct (IH _ _ _ _ _ _ H x y Hxy) as [Hg|Hg]; [left; exact Hg | right; apply Hlift; exact Hg].
      + destruct (IH _ _ _ _ _ _ H x y Hxy) as [Hg|Hg]; [|right; apply Hlift; exact Hg].
        apply fold_insert_edge in Hg. destruct Hg as [Hg|[Hy Hx]]; [left; exact Hg|].
        right. exists ff, w. subst y. split; [left; reflexivity|]. split; [exact Hall|]. split; assumption.
  Qed.
End WireGraph.

(* ================================================================================== *)
(* Part 5: from the builder's graphs to the relations of the program                   *)
(* ================================================================================== *)
Section LoopProofs.
  Variable f : features.
  Variable fixed : list fixed_fn.
  Variable is_lower : string -> bool.
  Variable is_upper : string -> bool.

  Notation build := (build_program f fixed is_lower is_upper).
  Notation S1 stmts := (fold_left (step1 fixed) stmts (init1 fixed)).

  Definition T3 (s : st1) (consts : list (string * wval)) : st3 :=
    fold_left (step3_bank f is_lower is_upper s consts) (s_banks s) (mkSt3 [] [] (s_types s) [] [] []).
  Definition known_of (s : st1) (consts : list (string * wval)) : list string :=
    all_out_names (t_banks (T3 s consts)) ++ t_defaulted (T3 s consts) ++ map fst consts.
  Definition errs4_of (s : st1) (consts : list (string * wval)) : list err :=
    t_errs (T3 s consts) ++
    unset_errors s (T3 s consts)
      (fold_left (fun l x => add_set x l) (all_in_names (t_banks (T3 s consts))) (s_needed s)).
  Definition pre_of (s : st1) (consts : list (string * wval)) :=
    fold_left (preprocess_one f consts (s_assigns s)) fixed
              (assign_graph (s_assigns s) (known_of s consts), [], [], []).
  Definition wire_graph (s : st1) (consts : list (string * wval)) : graph string :=
    fst (fst (fst (pre_of s consts))).

  (* the builder gets as far as sorting the wires, with these constants *)
  Definition sort_ready (stmts : list stmt) (consts : list (string * wval)) : Prop :=
    decl_pass_clean fixed stmts /\
    resolve_constants f (s_consts (S1 stmts)) = Ok consts /\
    errs4_of (S1 stmts) consts = [] /\
    snd (pre_of (S1 stmts) consts) = [].

  Lemma reaches_iff stmts :
    reaches_wire_sort f fixed is_lower is_upper stmts <-> exists consts, sort_ready stmts consts.
  Proof.
    unfold reaches_wire_sort, sort_ready. cbv zeta. split.
    - intros [H1 [consts [H2 [H3 H4]]]]. exists consts. repeat split; assumption.
    - intros [consts [H1 [H2 [H3 H4]]]]. split; [exact H1|]. exists consts. repeat split; assumption.
  Qed.

  Lemma decl_clean_inv stmts : decl_pass_clean fixed stmts ->
    s_errs (S1 stmts) = [] /\ const_assigned_errors (S1 stmts) = [] /\ const_ref_errors (S1 stmts) = [].
  Proof.
    unfold decl_pass_clean, decls_of. cbv zeta. intros H.
    apply app_eq_nil in H. destruct H as [H1 H]. apply app_eq_nil in H. destruct H as [H2 H3].
    repeat split; assumption.
  Qed.

  (* ---- the statements' vocabulary against the declaration pass' tables ----------------------- *)
  Lemma constant_def_iff stmts b e : constant_def stmts b e <-> In (b, e) (const_exprs stmts).
  Proof.
    unfold constant_def, const_exprs. rewrite in_flat_map. split.
    - intros [d [H1 H2]]. exists (SConst d). split; assumption.
    - intros [x [H1 H2]]. destruct x as [d|d|a|bn rg]; try contradiction. exists d. split; assumption.
  Qed.

  Lemma assigned_to_iff stmts b e : assigned_to stmts b e <-> In (b, e) (flat_map apairs stmts).
  Proof.
    unfold assigned_to. rewrite in_flat_map. split.
    - intros [a [ts [H1 [H2 H3]]]]. exists (SAssign a). split; [exact H1|].
      cbn [apairs]. unfold apairs_of. apply in_flat_map. exists (ts, e). split; [exact H2|].
      cbn [fst snd]. apply in_map_iff. exists b. split; [reflexivity | exact H3].
    - intros [x [H1 H2]]. destruct x as [d|d|a|bn rg]; cbn [apairs] in H2; try contradiction.
      unfold apairs_of in H2. apply in_flat_map in H2. destruct H2 as [[ts e0] [H2 H3]].
      cbn [fst snd] in H3. apply in_map_iff in H3. destruct H3 as [n [H3 H4]]. injection H3 as -> ->.
      exists a, ts. repeat split; assumption.
  Qed.

  Lemma S1_consts_iff stmts n e : s_errs (S1 stmts) = [] ->
    (In (n, e) (s_consts (S1 stmts)) <-> In (n, e) (const_exprs stmts)).
  Proof.
    intros He. split; [|apply (S1_consts_exact fixed is_lower is_upper); exact He].
    intros Hin. apply (In_lookup _ n e (S1_consts_NoDup fixed stmts)) in Hin. rewrite S1_consts in Hin.
    apply fold_upd_lookup_some in Hin. destruct Hin as [Hin|Hin]; [discriminate Hin | exact Hin].
  Qed.

  Lemma S1_assigns_iff stmts n e : s_errs (S1 stmts) = [] ->
    (In (n, e) (s_assigns (S1 stmts)) <-> In (n, e) (flat_map apairs stmts)).
  Proof.
    intros He. split.
    - intros Hin. apply (In_lookup _ n e (S1_assigns_NoDup fixed stmts)) in Hin. rewrite S1_assigns in Hin.
      apply fold_upd_lookup_some in Hin. destruct Hin as [Hin|Hin]; [discriminate Hin | exact Hin].
    - intros Hin. apply lookup_In. rewrite S1_assigns.
      destruct (S1_assigned_fresh fixed is_lower is_upper stmts He) as [Hnd _].
      rewrite <- apairs_names in Hnd.
      apply fold_upd_lookup_agree; [|right; exact Hin].
      intros e' He'. apply (NoDup_fst_fun (flat_map apairs stmts) n e e' Hnd Hin He').
  Qed.

  (* ---- R1: the graph of the constants is the relation of the constants ------------------------ *)
  Lemma const_edges stmts : decl_pass_clean fixed stmts ->
    NoDup (map fst (s_consts (S1 stmts))) /\
    (forall n e r, In (n, e) (s_consts (S1 stmts)) -> In r (refs e) -> has (s_consts (S1 stmts)) r = true) /\
    gwf (const_graph (s_consts (S1 stmts))) /\
    (forall x y, gedge (const_graph (s_consts (S1 stmts))) x y <-> const_flows stmts x y).
  Proof.
    intros Hc. destruct (decl_clean_inv stmts Hc) as [He [_ Hcr]].
    pose proof (S1_consts_NoDup fixed stmts) as Hnd.
    destruct (const_graph_facts _ Hnd) as [G1 [G2 _]].
    split; [exact Hnd|]. split; [apply const_ref_errors_nil; exact Hcr|]. split; [exact G1|].
    intros x y. rewrite G2. unfold const_flows, const_reads_directly. split.
    - intros [e [H1 H2]]. exists e. split; [|exact H2]. apply constant_def_iff. apply S1_consts_iff; assumption.
    - intros [e [H1 H2]]. exists e. split; [|exact H2]. apply S1_consts_iff; [exact He|]. apply constant_def_iff. exact H1.
  Qed.

  Lemma resolve_ok_keys cs consts :
    NoDup (map fst cs) -> (forall n e r, In (n, e) cs -> In r (refs e) -> has cs r = true) ->
    resolve_constants f cs = Ok consts ->
    ~ ghas_cycle (const_graph cs) /\ forall k, In k (map fst consts) <-> In k (map fst cs).
  Proof.
    intros Hnd Hcl Hr.
    destruct (resolve_cases f cs Hnd Hcl) as [[cyc [_ [_ Hx]]]|[Hac [[es [Hx _]]|[consts' [Hx [_ Hk]]]]]];
      rewrite Hr in Hx; try discriminate Hx.
    injection Hx as <-. split; assumption.
  Qed.

  (* ---- R2: the graph of the wires is the relation of the wires -------------------------------- *)
  Lemma known_iff stmts consts : sort_ready stmts consts ->
    forall x, In x (known_of (S1 stmts) consts) <->
              bank_output stmts x \/ defaulted_control stmts x \/ In x (const_names stmts).
  Proof.
    intros [Hc [Hr [H4 _]]] x. unfold known_of. rewrite !in_app_iff.
    unfold errs4_of in H4. apply app_eq_nil in H4. destruct H4 as [Hte _].
    destruct (const_edges stmts Hc) as [Hnd [Hcl _]].
    destruct (resolve_ok_keys _ _ Hnd Hcl Hr) as [_ Hk].
    rewrite (T3_outs f is_lower is_upper fixed stmts consts Hte x),
            (T3_dfl f is_lower is_upper fixed stmts consts Hte x), Hk.
    rewrite <- (S1_consts_has fixed is_lower is_upper stmts x), has_In. reflexivity.
  Qed.

  (* the two kinds of edges the builder inserts, against the relation of the program *)
  Lemma wire_rel_iff stmts consts : sort_ready stmts consts ->
    forall x y,
      ((exists e, In (y, e) (s_assigns (S1 stmts)) /\ In x (refs e) /\
                  mem_str x (known_of (S1 stmts) consts) = false) \/
       (exists ff w, In ff fixed /\
                     (forall i, In i (fixed_in_names ff) -> has (s_assigns (S1 stmts)) i = true) /\
                     ff_out ff = Some (y, w) /\ In x (fixed_in_names ff))) <->
      wire_flows fixed stmts x y.
  Proof.
    intros Hready. pose proof (known_iff stmts consts Hready) as Hknown.
    destruct Hready as [Hc _]. destruct (decl_clean_inv stmts Hc) as [He _].
    intros x y. unfold wire_flows. split.
    - intros [[e [H1 [H2 H3]]]|[ff [w [H1 [H2 [H3 H5]]]]]].
      + apply mem_str_false in H3. rewrite Hknown in H3.
        apply (rd_assign fixed stmts y x e).
        * apply assigned_to_iff. apply S1_assigns_iff; assumption.
        * exact H2.
        * intros Hb. apply H3. left. exact Hb.
        * intros Hd. apply H3. right. left. exact Hd.
        * intros Hk. apply H3. right. right. exact Hk.
      + apply (rd_builtin fixed stmts y x ff w); [exact H1 | | exact H3 | exact H5].
        intros i Hi. apply (S1_assigns_has fixed is_lower is_upper). apply H2. exact Hi.
    - intros [e H1 H2 H3 H4 H5|ff w H1 H2 H3 H5].
      + left. exists e. split; [apply S1_assigns_iff; [exact He|]; apply assigned_to_iff; exact H1|].
        split; [exact H2|]. apply mem_str_false. rewrite Hknown.
        intros [Hb|[Hd|Hk]]; [exact (H3 Hb) | exact (H4 Hd) | exact (H5 Hk)].
      + right. exists ff, w. split; [exact H1|]. split; [|split; assumption].
        intros i Hi. apply (S1_assigns_has fixed is_lower is_upper). apply H2. exact Hi.
  Qed.

  Lemma wire_edges stmts consts : fixed_table_distinct fixed -> sort_ready stmts consts ->
    gwf (wire_graph (S1 stmts) consts) /\
    (forall x y, gedge (wire_graph (S1 stmts) consts) x y <-> wire_flows fixed stmts x y).
  Proof.
    intros [Tins Touts] Hready. pose proof (wire_rel_iff stmts consts Hready) as Hrel.
    destruct Hready as [Hc [Hr [H4 Hp]]]. destruct (decl_clean_inv stmts Hc) as [He [Hca Hcr]].
    set (s := S1 stmts) in *. set (A := s_assigns s) in *. set (known := known_of s consts) in *.
    assert (HA1 : NoDup (map fst A)) by apply S1_assigns_NoDup.
    assert (HA2 : forall n, has A n = true -> ~ In n (fixed_out_names fixed)).
    { intros n Hn. apply (S1_assigns_has fixed is_lower is_upper) in Hn.
      destruct (S1_assigned_fresh fixed is_lower is_upper stmts He) as [_ Hfr]. apply Hfr. exact Hn. }
    destruct (assign_graph_facts A known HA1) as [G1 [G2 _]].
    assert (Hnoe : forall o, In o (fixed_out_names fixed) -> forall x, ~ gedge (assign_graph A known) x o).
    { intros o Ho x Hxo. apply G2 in Hxo. destruct Hxo as [e [Hoe _]].
      apply (HA2 o); [|exact Ho]. apply has_In. apply (in_map fst) in Hoe. exact Hoe. }
    unfold wire_graph. unfold pre_of in *. fold A in Hp |- *. fold known in Hp |- *.
    destruct (fold_left (preprocess_one f consts A) fixed (assign_graph A known, [], [], []))
      as [[[g by_out] no_out] e0] eqn:Ep.
    cbn [snd] in Hp. subst e0. cbn [fst].
    rewrite <- fixed_out_names_eq in Touts.
    destruct (preprocess_edges f consts A fixed _ _ _ _ _ _ G1 Touts Tins Hnoe Ep) as [P1 P2].
    split; [exact P1|]. intros x y. rewrite P2, G2. apply Hrel.
  Qed.

  (* whatever the table: every edge of the graph handed to the sorter is a direct read *)
  Lemma wire_edges_sound stmts consts : sort_ready stmts consts ->
    forall x y, gedge (wire_graph (S1 stmts) consts) x y -> wire_flows fixed stmts x y.
  Proof.
    intros Hready. pose proof (wire_rel_iff stmts consts Hready) as Hrel.
    destruct Hready as [Hc [Hr [H4 Hp]]].
    set (s := S1 stmts) in *. set (A := s_assigns s) in *. set (known := known_of s consts) in *.
    assert (HA1 : NoDup (map fst A)) by apply S1_assigns_NoDup.
    destruct (assign_graph_facts A known HA1) as [_ [G2 _]].
    unfold wire_graph. unfold pre_of in *. fold A in Hp |- *. fold known in Hp |- *.
    destruct (fold_left (preprocess_one f consts A) fixed (assign_graph A known, [], [], []))
      as [[[g by_out] no_out] e0] eqn:Ep.
    cbn [snd] in Hp. subst e0. cbn [fst]. intros x y Hxy.
    apply Hrel. destruct (preprocess_edges_sound f consts A fixed _ _ _ _ _ _ Ep x y Hxy) as [Hg|Hg].
    - left. apply G2. exact Hg.
    - right. exact Hg.
  Qed.

  (* ================================================================================ *)
  (* Part 6: every outcome of build_program                                            *)
  (* ================================================================================ *)
  (* what happens once the graph of the wires is handed to the sorter *)
  Definition back (stmts : list stmt) (consts : list (string * wval)) (r : result program) : Prop :=
    let g := wire_graph (S1 stmts) consts in
    (exists es, gsort g = Err es /\ r = Err es) \/
    (exists cyc, gsort g = Ok (inr cyc) /\ r = Err [mkErr WireLoop cyc]) \/
    (exists order, gsort g = Ok (inl order) /\
       ((exists es, r = Err es /\ good not_loop es) \/ exists p, r = Ok p)).

  (* the passes before that - whatever the component table *)
  Inductive front (stmts : list stmt) : result program -> Prop :=
  | F_decl es :
      ~ decl_pass_clean fixed stmts -> good decl_diag es -> front stmts (Err es)
  | F_const_loop cyc :
      decl_pass_clean fixed stmts -> gcycle (const_graph (s_consts (S1 stmts))) cyc ->
      front stmts (Err [mkErr WireLoop cyc])
  | F_const_eval es :
      decl_pass_clean fixed stmts -> ~ ghas_cycle (const_graph (s_consts (S1 stmts))) ->
      (forall consts, resolve_constants f (s_consts (S1 stmts)) <> Ok consts) ->
      good expr_diag es -> front stmts (Err es)
  | F_mid consts es :
      decl_pass_clean fixed stmts -> resolve_constants f (s_consts (S1 stmts)) = Ok consts ->
      ~ sort_ready stmts consts -> good mid_diag es -> front stmts (Err es)
  | F_ready consts r :
      sort_ready stmts consts -> back stmts consts r -> front stmts r.

  Theorem build_front_back : forall stmts, front stmts (build stmts).
  Proof.
    intros stmts. unfold build_program.
    set (s := S1 stmts).
    destruct (s_errs s ++ const_assigned_errors s ++ const_ref_errors s) as [|e0 es0] eqn:E1.
    2:{ apply F_decl.
        - unfold decl_pass_clean, decls_of. cbv zeta. fold s. rewrite E1. discriminate.
        - split; [discriminate|]. rewrite <- E1. apply decl_pass_kinds. }
    assert (Hc : decl_pass_clean fixed stmts) by exact E1.
    destruct (const_edges stmts Hc) as [Hnd [Hcl _]]. fold s in Hnd, Hcl.
    destruct (resolve_cases f (s_consts s) Hnd Hcl)
      as [[cyc [_ [Hcyc Hr]]]|[Hac [[es [Hr Hg]]|[consts [Hr _]]]]]; rewrite Hr; cbn [bind].
    - apply F_const_loop; assumption.
    - apply F_const_eval; [exact Hc | exact Hac | | exact Hg].
      intros consts. fold s. rewrite Hr. discriminate.
    - fold (T3 s consts). fold (errs4_of s consts).
      destruct (errs4_of s consts) as [|e1 es1] eqn:E4.
      2:{ apply (F_mid stmts consts); [exact Hc | exact Hr | |].
          - intros [_ [_ [H4 _]]]. fold s in H4. rewrite E4 in H4. discriminate H4.
          - split; [discriminate|]. rewrite <- E4. unfold errs4_of. apply kinds_app.
            split; [apply T3_errs_kinds | apply unset_kinds]. }
      unfold assignments_to_actions. fold (known_of s consts). fold (pre_of s consts).
      destruct (pre_of s consts) as [[[g by_out] no_out] errs0] eqn:Ep.
      destruct errs0 as [|e2 es2].
      2:{ cbn [bind]. apply (F_mid stmts consts); [exact Hc | exact Hr | |].
          - intros [_ [_ [_ H5]]]. fold s in H5. rewrite Ep in H5. discriminate H5.
          - split; [discriminate|].
            pose proof (preprocess_kinds f fixed consts (s_assigns s)
                                         (assign_graph (s_assigns s) (known_of s consts))) as Hk.
            fold (pre_of s consts) in Hk. rewrite Ep in Hk. exact Hk. }
      assert (Hready : sort_ready stmts consts).
      { split; [exact Hc|]. split; [exact Hr|]. split; [exact E4|]. fold s. rewrite Ep. reflexivity. }
      assert (Hg : wire_graph (S1 stmts) consts = g) by (unfold wire_graph; fold s; rewrite Ep; reflexivity).
      apply (F_ready stmts consts); [exact Hready|]. unfold back. cbv zeta. rewrite Hg.
      destruct (gsort g) as [[order|cyc]|es] eqn:Ht; cbn [bind].
      + right. right. exists order. split; [reflexivity|].
        match goal with
        | |- context [schedule ?a ?b ?c ?d ?e ?h ?i ?j ?k ?l] =>
            destruct (schedule a b c d e h i j k l) as [[acts errs] und] eqn:Es
        end.
        destruct (errs ++ map (fun n => mkErr UnsetUndeclaredWire [n]) und) as [|e3 es3] eqn:E5; cbn [bind].
        * right. eexists. reflexivity.
        * left. exists (e3 :: es3). split; [reflexivity|].
          split; [discriminate|]. rewrite <- E5. apply kinds_app. split.
          -- apply (schedule_kinds f _ _ _ _ _ _ _ _ _ _ _ _ Es). apply kinds_nil.
          -- apply (kinds_map not_loop UnsetUndeclaredWire (fun n => [n])). reflexivity.
      + right. left. exists cyc. split; reflexivity.
      + left. exists es. split; reflexivity.
  Qed.

  (* with a table whose graphs are well formed the sorter always answers, exactly *)
  Inductive outcome (stmts : list stmt) : result program -> Prop :=
  | O_decl es :
      ~ decl_pass_clean fixed stmts -> good decl_diag es -> outcome stmts (Err es)
  | O_const_loop cyc :
      decl_pass_clean fixed stmts -> gcycle (const_graph (s_consts (S1 stmts))) cyc ->
      outcome stmts (Err [mkErr WireLoop cyc])
  | O_const_eval es :
      decl_pass_clean fixed stmts -> ~ ghas_cycle (const_graph (s_consts (S1 stmts))) ->
      (forall consts, resolve_constants f (s_consts (S1 stmts)) <> Ok consts) ->
      good expr_diag es -> outcome stmts (Err es)
  | O_mid consts es :
      decl_pass_clean fixed stmts -> resolve_constants f (s_consts (S1 stmts)) = Ok consts ->
      ~ sort_ready stmts consts -> good mid_diag es -> outcome stmts (Err es)
  | O_wire_loop consts cyc :
      sort_ready stmts consts -> gcycle (wire_graph (S1 stmts) consts) cyc ->
      outcome stmts (Err [mkErr WireLoop cyc])
  | O_sched consts es :
      sort_ready stmts consts -> ~ ghas_cycle (wire_graph (S1 stmts) consts) ->
      good not_loop es -> outcome stmts (Err es)
  | O_ok consts p :
      sort_ready stmts consts -> ~ ghas_cycle (wire_graph (S1 stmts) consts) ->
      outcome stmts (Ok p).

  Theorem build_outcome : fixed_table_distinct fixed -> forall stmts, outcome stmts (build stmts).
  Proof.
    intros Hfix stmts.
    destruct (build_front_back stmts) as [es Hn Hg|cyc Hc Hcyc|es Hc Hac Hnone Hg|consts es Hc Hres Hn Hg
                                         |consts r Hready Hb].
    - apply O_decl; assumption.
    - apply O_const_loop; assumption.
    - apply O_const_eval; assumption.
    - apply (O_mid stmts consts); assumption.
    - destruct (wire_edges stmts consts Hfix Hready) as [Hwf _].
      unfold back in Hb. cbv zeta in Hb.
      destruct (toposort_total _ Hwf) as [[order [Ht Hac]]|[cyc [Ht Hcyc]]];
        destruct Hb as [[es [Hx Hb]]|[[cyc' [Hx Hb]]|[order' [Hx Hb]]]]; rewrite Ht in Hx; try discriminate Hx.
      + destruct Hb as [[es [-> Hg]]|[p ->]].
        * apply (O_sched stmts consts); assumption.
        * apply (O_ok stmts consts); assumption.
      + injection Hx as <-. subst r. apply (O_wire_loop stmts consts); assumption.
  Qed.

  (* ================================================================================ *)
  (* Part 7: the statements of LoopSpec.v                                              *)
  (* ================================================================================ *)
  Lemma has_cycle_iff g : ghas_cycle g <-> exists c, cycle_of (gedge g) c.
  Proof.
    unfold has_cycle. split; intros [c Hc]; exists c; apply is_cycle_cycle_of; exact Hc.
  Qed.

  Lemma cycle_of_iff {A} (R R' : A -> A -> Prop) c : (forall a b, R a b <-> R' a b) -> (cycle_of R c <-> cycle_of R' c).
  Proof.
    intros H. split; apply cycle_of_mono; intros a b Hab; apply H; exact Hab.
  Qed.

  Lemma const_cycle_iff stmts c : decl_pass_clean fixed stmts ->
    (gcycle (const_graph (s_consts (S1 stmts))) c <-> const_cycle stmts c).
  Proof.
    intros Hc. destruct (const_edges stmts Hc) as [_ [_ [_ G2]]].
    rewrite is_cycle_cycle_of. unfold const_cycle. apply cycle_of_iff. exact G2.
  Qed.

  Lemma wire_cycle_iff stmts consts c : fixed_table_distinct fixed -> sort_ready stmts consts ->
    (gcycle (wire_graph (S1 stmts) consts) c <-> wire_cycle fixed stmts c).
  Proof.
    intros Hfix Hr. destruct (wire_edges stmts consts Hfix Hr) as [_ G2].
    rewrite is_cycle_cycle_of. unfold wire_cycle. apply cycle_of_iff. exact G2.
  Qed.

  Lemma sort_ready_unique stmts c1 c2 : sort_ready stmts c1 -> sort_ready stmts c2 -> c1 = c2.
  Proof. intros [_ [H1 _]] [_ [H2 _]]. rewrite H1 in H2. injection H2 as ->. reflexivity. Qed.

  Lemma sort_ready_consts_acyclic stmts consts : sort_ready stmts consts -> forall c, ~ const_cycle stmts c.
  Proof.
    intros [Hc [Hr _]] c Hcyc. destruct (const_edges stmts Hc) as [Hnd [Hcl _]].
    destruct (resolve_ok_keys _ _ Hnd Hcl Hr) as [Hac _]. apply Hac.
    exists c. apply const_cycle_iff; assumption.
  Qed.

  (* ---- 1: self-dependence = closed chain ------------------------------------------------------ *)
  Theorem self_dependence_iff_cycle_holds : stmt_self_dependence_iff_cycle fixed.
  Proof.
    intros stmts. split.
    - exact (self_dependence_iff_cycle (fun x y => reads_directly fixed stmts x y)).
    - exact (self_dependence_iff_cycle (fun x y => const_reads_directly stmts x y)).
  Qed.

  (* ---- the front of build_program, whatever the table ------------------------------------------- *)
  Lemma build_front stmts :
    (exists es, build stmts = Err es /\ ~ decl_pass_clean fixed stmts /\ good decl_diag es) \/
    (decl_pass_clean fixed stmts /\
     ((exists cyc, gcycle (const_graph (s_consts (S1 stmts))) cyc /\ build stmts = Err [mkErr WireLoop cyc]) \/
      ~ ghas_cycle (const_graph (s_consts (S1 stmts))))).
  Proof.
    unfold build_program. set (s := S1 stmts).
    destruct (s_errs s ++ const_assigned_errors s ++ const_ref_errors s) as [|e0 es0] eqn:E1.
    2:{ left. exists (e0 :: es0). split; [reflexivity|]. split.
        - unfold decl_pass_clean, decls_of. cbv zeta. fold s. rewrite E1. discriminate.
        - split; [discriminate|]. rewrite <- E1. apply decl_pass_kinds. }
    right. assert (Hc : decl_pass_clean fixed stmts) by exact E1. split; [exact Hc|].
    destruct (const_edges stmts Hc) as [Hnd [Hcl _]]. fold s in Hnd, Hcl.
    destruct (resolve_cases f (s_consts s) Hnd Hcl) as [[cyc [_ [Hcyc Hr]]]|[Hac _]].
    - left. exists cyc. split; [exact Hcyc|]. rewrite Hr. reflexivity.
    - right. exact Hac.
  Qed.

  Lemma clean_const_cyclic stmts c0 : decl_pass_clean fixed stmts -> const_cycle stmts c0 ->
    exists cyc, build stmts = Err [mkErr WireLoop cyc] /\ const_cycle stmts cyc.
  Proof.
    intros Hc H0. destruct (build_front stmts) as [[es [_ [Hn _]]]|[_ [[cyc [H1 H2]]|Hac]]].
    - contradiction (Hn Hc).
    - exists cyc. split; [exact H2 | apply const_cycle_iff; assumption].
    - exfalso. apply Hac. exists c0. apply const_cycle_iff; assumption.
  Qed.

  Lemma ready_wire_cyclic stmts consts c0 :
    fixed_table_distinct fixed -> sort_ready stmts consts -> wire_cycle fixed stmts c0 ->
    exists cyc, build stmts = Err [mkErr WireLoop cyc] /\ wire_cycle fixed stmts cyc.
  Proof.
    intros Hfix Hr H0. pose proof Hr as [Hc [Hres _]].
    assert (Hcyc : ghas_cycle (wire_graph (S1 stmts) consts)).
    { exists c0. apply wire_cycle_iff; assumption. }
    destruct (build_outcome Hfix stmts) as [es Hn _|cyc _ Hcc|es _ _ Hno _|consts' es _ Hres' Hn _
                                           |consts' cyc Hr' Hcc|consts' es Hr' Hac _|consts' p Hr' Hac].
    - contradiction (Hn Hc).
    - exfalso. apply (sort_ready_consts_acyclic stmts consts Hr cyc). apply const_cycle_iff; assumption.
    - contradiction (Hno consts Hres).
    - rewrite Hres in Hres'. injection Hres' as <-. contradiction (Hn Hr).
    - rewrite <- (sort_ready_unique _ _ _ Hr Hr') in Hcc.
      exists cyc. split; [reflexivity | apply (wire_cycle_iff stmts consts); assumption].
    - rewrite <- (sort_ready_unique _ _ _ Hr Hr') in Hac. contradiction (Hac Hcyc).
    - rewrite <- (sort_ready_unique _ _ _ Hr Hr') in Hac. contradiction (Hac Hcyc).
  Qed.

  Lemma good_not_loop_single K c : (forall k, K k = true -> not_loop k = true) -> ~ good K [mkErr WireLoop c].
  Proof.
    intros HK [_ Hk]. apply (kinds_mono K not_loop _ HK) in Hk.
    apply (kinds_not_loop_In _ c Hk). left. reflexivity.
  Qed.

  (* ---- 2: a reported loop is a real cycle, and the only diagnostic ------------------------------ *)
  Lemma wire_cycle_sound stmts consts c : sort_ready stmts consts ->
    gcycle (wire_graph (S1 stmts) consts) c -> wire_cycle fixed stmts c.
  Proof.
    intros Hr Hc. apply is_cycle_cycle_of in Hc. unfold wire_cycle.
    apply (cycle_of_mono _ _ (wire_edges_sound stmts consts Hr) c Hc).
  Qed.

  Theorem loop_report_is_real_holds : stmt_loop_report_is_real f fixed is_lower is_upper.
  Proof.
    intros stmts es c Hb Hin.
    pose proof (build_front_back stmts) as Ho. rewrite Hb in Ho.
    assert (Hno : forall K, (forall k, K k = true -> not_loop k = true) -> good K es -> False).
    { intros K HK [_ Hk]. apply (kinds_mono K not_loop _ HK) in Hk. apply (kinds_not_loop_In _ c Hk Hin). }
    inversion Ho as [es' Hn Hg|cyc Hc Hcyc|es' Hc Hac Hnone Hg|consts es' Hc Hres Hn Hg
                     |consts r Hr Hback]; subst.
    - exfalso. apply (Hno decl_diag decl_not_loop Hg).
    - destruct Hin as [Hin|[]]. injection Hin as ->.
      apply const_cycle_iff in Hcyc; [|exact Hc].
      split; [reflexivity|]. split; [apply (cycle_of_nonempty _ _ Hcyc) | right; exact Hcyc].
    - exfalso. apply (Hno expr_diag expr_not_loop Hg).
    - exfalso. apply (Hno mid_diag mid_not_loop Hg).
    - unfold back in Hback. cbv zeta in Hback.
      destruct Hback as [[es' [Ht Heq]]|[[cyc [Ht Heq]]|[order [Ht [[es' [Heq Hg]]|[p Heq]]]]]].
      + injection Heq as <-. exfalso. apply toposort_err_kinds in Ht. apply (kinds_not_loop_In _ c Ht Hin).
      + injection Heq as ->. destruct Hin as [Hin|[]]. injection Hin as ->.
        apply (toposort_cycle_sound string String.eqb String.eqb_eq) in Ht.
        apply (wire_cycle_sound stmts consts c Hr) in Ht.
        split; [reflexivity|]. split; [apply (cycle_of_nonempty _ _ Ht) | left; exact Ht].
      + injection Heq as <-. exfalso. apply (Hno not_loop (fun k H => H) Hg).
      + discriminate Heq.
  Qed.

  Theorem loop_report_alone_holds : stmt_loop_report_alone f fixed is_lower is_upper.
  Proof.
    intros stmts es Hb.
    pose proof (build_front_back stmts) as Ho. rewrite Hb in Ho.
    inversion Ho as [es' Hn Hg|cyc Hc Hcyc|es' Hc Hac Hnone Hg|consts es' Hc Hres Hn Hg
                     |consts r Hr Hback]; subst.
    - right. apply kinds_not_loop_ne. apply (kinds_mono decl_diag not_loop _ decl_not_loop). apply Hg.
    - left. exists cyc. reflexivity.
    - right. apply kinds_not_loop_ne. apply (kinds_mono expr_diag not_loop _ expr_not_loop). apply Hg.
    - right. apply kinds_not_loop_ne. apply (kinds_mono mid_diag not_loop _ mid_not_loop). apply Hg.
    - unfold back in Hback. cbv zeta in Hback.
      destruct Hback as [[es' [Ht Heq]]|[[cyc [Ht Heq]]|[order [Ht [[es' [Heq Hg]]|[p Heq]]]]]].
      + injection Heq as <-. right. apply kinds_not_loop_ne. apply toposort_err_kinds in Ht. exact Ht.
      + injection Heq as ->. left. exists cyc. reflexivity.
      + injection Heq as <-. right. apply kinds_not_loop_ne. apply Hg.
      + discriminate Heq.
  Qed.

  (* ---- 3: an accepted program is acyclic ---------------------------------------------------------- *)
  Theorem accepted_is_acyclic_holds : stmt_accepted_is_acyclic f fixed is_lower is_upper.
  Proof.
    intros Hfix stmts p Hb.
    pose proof (build_outcome Hfix stmts) as Ho. rewrite Hb in Ho.
    inversion Ho as [| | | | | |consts p' Hr Hac]; subst.
    assert (Hw : forall c, ~ wire_cycle fixed stmts c).
    { intros c Hc. apply Hac. exists c. apply wire_cycle_iff; assumption. }
    pose proof (sort_ready_consts_acyclic stmts consts Hr) as Hk.
    destruct (self_dependence_iff_cycle_holds stmts) as [D1 D2].
    split; [|split; [|split; assumption]].
    - intros w Hd. assert (Hex : exists w, depends_on fixed stmts w w) by (exists w; exact Hd).
      apply D1 in Hex. destruct Hex as [c Hc]. exact (Hw c Hc).
    - intros k Hd. assert (Hex : exists k, const_depends_on stmts k k) by (exists k; exact Hd).
      apply D2 in Hex. destruct Hex as [c Hc]. exact (Hk c Hc).
  Qed.

  Theorem bank_outputs_agree_holds : stmt_bank_outputs_agree f fixed is_lower is_upper.
  Proof.
    intros stmts p Hb o.
    destruct (build_ok_inv f fixed is_lower is_upper stmts p Hb)
      as [_ [_ [_ [consts [_ [Hte [_ [acts [_ ->]]]]]]]]].
    cbn [p_banks]. rewrite <- (T3_outs f is_lower is_upper fixed stmts consts Hte o). reflexivity.
  Qed.

  (* ---- 4: a cyclic program is rejected, with the loop diagnostic unless an earlier pass speaks ---- *)
  Theorem const_cyclic_is_rejected_with_loop_holds :
    stmt_const_cyclic_is_rejected_with_loop f fixed is_lower is_upper.
  Proof.
    intros stmts [c0 H0]. destruct (build_front stmts) as [[es [Hb [_ Hg]]]|[Hc _]].
    - exists es. split; [exact Hb|]. right. exact Hg.
    - destruct (clean_const_cyclic stmts c0 Hc H0) as [cyc [H1 H2]].
      exists [mkErr WireLoop cyc]. split; [exact H1|]. left. exists cyc. split; [reflexivity | exact H2].
  Qed.

  Theorem cyclic_is_rejected_with_loop_holds : stmt_cyclic_is_rejected_with_loop f fixed is_lower is_upper.
  Proof.
    intros Hfix stmts [c0 H0].
    destruct (build_outcome Hfix stmts) as [es Hn Hg|cyc Hc Hcc|es Hc _ _ Hg|consts es _ _ _ Hg
                                           |consts cyc Hr Hcc|consts es Hr Hac _|consts p Hr Hac].
    - exists es. split; [reflexivity|]. right. left. exact Hg.
    - exists [mkErr WireLoop cyc]. split; [reflexivity|]. left. exists cyc. split; [reflexivity|].
      right. apply const_cycle_iff; assumption.
    - exists es. split; [reflexivity|]. right. right. apply (good_mono expr_diag mid_diag es expr_mid Hg).
    - exists es. split; [reflexivity|]. right. right. exact Hg.
    - exists [mkErr WireLoop cyc]. split; [reflexivity|]. left. exists cyc. split; [reflexivity|].
      left. apply (wire_cycle_iff stmts consts); assumption.
    - exfalso. apply Hac. exists c0. apply wire_cycle_iff; assumption.
    - exfalso. apply Hac. exists c0. apply wire_cycle_iff; assumption.
  Qed.

  (* ---- 4': exactly when the rejection is a WireLoop ------------------------------------------------ *)
  Theorem wire_loop_exact_holds : stmt_wire_loop_exact f fixed is_lower is_upper.
  Proof.
    intros Hfix stmts. split.
    - intros [c Hb]. pose proof (build_outcome Hfix stmts) as Ho. rewrite Hb in Ho.
      inversion Ho as [es' Hn Hg|cyc Hc Hcyc|es' Hc Hac Hnone Hg|consts es' Hc Hres Hn Hg
                       |consts cyc Hr Hcyc|consts es' Hr Hac Hg|]; subst.
      + exfalso. apply (good_not_loop_single decl_diag c decl_not_loop Hg).
      + split; [exact Hc|]. left. exists c. apply const_cycle_iff; assumption.
      + exfalso. apply (good_not_loop_single expr_diag c expr_not_loop Hg).
      + exfalso. apply (good_not_loop_single mid_diag c mid_not_loop Hg).
      + split; [apply Hr|]. right. split; [apply reaches_iff; exists consts; exact Hr|].
        exists c. apply (wire_cycle_iff stmts consts); assumption.
      + exfalso. apply (good_not_loop_single not_loop c (fun k H => H) Hg).
    - intros [Hc [[c0 H0]|[Hreach [c0 H0]]]].
      + destruct (clean_const_cyclic stmts c0 Hc H0) as [cyc [H1 _]]. exists cyc. exact H1.
      + apply reaches_iff in Hreach. destruct Hreach as [consts Hr].
        destruct (ready_wire_cyclic stmts consts c0 Hfix Hr H0) as [cyc [H1 _]]. exists cyc. exact H1.
  Qed.

  Theorem const_loop_iff_self_dependence_holds :
    stmt_const_loop_iff_self_dependence f fixed is_lower is_upper.
  Proof.
    intros stmts Hc. destruct (self_dependence_iff_cycle_holds stmts) as [_ D2]. rewrite D2. split.
    - intros [c [_ H]]. exists c. exact H.
    - intros [c0 H0]. apply (clean_const_cyclic stmts c0 Hc H0).
  Qed.

  Theorem wire_loop_iff_self_dependence_holds :
    stmt_wire_loop_iff_self_dependence f fixed is_lower is_upper.
  Proof.
    intros Hfix stmts Hreach. destruct (self_dependence_iff_cycle_holds stmts) as [D1 _].
    apply reaches_iff in Hreach. destruct Hreach as [consts Hr]. rewrite D1. split.
    - intros [c [_ H]]. exists c. exact H.
    - intros [c0 H0]. apply (ready_wire_cyclic stmts consts c0 Hfix Hr H0).
  Qed.
End LoopProofs.

(* ================================================================================== *)
(* Part 8: the table of the compiled implementation                                    *)
(* ================================================================================== *)
Lemma fixed_sched_distinct fixed : fixed_sched_ok fixed = true -> fixed_table_distinct fixed.
Proof.
  intros H. destruct (fixed_sched_ok_inv fixed H) as [H1 [H2 _]].
  split; [exact H1 | rewrite <- fixed_out_names_eq; exact H2].
Qed.

Lemma fixed_ok2_distinct fixed : fixed_table_ok2 fixed = true -> fixed_table_distinct fixed.
Proof.
  unfold fixed_table_ok2. intros H. apply andb_true_iff in H. destruct H as [H _].
  apply fixed_sched_distinct. exact H.
Qed.

Lemma gen_fixed_distinct : fixed_table_distinct gen_fixed.
Proof. apply fixed_ok2_distinct. exact gen_fixed_ok2. Qed.

Section GenTable.
  Variable f : features.
  Variable is_lower : string -> bool.
  Variable is_upper : string -> bool.
  Notation build := (build_program f gen_fixed is_lower is_upper).

  Corollary loop_report_is_real_gen : forall stmts es c,
    build stmts = Err es -> In (mkErr WireLoop c) es ->
    es = [mkErr WireLoop c] /\ c <> [] /\ (wire_cycle gen_fixed stmts c \/ const_cycle stmts c).
  Proof. exact (loop_report_is_real_holds f gen_fixed is_lower is_upper). Qed.

  Corollary loop_report_alone_gen : forall stmts es, build stmts = Err es ->
    (exists c, es = [mkErr WireLoop c]) \/ Forall (fun d => ek d <> WireLoop) es.
  Proof. exact (loop_report_alone_holds f gen_fixed is_lower is_upper). Qed.

  Corollary accepted_is_acyclic_gen : forall stmts p, build stmts = Ok p ->
    (forall w, ~ depends_on gen_fixed stmts w w) /\ (forall k, ~ const_depends_on stmts k k) /\
    (forall c, ~ wire_cycle gen_fixed stmts c) /\ (forall c, ~ const_cycle stmts c).
  Proof. exact (accepted_is_acyclic_holds f gen_fixed is_lower is_upper gen_fixed_distinct). Qed.

  Corollary cyclic_is_rejected_with_loop_gen : forall stmts, (exists c, wire_cycle gen_fixed stmts c) ->
    exists es, build stmts = Err es /\
      ((exists c, es = [mkErr WireLoop c] /\ (wire_cycle gen_fixed stmts c \/ const_cycle stmts c)) \/
       (es <> [] /\ Forall (fun d => decl_diag (ek d) = true) es) \/
       (es <> [] /\ Forall (fun d => mid_diag (ek d) = true) es)).
  Proof. exact (cyclic_is_rejected_with_loop_holds f gen_fixed is_lower is_upper gen_fixed_distinct). Qed.

  Corollary wire_loop_exact_gen : forall stmts,
    (exists c, build stmts = Err [mkErr WireLoop c]) <->
    (decl_pass_clean gen_fixed stmts /\
     ((exists c, const_cycle stmts c) \/
      (reaches_wire_sort f gen_fixed is_lower is_upper stmts /\ exists c, wire_cycle gen_fixed stmts c))).
  Proof. exact (wire_loop_exact_holds f gen_fixed is_lower is_upper gen_fixed_distinct). Qed.

  Corollary wire_loop_iff_self_dependence_gen : forall stmts,
    reaches_wire_sort f gen_fixed is_lower is_upper stmts ->
    ((exists c, build stmts = Err [mkErr WireLoop c] /\ wire_cycle gen_fixed stmts c) <->
     (exists w, depends_on gen_fixed stmts w w)).
  Proof. exact (wire_loop_iff_self_dependence_holds f gen_fixed is_lower is_upper gen_fixed_distinct). Qed.
End GenTable.

(* ================================================================================== *)
(* Part 9: computed examples (non-vacuity, and the "never count" clause)               *)
(* ================================================================================== *)
(* HCL text -> statements through the model's own front end *)
Definition parse_hcl (s : string) : option (list stmt) :=
  match gen_tiers with
  | Some t => parse_text test_uclass t (map N_of_ascii (list_ascii_of_string s))
  | None => None
  end.

Notation build_gen := (build_program gen_features gen_fixed ascii_lower ascii_upper).
Notation accepted stmts := (is_ok (build_gen stmts) = true).

Definition lit (n : N) : expr := EConst (mkV n Unl).
Definition stat_ok : stmt := SAssign [(["Stat"], EConst (mkV 1 (Bits 3)))].
Definition pc_zero : stmt := SAssign [(["pc"], lit 0)].

(* -- feedback through a register bank only: accepted -- *)
Definition ex_bank : list stmt :=
  [SBank "xY" [("v", Bits 64, lit 0)];
   SAssign [(["x_v"], EBin Add (EWire "Y_v") (lit 1))]; stat_ok; pc_zero].

Example ex_bank_text :
  parse_hcl "register xY { v : 64 = 0; } x_v = Y_v + 1; Stat = 0b001; pc = 0;" = Some ex_bank.
Proof. vm_compute. reflexivity. Qed.

Example ex_bank_accepted : accepted ex_bank.
Proof. vm_compute. reflexivity. Qed.

Lemma is_ok_inv {A} (r : result A) : is_ok r = true -> exists a, r = Ok a.
Proof. destruct r as [a|es]; [intros _; exists a; reflexivity | discriminate]. Qed.

(* non-vacuity of stmt_accepted_is_acyclic / stmt_bank_outputs_agree *)
Example ex_bank_acyclic :
  (forall w, ~ depends_on gen_fixed ex_bank w w) /\ (forall c, ~ wire_cycle gen_fixed ex_bank c).
Proof.
  destruct (is_ok_inv _ ex_bank_accepted) as [p Hp].
  destruct (accepted_is_acyclic_gen _ _ _ ex_bank p Hp) as [H1 [_ [H3 _]]]. split; assumption.
Qed.

Example ex_bank_output : bank_output ex_bank "Y_v".
Proof.
  exists "xY", [("v", Bits 64, lit 0)], "x", "Y", "v", (Bits 64), (lit 0).
  split; [left; reflexivity|]. split; [vm_compute; reflexivity|]. split; [left; reflexivity | reflexivity].
Qed.

(* the bank is no edge: x_v is assigned from Y_v yet does not read it, and nothing feeds Y_v *)
Example ex_bank_never_counts :
  ~ reads_directly gen_fixed ex_bank "x_v" "Y_v" /\ forall a, ~ reads_directly gen_fixed ex_bank "Y_v" a.
Proof.
  split.
  - intros [e _ _ Hb _ _|ff w Hff _ Ho _].
    + exact (Hb ex_bank_output).
    + cbn [gen_fixed In] in Hff.
      repeat (destruct Hff as [<-|Hff]; [cbn [ff_out] in Ho; discriminate Ho|]). contradiction.
  - intros a [e [asg [ts [H1 [H2 H3]]]] _ _ _ _|ff w Hff _ Ho _].
    + cbn [ex_bank stat_ok pc_zero In] in H1.
      destruct H1 as [H1|[H1|[H1|[H1|[]]]]]; try discriminate H1; injection H1 as <-;
        destruct H2 as [H2|[]]; injection H2 as <- <-; destruct H3 as [H3|[]]; discriminate H3.
    + cbn [gen_fixed In] in Hff.
      repeat (destruct Hff as [<-|Hff]; [cbn [ff_out] in Ho; discriminate Ho|]). contradiction.
Qed.

(* -- a control signal the program leaves unassigned (stall_Y) is a known value: reading it is
      accepted and is no edge; once the program assigns it, it is an ordinary wire -- *)
Definition ex_stall : list stmt :=
  [SBank "xY" [("v", Bits 64, lit 0)]; SWire [("s", Bits 1)];
   SAssign [(["s"], EWire "stall_Y")];
   SAssign [(["x_v"], EBin Add (EWire "Y_v") (lit 1))]; stat_ok; pc_zero].

Example ex_stall_text :
  parse_hcl "register xY { v : 64 = 0; } wire s : 1; s = stall_Y; x_v = Y_v + 1; Stat = 0b001; pc = 0;"
  = Some ex_stall.
Proof. vm_compute. reflexivity. Qed.

Example ex_stall_accepted : accepted ex_stall.
Proof. vm_compute. reflexivity. Qed.

Example ex_stall_defaulted : defaulted_control ex_stall "stall_Y".
Proof.
  exists "xY", [("v", Bits 64, lit 0)], "x", "Y".
  split; [left; reflexivity|]. split; [vm_compute; reflexivity|]. split; [left; reflexivity|].
  vm_compute. intros H. repeat (destruct H as [H|H]; [discriminate H|]). contradiction.
Qed.

Example ex_stall_never_counts :
  assigned_to ex_stall "s" (EWire "stall_Y") /\ ~ reads_directly gen_fixed ex_stall "s" "stall_Y".
Proof.
  split.
  - exists [(["s"], EWire "stall_Y")], ["s"]. split; [right; right; left; reflexivity|]. split; left; reflexivity.
  - intros [e _ _ _ Hd _|ff w Hff _ Ho _].
    + exact (Hd ex_stall_defaulted).
    + cbn [gen_fixed In] in Hff.
      repeat (destruct Hff as [<-|Hff]; [cbn [ff_out] in Ho; discriminate Ho|]). contradiction.
Qed.

Definition ex_stall_assigned : list stmt :=
  [SBank "xY" [("v", Bits 64, lit 0)]; SWire [("s", Bits 1)];
   SAssign [(["s"], EWire "stall_Y")]; SAssign [(["stall_Y"], EWire "s")];
   SAssign [(["x_v"], EBin Add (EWire "Y_v") (lit 1))]; stat_ok; pc_zero].

Example ex_stall_assigned_rejected : build_gen ex_stall_assigned = Err [mkErr WireLoop ["s"; "stall_Y"]].
Proof. vm_compute. reflexivity. Qed.

(* -- feedback through the write port of the register file: accepted -- *)
Definition ex_regwrite : list stmt :=
  [SAssign [(["reg_inputE"], EBin Add (EWire "reg_outputA") (lit 1))];
   SAssign [(["reg_dstE"], lit 3)]; SAssign [(["reg_srcA"], lit 3)]; stat_ok; pc_zero].

Example ex_regwrite_text :
  parse_hcl "reg_inputE = reg_outputA + 1; reg_dstE = 3; reg_srcA = 3; Stat = 0b001; pc = 0;"
  = Some ex_regwrite.
Proof. vm_compute. reflexivity. Qed.

Example ex_regwrite_accepted : accepted ex_regwrite.
Proof. vm_compute. reflexivity. Qed.

(* the write side is no edge: reg_outputA reads reg_srcA and nothing else *)
Example ex_regwrite_never_counts :
  reads_directly gen_fixed ex_regwrite "reg_outputA" "reg_srcA" /\
  forall a, reads_directly gen_fixed ex_regwrite "reg_outputA" a -> a = "reg_srcA".
Proof.
  split.
  - apply (rd_builtin gen_fixed ex_regwrite "reg_outputA" "reg_srcA"
                      (mkFixed "register file read port with reg_srcA" [("reg_srcA", 4)]
                               (Some ("reg_outputA", 64)) None false (AReadReg "reg_srcA" "reg_outputA")) 64).
    + cbn [gen_fixed In]. do 4 right. left. reflexivity.
    + intros i [<-|[]]. vm_compute. do 2 right. left. reflexivity.
    + reflexivity.
    + left. reflexivity.
  - intros a [e [asg [ts [H1 [H2 H3]]]] _ _ _ _|ff w Hff _ Ho Hin].
    + exfalso. cbn [ex_regwrite stat_ok pc_zero In] in H1.
      destruct H1 as [H1|[H1|[H1|[H1|[H1|[]]]]]]; injection H1 as <-;
        destruct H2 as [H2|[]]; injection H2 as <- <-; destruct H3 as [H3|[]]; discriminate H3.
    + cbn [gen_fixed In] in Hff.
      repeat (destruct Hff as [<-|Hff]; [cbn [ff_out] in Ho; try discriminate Ho|]); try contradiction.
      cbn [ff_ins map fst In] in Hin. destruct Hin as [<-|[]]. reflexivity.
Qed.

(* memory: the write side does not count either (mem_input = mem_output is accepted) *)
Definition ex_memwrite : list stmt :=
  [SAssign [(["mem_input"], EWire "mem_output")]; SAssign [(["mem_addr"], lit 0)];
   SAssign [(["mem_readbit"], lit 1)]; SAssign [(["mem_writebit"], lit 1)]; stat_ok; pc_zero].

Example ex_memwrite_accepted : accepted ex_memwrite.
Proof. vm_compute. reflexivity. Qed.

(* -- register file read port: reg_srcA = reg_outputA[0..4] is a loop -- *)
Definition ex_srcA : list stmt :=
  [SAssign [(["reg_srcA"], ESlice (EWire "reg_outputA") 0 4)]; stat_ok; pc_zero].

Example ex_srcA_text : parse_hcl "reg_srcA = reg_outputA[0..4]; Stat = 0b001; pc = 0;" = Some ex_srcA.
Proof. vm_compute. reflexivity. Qed.

Example ex_srcA_rejected : build_gen ex_srcA = Err [mkErr WireLoop ["reg_srcA"; "reg_outputA"]].
Proof. vm_compute. reflexivity. Qed.

(* the reported chain is a cycle of the program - proved by hand, independently of the theorems *)
Example ex_srcA_cycle_by_hand : wire_cycle gen_fixed ex_srcA ["reg_srcA"; "reg_outputA"].
Proof.
  unfold wire_cycle. cbn [cycle_of chain last]. unfold wire_flows. split; [split; [|exact I]|].
  - apply (rd_builtin gen_fixed ex_srcA "reg_outputA" "reg_srcA"
                      (mkFixed "register file read port with reg_srcA" [("reg_srcA", 4)]
                               (Some ("reg_outputA", 64)) None false (AReadReg "reg_srcA" "reg_outputA")) 64).
    + cbn [gen_fixed In]. do 4 right. left. reflexivity.
    + intros i [<-|[]]. vm_compute. left. reflexivity.
    + reflexivity.
    + left. reflexivity.
  - apply (rd_assign gen_fixed ex_srcA "reg_srcA" "reg_outputA" (ESlice (EWire "reg_outputA") 0 4)).
    + exists [(["reg_srcA"], ESlice (EWire "reg_outputA") 0 4)], ["reg_srcA"].
      split; [left; reflexivity|]. split; left; reflexivity.
    + left. reflexivity.
    + intros [name [regs [inp [outp [rname [w [dflt [H _]]]]]]]].
      cbn [ex_srcA stat_ok pc_zero In] in H. destruct H as [H|[H|[H|[]]]]; discriminate H.
    + intros [name [regs [inp [outp [H _]]]]].
      cbn [ex_srcA stat_ok pc_zero In] in H. destruct H as [H|[H|[H|[]]]]; discriminate H.
    + intros [].
Qed.

(* ... and through the theorems (non-vacuity of stmt_loop_report_is_real and of both
   directions of stmt_wire_loop_exact / stmt_wire_loop_iff_self_dependence) *)
Example ex_srcA_cycle : wire_cycle gen_fixed ex_srcA ["reg_srcA"; "reg_outputA"].
Proof.
  destruct (loop_report_is_real_gen _ _ _ ex_srcA _ ["reg_srcA"; "reg_outputA"] ex_srcA_rejected
                                    (or_introl eq_refl)) as [_ [_ [H|H]]]; [exact H|].
  exfalso. unfold const_cycle in H. cbn [cycle_of chain last] in H. destruct H as [[[e [[d [Hd _]] _]] _] _].
  cbn [ex_srcA stat_ok pc_zero In] in Hd. destruct Hd as [Hd|[Hd|[Hd|[]]]]; discriminate Hd.
Qed.

Example ex_srcA_reaches_sort :
  decl_pass_clean gen_fixed ex_srcA /\ reaches_wire_sort gen_features gen_fixed ascii_lower ascii_upper ex_srcA.
Proof.
  assert (Hc : decl_pass_clean gen_fixed ex_srcA) by (vm_compute; reflexivity).
  split; [exact Hc|].
  split; [exact Hc|]. exists []. vm_compute. repeat split; reflexivity.
Qed.

Example ex_srcA_self_dependence : depends_on gen_fixed ex_srcA "reg_srcA" "reg_srcA".
Proof.
  destruct ex_srcA_cycle_by_hand as [[H1 _] H2]. cbn [last] in H2.
  apply t_trans with "reg_outputA"; apply t_step; assumption.
Qed.

Example ex_srcA_exact :
  exists c, build_gen ex_srcA = Err [mkErr WireLoop c] /\ wire_cycle gen_fixed ex_srcA c.
Proof.
  destruct ex_srcA_reaches_sort as [_ Hr].
  apply (wire_loop_iff_self_dependence_gen _ _ _ ex_srcA Hr).
  exists "reg_srcA". exact ex_srcA_self_dependence.
Qed.

(* -- instruction memory: pc = i10bytes[0..64] -- *)
Definition ex_pc : list stmt := [SAssign [(["pc"], ESlice (EWire "i10bytes") 0 64)]; stat_ok].

Example ex_pc_text : parse_hcl "pc = i10bytes[0..64]; Stat = 0b001;" = Some ex_pc.
Proof. vm_compute. reflexivity. Qed.

Example ex_pc_rejected : build_gen ex_pc = Err [mkErr WireLoop ["pc"; "i10bytes"]].
Proof. vm_compute. reflexivity. Qed.

(* -- data memory read port: mem_addr = mem_output -- *)
Definition ex_mem : list stmt :=
  [SAssign [(["mem_addr"], EWire "mem_output")]; SAssign [(["mem_readbit"], lit 1)];
   SAssign [(["mem_writebit"], lit 0)]; stat_ok; pc_zero].

Example ex_mem_text :
  parse_hcl "mem_addr = mem_output; mem_readbit = 1; mem_writebit = 0; Stat = 0b001; pc = 0;" = Some ex_mem.
Proof. vm_compute. reflexivity. Qed.

Example ex_mem_rejected : build_gen ex_mem = Err [mkErr WireLoop ["mem_addr"; "mem_output"]].
Proof. vm_compute. reflexivity. Qed.

(* a longer chain through two declared wires and the read port *)
Definition ex_chain : list stmt :=
  [SWire [("a", Bits 64); ("b", Bits 64)];
   SAssign [(["a"], EBin Add (EWire "b") (lit 1))]; SAssign [(["b"], EWire "mem_output")];
   SAssign [(["mem_addr"], EWire "a")]; SAssign [(["mem_readbit"], lit 1)];
   SAssign [(["mem_writebit"], lit 0)]; stat_ok; pc_zero].

Example ex_chain_rejected : build_gen ex_chain = Err [mkErr WireLoop ["a"; "mem_addr"; "mem_output"; "b"]].
Proof. vm_compute. reflexivity. Qed.

Example ex_chain_cycle : wire_cycle gen_fixed ex_chain ["a"; "mem_addr"; "mem_output"; "b"].
Proof.
  destruct (loop_report_is_real_gen _ _ _ ex_chain _ _ ex_chain_rejected (or_introl eq_refl))
    as [_ [_ [H|H]]]; [exact H|].
  exfalso. unfold const_cycle in H. cbn [cycle_of chain last] in H. destruct H as [[[e [[d [Hd _]] _]] _] _].
  cbn [ex_chain stat_ok pc_zero In] in Hd.
  repeat (destruct Hd as [Hd|Hd]; [discriminate Hd|]). contradiction.
Qed.

(* -- constants: const A = B, B = A -- *)
Definition ex_const : list stmt := [SConst [("A", EWire "B"); ("B", EWire "A")]; stat_ok; pc_zero].

Example ex_const_text : parse_hcl "const A = B, B = A; Stat = 0b001; pc = 0;" = Some ex_const.
Proof. vm_compute. reflexivity. Qed.

Example ex_const_rejected : build_gen ex_const = Err [mkErr WireLoop ["B"; "A"]].
Proof. vm_compute. reflexivity. Qed.

Example ex_const_cycle : const_cycle ex_const ["B"; "A"].
Proof.
  unfold const_cycle. cbn [cycle_of chain last]. unfold const_flows, const_reads_directly, constant_def.
  split; [split; [|exact I]|].
  - exists (EWire "B"). split; [|left; reflexivity].
    exists [("A", EWire "B"); ("B", EWire "A")]. split; left; reflexivity.
  - exists (EWire "A"). split; [|left; reflexivity].
    exists [("A", EWire "B"); ("B", EWire "A")]. split; [left; reflexivity | right; left; reflexivity].
Qed.

(* non-vacuity of stmt_const_cyclic_is_rejected_with_loop (first alternative) *)
Example ex_const_via_theorem :
  exists es, build_gen ex_const = Err es /\
    ((exists c, es = [mkErr WireLoop c] /\ const_cycle ex_const c) \/
     (es <> [] /\ Forall (fun d => decl_diag (ek d) = true) es)).
Proof.
  apply (const_cyclic_is_rejected_with_loop_holds gen_features gen_fixed ascii_lower ascii_upper).
  exists ["B"; "A"]. exact ex_const_cycle.
Qed.

(* non-vacuity of stmt_const_loop_iff_self_dependence *)
Example ex_const_exact :
  decl_pass_clean gen_fixed ex_const /\ const_depends_on ex_const "A" "A" /\
  exists c, build_gen ex_const = Err [mkErr WireLoop c] /\ const_cycle ex_const c.
Proof.
  assert (Hc : decl_pass_clean gen_fixed ex_const) by (vm_compute; reflexivity).
  assert (Hd : const_depends_on ex_const "A" "A").
  { destruct ex_const_cycle as [[H1 _] H2]. cbn [last] in H2.
    apply t_trans with "B"; apply t_step; assumption. }
  split; [exact Hc|]. split; [exact Hd|].
  apply (const_loop_iff_self_dependence_holds gen_features gen_fixed ascii_lower ascii_upper ex_const Hc).
  exists "A". exact Hd.
Qed.

(* -- cyclic programs whose rejection is NOT the loop diagnostic: an earlier pass speaks -- *)
(* mem_addr = mem_output with the write port left half-connected: the built-in component pass
   reports first (third alternative of stmt_cyclic_is_rejected_with_loop) *)
Definition ex_preempt_mid : list stmt :=
  [SAssign [(["mem_addr"], EWire "mem_output")]; SAssign [(["mem_readbit"], lit 1)]; stat_ok; pc_zero].

Example ex_preempt_mid_rejected :
  build_gen ex_preempt_mid = Err [mkErr PartialFixedInput ["mem_addr"; "/"; "mem_input"; "mem_writebit"]].
Proof. vm_compute. reflexivity. Qed.

(* x = x and x assigned twice: the declaration pass reports first (second alternative) *)
Definition ex_preempt_decl : list stmt :=
  [SWire [("x", Bits 1)]; SAssign [(["x"], EWire "x")]; SAssign [(["x"], lit 1)]; stat_ok; pc_zero].

Example ex_preempt_decl_rejected : build_gen ex_preempt_decl = Err [mkErr DoubleAssignedWire ["x"]].
Proof. vm_compute. reflexivity. Qed.

Example ex_preempt_decl_cycle : wire_cycle gen_fixed ex_preempt_decl ["x"].
Proof.
  unfold wire_cycle. cbn [cycle_of chain last]. split; [exact I|]. unfold wire_flows.
  apply (rd_assign gen_fixed ex_preempt_decl "x" "x" (EWire "x")).
  - exists [(["x"], EWire "x")], ["x"]. split; [right; left; reflexivity|]. split; left; reflexivity.
  - left. reflexivity.
  - intros [name [regs [inp [outp [rname [w [dflt [H _]]]]]]]].
    cbn [ex_preempt_decl stat_ok pc_zero In] in H.
    repeat (destruct H as [H|H]; [discriminate H|]). contradiction.
  - intros [name [regs [inp [outp [H _]]]]].
    cbn [ex_preempt_decl stat_ok pc_zero In] in H.
    repeat (destruct H as [H|H]; [discriminate H|]). contradiction.
  - intros [].
Qed.

(* a loop among the constants is reported before a loop among the wires *)
Definition ex_both : list stmt :=
  [SConst [("A", EWire "B"); ("B", EWire "A")]; SWire [("x", Bits 64)];
   SAssign [(["x"], EBin Add (EWire "x") (lit 1))]; stat_ok; pc_zero].

Example ex_both_rejected : build_gen ex_both = Err [mkErr WireLoop ["B"; "A"]].
Proof. vm_compute. reflexivity. Qed.

(* -- why fixed_table_distinct: with a component that lists an input twice the sorter's edge count
      is off and an ACYCLIC program makes find_cycle panic ("called when no cycle present") -- *)
Definition dup_fixed : list fixed_fn :=
  [mkFixed "x" [("a", 1); ("a", 1)] (Some ("o", 1)) None false (AReadReg "a" "o")].

Example dup_fixed_panics :
  build_program gen_features dup_fixed ascii_lower ascii_upper [SAssign [(["a"], EConst (mkV 0 (Bits 1)))]]
  = Err [mkErr Panicked []].
Proof. vm_compute. reflexivity. Qed.

(* ---- further instances of the theorems (non-vacuity) ------------------------------------------ *)
Example ex_alone_other : Forall (fun d => ek d <> WireLoop)
                                [mkErr PartialFixedInput ["mem_addr"; "/"; "mem_input"; "mem_writebit"]].
Proof.
  destruct (loop_report_alone_gen _ _ _ ex_preempt_mid _ ex_preempt_mid_rejected) as [[c Hc]|H];
    [discriminate Hc | exact H].
Qed.

Example ex_bank_outputs_agree :
  exists p, build_gen ex_bank = Ok p /\ In "Y_v" (all_outs (p_banks p)).
Proof.
  destruct (is_ok_inv _ ex_bank_accepted) as [p Hp]. exists p. split; [exact Hp|].
  apply (bank_outputs_agree_holds gen_features gen_fixed ascii_lower ascii_upper ex_bank p Hp).
  exact ex_bank_output.
Qed.

Example ex_preempt_mid_cycle : wire_cycle gen_fixed ex_preempt_mid ["mem_addr"; "mem_output"].
Proof.
  unfold wire_cycle. cbn [cycle_of chain last]. unfold wire_flows. split; [split; [|exact I]|].
  - apply (rd_builtin gen_fixed ex_preempt_mid "mem_output" "mem_addr"
                      (mkFixed "data memory read port" [("mem_addr", 64); ("mem_readbit", 1)]
                               (Some ("mem_output", 64)) (Some "mem_readbit") false
                               (AReadMemory (Some "mem_readbit") "mem_addr" "mem_output" 8 false)) 64).
    + cbn [gen_fixed In]. do 2 right. left. reflexivity.
    + intros i [<-|[<-|[]]]; vm_compute; [left | right; left]; reflexivity.
    + reflexivity.
    + left. reflexivity.
  - apply (rd_assign gen_fixed ex_preempt_mid "mem_addr" "mem_output" (EWire "mem_output")).
    + exists [(["mem_addr"], EWire "mem_output")], ["mem_addr"].
      split; [left; reflexivity|]. split; left; reflexivity.
    + left. reflexivity.
    + intros [name [regs [inp [outp [rname [w [dflt [H _]]]]]]]].
      cbn [ex_preempt_mid stat_ok pc_zero In] in H.
      repeat (destruct H as [H|H]; [discriminate H|]). contradiction.
    + intros [name [regs [inp [outp [H _]]]]].
      cbn [ex_preempt_mid stat_ok pc_zero In] in H.
      repeat (destruct H as [H|H]; [discriminate H|]). contradiction.
    + intros [].
Qed.

(* the three alternatives of stmt_cyclic_is_rejected_with_loop all occur *)
Example ex_cyclic_alternatives :
  (exists c, build_gen ex_srcA = Err [mkErr WireLoop c] /\ wire_cycle gen_fixed ex_srcA c) /\
  (exists es, build_gen ex_preempt_decl = Err es /\ (exists c, wire_cycle gen_fixed ex_preempt_decl c) /\
              es <> [] /\ Forall (fun d => decl_diag (ek d) = true) es) /\
  (exists es, build_gen ex_preempt_mid = Err es /\ (exists c, wire_cycle gen_fixed ex_preempt_mid c) /\
              es <> [] /\ Forall (fun d => mid_diag (ek d) = true) es).
Proof.
  split; [exact ex_srcA_exact|]. split.
  - exists [mkErr DoubleAssignedWire ["x"]]. split; [exact ex_preempt_decl_rejected|].
    split; [exists ["x"]; exact ex_preempt_decl_cycle|]. split; [discriminate|].
    constructor; [reflexivity | constructor].
  - exists [mkErr PartialFixedInput ["mem_addr"; "/"; "mem_input"; "mem_writebit"]].
    split; [exact ex_preempt_mid_rejected|].
    split; [exists ["mem_addr"; "mem_output"]; exact ex_preempt_mid_cycle|]. split; [discriminate|].
    constructor; [reflexivity | constructor].
Qed.

Example ex_preempt_mid_via_theorem :
  exists es, build_gen ex_preempt_mid = Err es /\
    ((exists c, es = [mkErr WireLoop c] /\ (wire_cycle gen_fixed ex_preempt_mid c \/ const_cycle ex_preempt_mid c)) \/
     (es <> [] /\ Forall (fun d => decl_diag (ek d) = true) es) \/
     (es <> [] /\ Forall (fun d => mid_diag (ek d) = true) es)).
Proof.
  apply cyclic_is_rejected_with_loop_gen. exists ["mem_addr"; "mem_output"]. exact ex_preempt_mid_cycle.
Qed.

(* stmt_wire_loop_exact, left to right, on a reported loop *)
Example ex_srcA_exact_lr :
  decl_pass_clean gen_fixed ex_srcA /\
  ((exists c, const_cycle ex_srcA c) \/
   (reaches_wire_sort gen_features gen_fixed ascii_lower ascii_upper ex_srcA /\
    exists c, wire_cycle gen_fixed ex_srcA c)).
Proof.
  apply (wire_loop_exact_gen gen_features ascii_lower ascii_upper ex_srcA).
  exists ["reg_srcA"; "reg_outputA"]. exact ex_srcA_rejected.
Qed.

(* statement 2 needs nothing of the table: with the same ill-formed table a cyclic program is
   reported with a real cycle *)
Example dup_fixed_loop_real :
  build_program gen_features dup_fixed ascii_lower ascii_upper [SAssign [(["a"], EWire "o")]]
  = Err [mkErr WireLoop ["a"; "o"]] /\
  wire_cycle dup_fixed [SAssign [(["a"], EWire "o")]] ["a"; "o"].
Proof.
  assert (Hb : build_program gen_features dup_fixed ascii_lower ascii_upper [SAssign [(["a"], EWire "o")]]
               = Err [mkErr WireLoop ["a"; "o"]]) by (vm_compute; reflexivity).
  split; [exact Hb|].
  destruct (loop_report_is_real_holds gen_features dup_fixed ascii_lower ascii_upper _ _ ["a"; "o"] Hb
                                      (or_introl eq_refl)) as [_ [_ [H|H]]]; [exact H|].
  exfalso. unfold const_cycle in H. cbn [cycle_of chain last] in H. destruct H as [[[e [[d [Hd _]] _]] _] _].
  destruct Hd as [Hd|[]]. discriminate Hd.
Qed.

Print Assumptions cycle_iff_self_dependence_holds.
Print Assumptions self_dependence_iff_cycle_holds.
Print Assumptions loop_report_is_real_holds.
Print Assumptions loop_report_alone_holds.
Print Assumptions accepted_is_acyclic_holds.
Print Assumptions bank_outputs_agree_holds.
Print Assumptions const_cyclic_is_rejected_with_loop_holds.
Print Assumptions cyclic_is_rejected_with_loop_holds.
Print Assumptions wire_loop_exact_holds.
Print Assumptions const_loop_iff_self_dependence_holds.
Print Assumptions wire_loop_iff_self_dependence_holds.
Print Assumptions loop_report_is_real_gen.
Print Assumptions accepted_is_acyclic_gen.
Print Assumptions wire_loop_exact_gen.
Print Assumptions ex_srcA_exact.
Print Assumptions ex_bank_never_counts.
Print Assumptions ex_stall_never_counts.
