(* The whole `hclrs` command as ONE executable function: the composition of the models of the
   argument parser (CliArgs), the front end (Lexer, Parser, Build), the loader (Yo) and the
   simulator (Machine), put together the way main_real (src/main.rs) and src/lib.rs put the Rust
   functions together.  Definitions only; everything is executable and extractable.

     tool_main files args = (exit status, standard output)

   `files` is the file system: the bytes of the file of a given name, None when it cannot be
   read.  `args` are the arguments after the program name.  Standard error is not represented
   beyond the exit status (a failure is exit status 1 and - except for the usage text - an empty
   standard output).

   NOT represented (the full list is at the head of ToolSpec.v):  the text on standard error;
   standard input (the -i prompt reads a line after every cycle: the prompt line it prints IS
   represented); i/o errors other than "cannot be read" (a write error on standard output, a read
   error in the middle of a file); the lossy conversion of a file that is not valid UTF-8; the
   standard output produced before a simulation aborts (the model of `run` returns no text with
   an error); the run-to-run order of the lines independent actions print within a cycle under -d
   and --trace-assignments (the model has the order of its own schedule); the program name in the
   usage text is a parameter (`tool_main_as`), "hclrs" in `tool_main`.  The fuel of the run is
   the cycle budget as a unary number (N.to_nat timeout): fine for vm_compute and extraction with
   budgets like the default 9999, not for one near 2^32. *)
From HclV Require Import Base Expr Machine Build Yo Lexer Parser Generated Cli CliArgs.
Open Scope string_scope.
Open Scope N_scope.

Definition file_system := string -> option (list N).

Definition bytes_of (s : string) : list N := map N_of_ascii (list_ascii_of_string s).

(* ---- src/lib.rs ------------------------------------------------------------------------------ *)
(* read_y86_hcl: FileContents::new_from_file_with_preamble(Y86_PREAMBLE, path) - the text handed
   to the lexer is the preamble followed by the file's text *)
Definition read_y86_hcl (files : file_system) (name : string) : option (list N) :=
  match files name with
  | Some b => Some (bytes_of gen_preamble ++ b)%list
  | None => None
  end.

(* parse_y86_hcl: lexer + parser, then Program::new_y86.  A panic inside is caught by
   catch_unwind and reported as an error like any other (so `Panicked` in `es` is exit status 1
   as well). *)
Inductive front :=
| FrontSyntaxError                  (* lexical or syntax error *)
| FrontRejected (es : list err)     (* diagnostics of Program::new *)
| FrontAccepted (p : program).

Definition parse_y86_hcl (text : list N) : front :=
  match gen_tiers with
  | None => FrontSyntaxError
  | Some tiers =>
      match parse_text test_uclass tiers text with
      | None => FrontSyntaxError
      | Some stmts =>
          match build_program gen_features gen_fixed ascii_lower ascii_upper stmts with
          | Ok p => FrontAccepted p
          | Err es => FrontRejected es
          end
      end
  end.

(* ---- src/main.rs ----------------------------------------------------------------------------- *)
(* the RunOptions main_real builds, in the order of its `if parsed_opts.opt_present(..)` tests:
   q d t i ungroup-debug-wires trace-assignments.  -i installs the prompt (below) and changes no
   field of the record. *)
Definition run_options_of (fs : list flag) : options :=
  let o := default_options in
  let o := if has_flag FQuiet fs then set_quiet o else o in
  let o := if has_flag FDebug fs then set_debug o else o in
  let o := if has_flag FTesting fs then set_test o else o in
  let o := if has_flag FUngroup fs then set_no_group o else o in
  let o := if has_flag FTrace fs then set_trace_assignments o else o in
  o.

(* press_enter: println!("(press enter to continue)"), then a line is read from standard input
   (not represented) *)
Definition prompt_line : string := "(press enter to continue)" ++ nl.
Definition prompt_of (fs : list flag) : string :=
  if has_flag FInteractive fs then prompt_line else "".

(* RunningProgram::run with options.prompt: Machine.run, with the prompt's text after the text
   of every cycle.  With the empty prompt this is Machine.run (ToolProofs.run_prompting_empty);
   the state reached and the errors never depend on the prompt. *)
Fixpoint run_prompting (prompt : string) (fuel : nat) (f : features) (o : options) (p : program)
         (s : mstate) : result (mstate * string) :=
  if done o s then Ok (s, "")
  else match fuel with
       | O => err1 OutOfFuel []
       | S fu =>
           do d <- (if o_show_regs_mem o then dump_y86 o p s else Ok "");
           do x <- step f o p s;
           do y <- run_prompting prompt fu f o p (fst x);
           Ok (fst y, d ++ snd x ++ prompt ++ snd y)
       end.

(* load_memory_y86 fills the memory of the freshly made RunningProgram *)
Definition with_mem (s : mstate) (m : memory) : mstate :=
  mkState (values s) m (regs s) (last_status s) (cycle s).

(* print_usage: the header of main.rs followed by getopts' rendering of the option table.  The
   option part is TRANSCRIBED from the output of the compiled program (getopts::Options::usage
   is not modelled). *)
Definition usage_options : string :=
  "Options:" ++ nl ++
  "    -c, --check         check syntax only" ++ nl ++
  "    -d, --debug         output wire values after each cycle and other debug" ++ nl ++
  "                        output" ++ nl ++
  "    -q, --quiet         only output state at the end" ++ nl ++
  "    -t, --testing       do not output custom register banks (for autograding)" ++ nl ++
  "    -h, --help          print this help menu" ++ nl ++
  "    -i, --interactive   prompt after each cycle" ++ nl ++
  "        --ungroup-debug-wires " ++ nl ++
  "                        when showing wire values in debug output, do not group" ++ nl ++
  "                        wires by category" ++ nl ++
  "        --trace-assignments " ++ nl ++
  "                        show assignments in the order they are simulated" ++ nl ++
  "        --version       print version number" ++ nl.

Definition usage_text (program_name : string) : string :=
  "Usage: " ++ program_name ++ " [options] HCL-FILE [YO-FILE [TIMEOUT]]" ++ nl ++
  "Runs HCL_FILE on YO-FILE. If --check is specified, no YO-FILE may be supplied." ++ nl ++
  "Default timeout is 9999 cycles." ++ nl ++ nl ++ usage_options.

(* env!("CARGO_PKG_VERSION") of Cargo.toml *)
Definition package_version : string := "0.2.14".
Definition version_text : string := "HCLRS version " ++ package_version ++ nl.
Definition syntax_ok_text : string := "syntax OK" ++ nl.

(* the exit status of a Rust panic (`main_real().unwrap()`, `.expect(..)`) *)
Definition panic_status : N := 101.

(* what main_real did, with everything it computed on the way *)
Inductive outcome :=
| OUsage (status : N)          (* print_usage: status 0 for --help, 1 for a bad number of positionals *)
| OVersion
| OSyntaxOK
| OMessage (why : string)      (* `return Ok(false)` after a message on standard error; the names
                                  are those of Cli.main_model *)
| OFinal (timeout : N)         (* run_y86 returned Ok *)
         (o : options)         (*   the RunOptions *)
         (p : program)         (*   the compiled program *)
         (start : mstate)      (*   the state before the first cycle: initial state + memory image *)
         (final : mstate)      (*   the state `run` stopped in *)
         (text : string)       (*   what `run` printed *)
         (dump : string)       (*   dump_y86_str() of the final state *)
| OPanic (where_ : string).    (* a panic outside parse_y86_hcl: never happens (ToolProofs.tool_never_panics_holds) *)

(* run_y86(running_program, yo_path, run_options, &mut stdout()): open and load the memory image,
   set the options, run, print the final state *)
Definition run_y86 (files : file_system) (prompt : string) (program : program) (s0 : mstate)
           (yo_filename : string) (run_options : options) : outcome :=
  match files yo_filename with
  | None => OMessage "open"                                   (* File::open(yo_path)? *)
  | Some image =>
      match load_from_y86 (mem s0) image with
      | Err _ => OMessage "load"                              (* load_memory_y86(..)? *)
      | Ok m =>
          let start := with_mem s0 m in
          let timeout := o_timeout run_options in
          match run_prompting prompt (N.to_nat timeout) gen_features run_options program start with
          | Err _ => OMessage "simulation"                    (* running_program.run(out)? *)
          | Ok (final, text) =>
              match dump_y86 run_options program final with
              | Err _ => OPanic "dump_y86_str"                (* .expect("unexpected error while dumping state") *)
              | Ok dump => OFinal timeout run_options program start final text dump
              end
          end
      end
  end.

(* main_real, statement by statement *)
Definition tool_outcome (files : file_system) (args : list string) : outcome :=
  (* opts.parse(&args[1..]) *)
  match parse_argv args with
  | None => OMessage "getopts"
  | Some (fs, free) =>
      if has_flag FHelp fs then OUsage 0
      else if has_flag FVersion fs then OVersion
      else
        let run_options := run_options_of fs in
        let check_only := has_flag FCheck fs in
        match free with
        | [] => OUsage 1                                      (* free_args.len() < 1 *)
        | filename :: rest =>
            match read_y86_hcl files filename with
            | None => OMessage "Error reading"
            | Some file_contents =>
                if 3 <? N.of_nat (List.length free) then OUsage 1
                else
                  (* parse_y86: parse_y86_hcl, then RunningProgram::new_y86 *)
                  match parse_y86_hcl file_contents with
                  | FrontSyntaxError => OMessage "diagnostics"
                  | FrontRejected _ => OMessage "diagnostics"
                  | FrontAccepted program =>
                      match initial_state program with
                      | Err _ => OPanic "initial_state"      (* outside catch_unwind *)
                      | Ok s0 =>
                          if check_only then OSyntaxOK
                          else
                            match rest with
                            | [] => OUsage 1                  (* free_args.len() < 2 (> 3: seen above) *)
                            | yo_filename :: rest2 =>
                                if negb (ends_with ".yo" yo_filename) then OMessage "extension"
                                else
                                  match (match rest2 with
                                         | [] => Some default_timeout
                                         | t :: _ => parse_u32 t
                                         end) with
                                  | None => OMessage "timeout"
                                  | Some timeout =>
                                      run_y86 files (prompt_of fs) program s0 yo_filename
                                              (set_timeout run_options timeout)
                                  end
                            end
                      end
                  end
            end
        end
  end.

Definition status_of (r : outcome) : N :=
  match r with
  | OUsage st => st
  | OVersion | OSyntaxOK | OFinal _ _ _ _ _ _ _ => 0
  | OMessage _ => 1
  | OPanic _ => panic_status
  end.

Definition stdout_of (program_name : string) (r : outcome) : string :=
  match r with
  | OUsage _ => usage_text program_name
  | OVersion => version_text
  | OSyntaxOK => syntax_ok_text
  | OMessage _ => ""
  | OFinal _ _ _ _ _ text dump => text ++ dump
  | OPanic _ => ""
  end.

(* the outcome in the vocabulary of Cli.main_model *)
Definition what_of (r : outcome) : what :=
  match r with
  | OUsage _ => PrintedUsage
  | OVersion => PrintedVersion
  | OSyntaxOK => SyntaxOK
  | OMessage why => Message why
  | OFinal timeout _ _ _ _ _ _ => FinalState timeout
  | OPanic where_ => Message where_
  end.

Definition tool_main_as (program_name : string) (files : file_system) (args : list string)
  : N * string :=
  let r := tool_outcome files args in (status_of r, stdout_of program_name r).

Definition tool_main (files : file_system) (args : list string) : N * string :=
  tool_main_as "hclrs" files args.

(* the state the simulation stopped in, when there was one *)
Definition final_state_of (r : outcome) : option mstate :=
  match r with OFinal _ _ _ _ final _ _ => Some final | _ => None end.

(* ---- a file system from a table, for the examples and the extracted driver ------------------ *)
Fixpoint files_of (table : list (string * list N)) (name : string) : option (list N) :=
  match table with
  | [] => None
  | (n, b) :: r => if String.eqb name n then Some b else files_of r name
  end.
