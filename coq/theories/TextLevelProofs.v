(* Proofs of the statements of TextLevelSpec.v: compositions of the program-level theorems
   (Props/Cxx.v quote them) with FrontWfProofs (every statement list read from a text is
   well formed), plus the bridges the compositions need:
     - reachable states satisfy SemanticsSpec.cycle_start            (reachable_cycle_start)
     - a run of an accepted text is a HistorySpec.run_of              (text_run_is_run_of_holds)
     - reachable states satisfy TableSpec.keys_inv                    (reachable_keys_inv)
     - a program built under another hash order is well typed for the same widths and applies
       its state-changing actions in the same order                   (with_program_ok, with_effects)
     - which ports are scheduled, read off the text                   (port_scheduled_iff). *)
From Coq Require Import List NArith String Lia ZifyBool ZifyNat ZifyN Bool Permutation.
From HclV Require Import Base Expr ExprSpec Machine MachineSpec MachineProofs MemSpec SchedSpec SchedProofs
     Graph GraphSpec GraphProofs Build BuildSpec Generated BuildProofs Lexer Parser LexParseSpec TriviaSpec
     CompleteSpec CompleteProofs LoopSpec LoopProofs HistorySpec HistoryProofs SemanticsSpec SemanticsProofs
     FeatureSpec FeatureProofs Yo YoCodecSpec YoCodecProofs Tool ToolSpec ToolProofs FrontWfSpec FrontWfProofs
     TextLevelSpec.
From HclV Require OrderSpec OrderProofs DiagOrderSpec DiagOrderProofs OutputSpec OutputProofs TableSpec TableProofs.
Import ListNotations.
Open Scope string_scope.
Open Scope list_scope.
Open Scope N_scope.

(* ====================================================================================== *)
(* 0. the setting                                                                         *)
(* ====================================================================================== *)
Lemma text_wf uc utext stmts : text_statements uc utext stmts -> Forall wf_stmt stmts.
Proof.
  intros [Hsc Hp]. unfold program_text in Hp.
  destruct (tool_text_utf8 utext Hsc) as [Hsc' E]. rewrite E in Hp.
  exact (text_stmts_wf_holds uc doc_tiers _ stmts Hsc' Hp).
Qed.

Theorem text_statements_wf_holds : stmt_text_statements_wf.
Proof. exact text_wf. Qed.

Lemma accepted_program_ok uc f il iu utext stmts p :
  accepted_as uc f il iu utext stmts p -> exists G, program_ok f G p.
Proof.
  intros [Ht Hb].
  exact (accept_program_ok_gen f il iu gen_fixed_ok gen_fixed_widths_ok stmts p (text_wf uc utext stmts Ht) Hb).
Qed.

Lemma tiers_are_doc : gen_tiers = Some doc_tiers.
Proof. vm_compute. reflexivity. Qed.

Lemma reachable_iter f o p : forall k s s', reachable f p s -> iter_step k f o p s = Ok s' -> reachable f p s'.
Proof.
  induction k as [|k IH]; intros s s' R H; cbn [iter_step] in H.
  - injection H as <-. exact R.
  - destruct (step f o p s) as [[s1 t1]|es] eqn:E; cbn [bind fst] in H; [|discriminate H].
    apply (IH s1 s'); [|exact H]. exact (reach_step f p o s s1 t1 R E).
Qed.

Lemma reachable_run f o p fuel s s' t : reachable f p s -> run fuel f o p s = Ok (s', t) -> reachable f p s'.
Proof.
  intros R H. destruct (run_stops_exactly_ok fuel f o p s s' t H) as [k [Hk _]].
  exact (reachable_iter f o p k s s' R Hk).
Qed.

Theorem setting_is_the_tools_holds : stmt_setting_is_the_tools.
Proof.
  split; [vm_compute; reflexivity|]. split; [exact tiers_are_doc|].
  intros files fname y utext p start Hfile Hsc Hstart.
  (* the text is kept abstract: with the preamble bytes in view the kernel would run the lexer on
     them when checking the proof term *)
  unfold start_of in Hstart.
  destruct (read_y86_hcl files fname) as [text|] eqn:Hread; [|discriminate Hstart].
  assert (Htext : text = program_text utext).
  { unfold read_y86_hcl in Hread. rewrite Hfile in Hread. injection Hread as <-. reflexivity. }
  unfold parse_y86_hcl in Hstart. rewrite tiers_are_doc in Hstart.
  destruct (parse_text test_uclass doc_tiers text) as [stmts|] eqn:Hp; [|discriminate Hstart].
  destruct (build_program gen_features gen_fixed ascii_lower ascii_upper stmts) as [q|bes] eqn:Hb;
    [|discriminate Hstart].
  destruct (initial_state q) as [s0|ies] eqn:Hs0; [|discriminate Hstart].
  destruct (files y) as [image|]; [|discriminate Hstart].
  destruct (initial_state_shape q s0 Hs0) as [Hmem Hcyc]. rewrite Hmem in Hstart.
  destruct (load_from_y86 [] image) as [m|les] eqn:Hl; [|discriminate Hstart].
  injection Hstart as <- <-.
  destruct (load_is_a_function_of_bytes_holds [] image m wf_mem_nil Hl) as [Hwm _].
  rewrite Htext in Hp.
  split; [|split].
  - exists stmts. split; [split; [exact Hsc | exact Hp] | exact Hb].
  - change (with_mem s0 m) with (load_image s0 m).
    apply reach_load; [apply reach_init; exact Hs0 | exact Hwm].
  - cbn [with_mem cycle]. exact Hcyc.
Qed.

(* ====================================================================================== *)
(* C07                                                                                    *)
(* ====================================================================================== *)
Theorem text_never_misbehaves_holds : stmt_text_never_misbehaves.
Proof.
  intros uc f il iu utext p [stmts Hacc].
  destruct (accepted_program_ok uc f il iu utext stmts p Hacc) as [G POK].
  exists G. split; [exact POK|]. split; [exact (initial_state_safe_ok f G p POK)|].
  split; [intros s R; exact (reachable_state_ok f G p s POK R)|]. split.
  - intros o s R. pose proof (step_safe_ok f o G p s POK (reachable_state_ok f G p s POK R)) as Hs.
    destruct (step f o p s) as [[s' out]|es] eqn:Est; [|exact Hs].
    exact (reach_step f p o s s' out R Est).
  - intros fuel o s R Hfuel.
    pose proof (run_safe_ok fuel f o G p s POK (reachable_state_ok f G p s POK R) Hfuel) as Hs.
    destruct (run fuel f o p s) as [[s' out]|es] eqn:Er; [|exact Hs].
    exact (reachable_run f o p fuel s s' out R Er).
Qed.

(* ====================================================================================== *)
(* C01                                                                                    *)
(* ====================================================================================== *)
Theorem text_has_declared_widths_holds : stmt_text_has_declared_widths.
Proof.
  intros uc f il iu utext stmts p [Ht Hb].
  exact (accepted_has_declared_widths_holds f il iu stmts p (text_wf uc utext stmts Ht) Hb).
Qed.

(* the initial state is its own image-loaded state: its memory is empty *)
Lemma initial_is_loaded p s0 : initial_state p = Ok s0 -> load_image s0 [] = s0.
Proof.
  intros H. destruct (initial_state_shape p s0 H) as [Hm _].
  destruct s0 as [v m r l c]. cbn [mem] in Hm. subst m. reflexivity.
Qed.

(* THE BRIDGE reachable -> cycle_start *)
Lemma reachable_cycle_start f il iu stmts p cv G :
  Forall wf_stmt stmts -> build_program f gen_fixed il iu stmts = Ok p ->
  fault_free_with f gen_fixed il iu cv G stmts ->
  forall s, reachable f p s -> state_ok G p s /\ cycle_start stmts cv s.
Proof.
  intros Hwf Hb FF s R.
  induction R as [s0 H0|s img R IH Hw|o s s' out R IH Hst].
  - destruct (cycle_start_invariant_holds f il iu default_options stmts p cv G Hwf Hb FF) as [Hinit _].
    pose proof (Hinit s0 [] H0 wf_mem_nil) as H. rewrite (initial_is_loaded p s0 H0) in H. exact H.
  - destruct IH as [SOK CS]. split; [apply load_image_ok; assumption|].
    exact CS.
  - destruct IH as [SOK CS].
    destruct (cycle_start_invariant_holds f il iu o stmts p cv G Hwf Hb FF) as [_ Hstep].
    exact (Hstep s s' out SOK CS Hst).
Qed.

Theorem text_reachable_cycle_start_holds : stmt_text_reachable_cycle_start.
Proof.
  intros uc f il iu utext stmts p cv G [Ht Hb] FF.
  pose proof (text_wf uc utext stmts Ht) as Hwf.
  split; [exact (declared_widths_type_the_program_holds f il iu stmts p cv G Hwf Hb FF)|].
  exact (reachable_cycle_start f il iu stmts p cv G Hwf Hb FF).
Qed.

Theorem text_cycle_has_one_solution_holds : stmt_text_cycle_has_one_solution.
Proof.
  intros uc f il iu utext stmts p cv G s _ FF _. split.
  - exact (cycle_solution_always_exists_holds f il iu stmts cv G s FF).
  - intros v1 v2 H1 H2. exact (cycle_solution_unique_holds f il iu stmts cv G s v1 v2 FF H1 H2).
Qed.

Theorem text_cycle_computes_the_solution_holds : stmt_text_cycle_computes_the_solution.
Proof.
  intros uc f il iu utext stmts p cv G s o [Ht Hb] FF R.
  pose proof (text_wf uc utext stmts Ht) as Hwf.
  destruct (reachable_cycle_start f il iu stmts p cv G Hwf Hb FF s R) as [SOK CS].
  destruct (step f o p s) as [[s' t]|es] eqn:Est.
  - split; [exact (reach_step f p o s s' t R Est)|].
    destruct (cycle_solution_exists_and_is_computed_holds f il iu o stmts p cv G s s' t Hwf Hb FF SOK CS Est)
      as (s1 & t1 & Hex & Hsol & Hedge & Hty).
    exists s1, t1. split; [exact Hex|]. split; [exact Hsol|]. split; [exact Hedge|]. split; [exact Hty|].
    intros v Hv. split.
    + exact (computed_is_the_solution_holds f il iu o stmts p cv G s s1 t1 v Hwf Hb FF SOK CS Hex Hv).
    + pose proof (step_fails_iff_division_by_zero_holds f il iu o stmts p cv G s v Hwf Hb FF SOK CS Hv) as Hd.
      rewrite Est in Hd. split; [exact Hd|].
      exact (next_state_from_solution_holds f il iu o stmts p cv G s s' t v Hwf Hb FF SOK CS Est Hv).
  - pose proof (step_safe_ok f o G p s (declared_widths_type_the_program_holds f il iu stmts p cv G Hwf Hb FF) SOK) as Hs.
    rewrite Est in Hs. split; [exact Hs|].
    intros v Hv.
    pose proof (step_fails_iff_division_by_zero_holds f il iu o stmts p cv G s v Hwf Hb FF SOK CS Hv) as Hd.
    rewrite Est in Hd. exact (proj2 Hd).
Qed.

Theorem text_schedule_independent_holds : stmt_text_schedule_independent.
Proof.
  intros uc f il iu utext p [stmts [Ht Hb]].
  pose proof (build_valid_schedule_gen f il iu gen_fixed_ok stmts p Hb) as Hv.
  split; [exact Hv|].
  intros o acts' s s1 t1 Hv' HP He Hex.
  destruct (OrderProofs.exec_transfer f o (known0 p) (p_actions p) acts' s s1 t1 Hv Hv' HP He Hex)
    as (s2 & t2 & E2 & Hsm).
  exists s2, t2. split; [exact E2 | exact Hsm].
Qed.

Theorem text_statement_order_free_holds : stmt_text_statement_order_free.
Proof.
  intros uc uc' f il iu utext utext' stmts stmts' Ht Ht' HP.
  pose proof (text_wf uc utext stmts Ht) as Hwf.
  split; [exact (OrderProofs.acceptance_order_free_holds f il iu stmts stmts' HP)|].
  intros p p' Hb Hb'.
  split; [exact (OrderProofs.program_order_free_holds f il iu stmts stmts' p p' HP Hb Hb')|].
  split.
  - exact (OrderProofs.simulation_order_free_holds f il iu stmts stmts' p p' Hwf HP Hb Hb').
  - intros s0 s0' fuel o o' Hi Hi' Hto.
    exact (OrderProofs.run_order_free_holds f il iu stmts stmts' p p' s0 s0' Hwf HP Hb Hb' Hi Hi' fuel o o' Hto).
Qed.

(* ====================================================================================== *)
(* C03 / C04 / C05                                                                        *)
(* ====================================================================================== *)
Lemma run_states_reachable f o p : forall n s, reachable f p s ->
  forall i si, nth_error (run_states n f o p s) i = Some si -> reachable f p si.
Proof.
  unfold run_states. induction n as [|n IH]; intros s R i si Hi.
  - destruct i as [|i]; cbn [nth_error run_posts] in Hi; [injection Hi as <-; exact R|].
    destruct i; discriminate Hi.
  - destruct i as [|i]; [cbn [nth_error] in Hi; injection Hi as <-; exact R|].
    cbn [nth_error run_posts] in Hi.
    destruct (step f o p s) as [[s1 t1]|es] eqn:E; [|destruct i; discriminate Hi].
    exact (IH s1 (reach_step f p o s s1 t1 R E) i si Hi).
Qed.

Theorem text_run_states_reachable_holds : stmt_text_run_states_reachable.
Proof.
  intros uc f il iu o utext p img n states (_ & Hw & s0 & sn & H0 & _ & ->) i si Hi.
  apply (run_states_reachable f o p n (load_image s0 img)) with (i := i); [|exact Hi].
  apply reach_load; [apply reach_init; exact H0 | exact Hw].
Qed.

(* THE BRIDGE text_run -> run_of *)
Theorem text_run_is_run_of_holds : stmt_text_run_is_run_of.
Proof.
  intros uc f il iu o utext p img n states ([stmts [Ht Hb]] & Hw & s0 & sn & H0 & Hit & ->).
  pose proof (text_wf uc utext stmts Ht) as Hwf.
  destruct (accepted_run_of_holds f o il iu stmts p img n s0 sn Hwf Hb Hw H0 Hit) as [Hund HG].
  destruct (accepted_program_runs_holds f il iu stmts p Hwf Hb) as (_ & Hut & _).
  split; [exact Hund|]. split; [exact Hut | exact HG].
Qed.

Theorem text_bank_history_holds : stmt_text_bank_history.
Proof.
  intros uc f il iu o utext p img n states Hrun.
  destruct (text_run_is_run_of_holds uc f il iu o utext p img n states Hrun) as (Hund & _ & G & HR).
  exact (bank_history_holds f o G p img n states HR Hund).
Qed.

Theorem text_regfile_history_holds : stmt_text_regfile_history.
Proof.
  intros uc f il iu o utext p img n states Hrun.
  destruct (text_run_is_run_of_holds uc f il iu o utext p img n states Hrun) as (_ & _ & G & HR).
  exact (regfile_history_holds f o G p img n states HR).
Qed.

Theorem text_memory_history_holds : stmt_text_memory_history.
Proof.
  intros uc f il iu o utext p img n states Hrun.
  destruct (text_run_is_run_of_holds uc f il iu o utext p img n states Hrun) as (_ & _ & G & HR).
  exact (memory_history_holds f o G p img n states HR).
Qed.

(* which ports are scheduled, read off the text (SemanticsProofs.program_shape) *)
Lemma port_scheduled_iff f il iu stmts cv G p c :
  fault_free_with f gen_fixed il iu cv G stmts -> build_program f gen_fixed il iu stmts = Ok p ->
  In c gen_fixed ->
  (In (ff_action c) (p_actions p) <-> uses stmts (fixed_in_names c) = true).
Proof.
  intros FF Hb Hc.
  destruct (program_shape f gen_fixed il iu gen_sched_ok gen_ins_nonempty stmts cv G FF p Hb)
    as (_ & _ & _ & _ & _ & Hin & Hout).
  rewrite uses_iff. split.
  - intros Ha. destruct (Hout _ Ha) as [(n & e & w & Heq & _)|(c' & Hc' & Hia & Heq)].
    + exfalso. cbn [gen_fixed In] in Hc.
      repeat (destruct Hc as [<-|Hc]; [discriminate Heq|]). contradiction.
    + rewrite (gen_action_inj c c' Hc Hc' Heq). exact Hia.
  - intros Hia. exact (Hin c Hc Hia).
Qed.

Definition gen_port (k : nat) : fixed_fn :=
  nth k gen_fixed (mkFixed "" [] None None false (ASetStatus "")).

Lemma gen_port_in k : (k < 8)%nat -> In (gen_port k) gen_fixed.
Proof. intros H. unfold gen_port. apply nth_In. vm_compute. lia. Qed.

Theorem text_ports_scheduled_holds : stmt_text_ports_scheduled.
Proof.
  intros uc f il iu utext stmts p [Ht Hb].
  pose proof (text_wf uc utext stmts Ht) as Hwf.
  destruct (accepted_fault_free_gen_holds f il iu stmts p Hb) as (cv & G & FF).
  destruct (accepted_program_runs_holds f il iu stmts p Hwf Hb) as (_ & Hut & _).
  destruct (port_tests_hold p Hut) as (Tm & TE & TM).
  pose proof (fun k Hk => port_scheduled_iff f il iu stmts cv G p (gen_port k) FF Hb (gen_port_in k Hk)) as P.
  split; [exact (P 4%nat ltac:(lia))|]. split; [exact (P 5%nat ltac:(lia))|].
  split; [exact (P 2%nat ltac:(lia))|]. split; [exact (P 1%nat ltac:(lia))|].
  split; [rewrite TE; exact (P 6%nat ltac:(lia))|].
  split; [rewrite TM; exact (P 7%nat ltac:(lia))|].
  rewrite Tm; exact (P 3%nat ltac:(lia)).
Qed.

(* ====================================================================================== *)
(* C06                                                                                    *)
(* ====================================================================================== *)
Theorem text_run_stops_exactly_holds : stmt_text_run_stops_exactly.
Proof.
  intros uc f il iu utext p fuel o s [stmts Hacc] R Hfuel.
  destruct (accepted_program_ok uc f il iu utext stmts p Hacc) as [G POK].
  pose proof (run_safe_ok fuel f o G p s POK (reachable_state_ok f G p s POK R) Hfuel) as Hsafe.
  destruct (run fuel f o p s) as [[s' t]|es] eqn:Er.
  - split; [exact (reachable_run f o p fuel s s' t R Er)|].
    destruct (run_stops_exactly_ok fuel f o p s s' t Er) as (k & Hk & Hd & Hc & Hj).
    exists k. split; [exact Hk|]. split; [exact Hc|]. split; [exact (done_true_cases o s' Hd)|].
    intros j Hlt. destruct (Hj j Hlt) as (sj & Hsj & Hdj). exists sj. split; [exact Hsj|].
    apply (done_false_iff o sj). exact Hdj.
  - unfold div_zero_only in Hsafe. split; [exact Hsafe|].
    destruct (run_fuel_suffices_ok fuel f o p s es Hfuel Er) as (k & sk & Hk & Hd & Hcase).
    exists k, sk. split; [exact Hk|].
    destruct (proj1 (done_false_iff o sk) Hd) as [Hst Hcy]. split; [exact Hst|]. split; [exact Hcy|].
    destruct Hcase as [Hs|[_ Hdump]]; [exact Hs|]. exfalso.
    pose proof (reachable_iter f o p k s sk R Hk) as Rk.
    destruct (SchedProofs.dump_y86_total o G p sk (reachable_state_ok f G p sk POK Rk)) as [d Hd'].
    rewrite Hd' in Hdump. discriminate Hdump.
Qed.

(* ====================================================================================== *)
(* C08 / C09 / C10                                                                        *)
(* ====================================================================================== *)
Theorem text_accepted_iff_fault_free_holds : stmt_text_accepted_iff_fault_free.
Proof.
  intros uc f il iu utext stmts Ht.
  rewrite <- (accepted_iff_fault_free_gen_holds f il iu stmts). split.
  - intros [p [_ Hb]]. exists p. exact Hb.
  - intros [p Hb]. exists p. split; [exact Ht | exact Hb].
Qed.

Theorem text_single_driver_holds : stmt_text_single_driver.
Proof.
  intros uc f il iu utext stmts _. split.
  - intros p Hb.
    destruct (accept_declared_once_ok f gen_fixed il iu stmts p Hb) as [D1 D2].
    destruct (accept_assigned_once_ok f gen_fixed il iu stmts p Hb) as [A1 A2].
    destruct (accept_wires_driven_ok f gen_fixed il iu stmts p Hb) as [W1 W2].
    split; [exact D1|]. split; [exact D2|]. split; [exact A1|]. split; [exact A2|].
    split; [exact W1|]. split; [exact W2|].
    split; [exact (accept_consts_closed_ok f gen_fixed il iu stmts p Hb)|].
    exact (accept_banks_wf_ok f gen_fixed il iu stmts p Hb).
  - intros es Hb. exact (reject_has_diag_ok f gen_fixed il iu stmts es Hb).
Qed.

Theorem text_accepted_is_acyclic_holds : stmt_text_accepted_is_acyclic.
Proof.
  intros uc f il iu utext stmts p [_ Hb].
  exact (accepted_is_acyclic_holds f gen_fixed il iu gen_fixed_distinct stmts p Hb).
Qed.

Theorem text_cyclic_is_rejected_holds : stmt_text_cyclic_is_rejected.
Proof.
  intros uc f il iu utext stmts _. split.
  - exact (cyclic_is_rejected_with_loop_holds f gen_fixed il iu gen_fixed_distinct stmts).
  - intros es c. exact (loop_report_is_real_holds f gen_fixed il iu stmts es c).
Qed.

(* ====================================================================================== *)
(* C17                                                                                    *)
(* ====================================================================================== *)
Theorem text_options_only_reject_more_holds : stmt_text_options_only_reject_more.
Proof.
  intros uc il iu utext stmts Ht. pose proof (text_wf uc utext stmts Ht) as Hwf.
  split; [|split].
  - intros a b p Hle Hb. exact (program_monotone_holds il iu a b stmts p Hle Hwf Hb).
  - intros a b p p' Ha Hb. split.
    + exact (program_same_under_two_sets_holds il iu a b stmts p p' Hwf Ha Hb).
    + exact (program_join_holds il iu a b stmts p p' Hwf Ha Hb).
  - intros f. exact (accepted_iff_each_enabled_option_holds il iu f stmts Hwf).
Qed.

Lemma reachable_transfer a b G p :
  program_ok a G p ->
  (forall o s, state_ok G p s -> step a o p s = step b o p s) ->
  forall s, reachable a p s -> reachable b p s.
Proof.
  intros POK Heq s R. induction R as [s0 H0|s img R IH Hw|o s s' out R IH Hst].
  - exact (reach_init b p s0 H0).
  - exact (reach_load b p s img IH Hw).
  - rewrite (Heq o s (reachable_state_ok a G p s POK R)) in Hst.
    exact (reach_step b p o s s' out IH Hst).
Qed.

Theorem text_simulates_identically_under_two_sets_holds : stmt_text_simulates_identically_under_two_sets.
Proof.
  intros uc a b il iu utext p p' [stmts [[Hsc Hp] Ha]] [stmts' [[_ Hp'] Hb]].
  rewrite Hp in Hp'. injection Hp' as <-.
  pose proof (text_wf uc utext stmts (conj Hsc Hp)) as Hwf.
  pose proof (program_same_under_two_sets_holds il iu a b stmts p p' Hwf Ha Hb) as <-.
  split; [reflexivity|].
  destruct (simulation_same_under_two_sets_holds il iu a b stmts p Hwf Ha Hb) as (G & PA & PB & _ & Hsim).
  split.
  - intros s. split.
    + apply (reachable_transfer a b G p PA). intros o s1 Hs1. exact (proj1 (Hsim o s1 Hs1)).
    + apply (reachable_transfer b a G p PB). intros o s1 Hs1. symmetry. exact (proj1 (Hsim o s1 Hs1)).
  - intros s R o. exact (Hsim o s (reachable_state_ok a G p s PA R)).
Qed.

(* ====================================================================================== *)
(* C18                                                                                    *)
(* ====================================================================================== *)
(* THE BRIDGE reachable -> keys_inv *)
Lemma reachable_keys_inv f p s : reachable f p s -> TableSpec.keys_inv p s.
Proof.
  intros R. induction R as [s0 H0|s img R IH Hw|o s s' out R IH Hst].
  - exact (TableProofs.keys_inv_initial_holds p s0 H0).
  - exact (keys_inv_with_mem p s img IH).
  - exact (TableProofs.keys_inv_step_holds f o p s s' out IH Hst).
Qed.

Theorem text_output_options_same_state_holds : stmt_text_output_options_same_state.
Proof.
  intros uc f il iu utext p s [stmts Hacc] R.
  destruct (accepted_program_ok uc f il iu utext stmts p Hacc) as [G POK].
  split; [|split].
  - intros o o'. pose proof (step_option_free f o o' p s) as H. unfold TableSpec.same_outcome in H.
    pose proof (step_options_ok f o o' p s) as Hsame.
    destruct (step f o p s) as [[s1 t1]|e1]; destruct (step f o' p s) as [[s2 t2]|e2].
    + exact (Hsame s1 t1 s2 t2 eq_refl eq_refl).
    + exact H.
    + exact H.
    + exact H.
  - intros fuel o o' Hto.
    exact (run_result_option_free_holds fuel f o o' p s (reachable_keys_inv f p s R) Hto).
  - intros fuel o o' Hle Hform Hto.
    exact (OutputProofs.run_output_monotone_typed_holds fuel f o o' G p s POK
             (reachable_state_ok f G p s POK R) Hle Hform Hto).
Qed.

(* ====================================================================================== *)
(* C12                                                                                    *)
(* ====================================================================================== *)
(* ---- bridge 1: under every hash order the state-changing actions come in table order ---- *)
Lemma subseq_In {A} (l L : list A) x : subseq l L -> In x l -> In x L.
Proof.
  intros H. induction H as [l|y a b H IH|y a b H IH]; intros Hin.
  - destruct Hin.
  - destruct Hin as [<-|Hin]; [left; reflexivity | right; exact (IH Hin)].
  - right. exact (IH Hin).
Qed.

Lemma subseq_perm_eq {A} (L : list A) : NoDup L ->
  forall l1 l2, subseq l1 L -> subseq l2 L -> Permutation l1 l2 -> l1 = l2.
Proof.
  induction L as [|x L IH]; intros ND l1 l2 H1 H2 HP.
  - inversion H1; subst. inversion H2; subst. reflexivity.
  - inversion ND as [|x0 L0 Hx ND']; subst.
    inversion H1 as [l|y a b Ha|y a b Ha]; subst.
    + apply Permutation_nil in HP. subst l2. reflexivity.
    + inversion H2 as [l|y a' b' Ha'|y a' b' Ha']; subst.
      * apply Permutation_sym, Permutation_nil in HP. discriminate HP.
      * f_equal. apply IH; [exact ND'|exact Ha|exact Ha'|]. exact (Permutation_cons_inv HP).
      * exfalso. apply Hx. apply (subseq_In l2 L x Ha'). apply (Permutation_in x HP). left. reflexivity.
    + inversion H2 as [l|y a' b' Ha'|y a' b' Ha']; subst.
      * apply Permutation_sym, Permutation_nil in HP. exact HP.
      * exfalso. apply Hx. apply (subseq_In l1 L x Ha). apply (Permutation_in x (Permutation_sym HP)).
        left. reflexivity.
      * apply IH; assumption.
Qed.

Lemma with_effects_in_table_order f fixed il iu ho stmts p :
  fixed_table_ok fixed = true -> DiagOrderSpec.ord_ok ho ->
  DiagOrderSpec.build_program_with f fixed il iu ho stmts = Ok p ->
  subseq (effect_part (p_actions p))
         (map ff_action (filter (fun ff => match ff_out ff with None => true | Some _ => false end) fixed)).
Proof.
  intros Hfok Hok Hb. rewrite (DiagOrderProofs.build_with_tail f fixed il iu ho stmts) in Hb. cbv zeta in Hb.
  set (s := fold_left (step1 fixed) stmts (init1 fixed)) in *.
  destruct (s_errs s ++ DiagOrderSpec.const_assigned_errors_with ho s ++ DiagOrderSpec.const_ref_errors_with ho s)
    as [|x0 l0]; [|discriminate Hb].
  destruct (DiagOrderSpec.resolve_constants_with f ho (s_consts s)) as [consts|es]; cbn [bind] in Hb; [|discriminate Hb].
  unfold DiagOrderProofs.tail_with in Hb. cbv zeta in Hb.
  destruct (DiagOrderProofs.errs4w f il iu ho s consts) as [|x4 l4]; [|discriminate Hb].
  match type of Hb with context [DiagOrderSpec.assignments_to_actions_with ?a1 ?a2 ?a3 ?a4 ?a5 ?a6 ?a7 ?a8] =>
    destruct (DiagOrderSpec.assignments_to_actions_with a1 a2 a3 a4 a5 a6 a7 a8) as [acts|es] eqn:Ea end;
    cbn [bind] in Hb; [|discriminate Hb].
  injection Hb as <-. cbn [p_actions].
  destruct (DiagOrderProofs.a2a_with_inv _ _ _ _ _ _ _ _ _ Hok Ea)
    as [g [by_out [no_out [order [sacts [Hf [Ht [Hs ->]]]]]]]].
  destruct (preprocess_shape _ _ _ _ _ _ _ _ _ _ Hf) as [Hby [extra [Hno [Hsub Hex]]]].
  cbn [app] in Hno. subst no_out.
  destruct (schedule_ok _ _ _ _ _ _ _ _ _ _ _ Hs) as [_ [_ [new [Hn HF]]]]. cbn [app] in Hn. subst sacts.
  assert (Hby' : forall n ff, lookup by_out n = Some ff -> In ff fixed /\ exists w, ff_out ff = Some (n, w)).
  { intros n ff Hl. destruct (Hby n ff Hl) as [Hx|[Hx [Hy _]]]; [discriminate Hx | split; assumption]. }
  unfold effect_part. rewrite filter_app.
  rewrite (filter_all_false is_effect new).
  2:{ intros a Ha. destruct (Forall2_In_r _ _ _ _ HF Ha) as [n [_ Hem]].
      apply (emitted_pure _ _ _ _ _ _ _ _ Hfok Hby') in Hem. apply Hem. }
  rewrite (filter_all_true is_effect (map ff_action extra)).
  2:{ intros a Ha. apply in_map_iff in Ha. destruct Ha as [ff [<- Hff]].
      destruct (Hex ff Hff) as [Hin [Ho _]].
      apply (fixed_fn_ok_noout ff (fixed_ok_In fixed ff Hfok Hin) Ho). }
  cbn [app]. apply subseq_map. exact Hsub.
Qed.

(* ---- bridge 2: a program that differs from a well-typed one only in the order of its constant
   table and of its (validly scheduled) actions is well typed for the same widths ---- *)
Lemma same_program_ok f G pm p :
  program_ok f G pm -> DiagOrderSpec.same_program pm p ->
  valid_schedule (known0 p) (p_actions p) = true -> program_ok f G p.
Proof.
  intros (A1 & A2 & A3 & A4 & A5 & A6 & A7 & A8) (Pc & Nd & Eb & _ & _ & Pa) Hv.
  assert (Hceq : forall k, lookup (p_consts pm) k = lookup (p_consts p) k)
    by exact (TableProofs.lookup_perm_holds (p_consts pm) (p_consts p) Nd Pc).
  assert (Hnames : forall n, In n (map fst (p_consts p)) -> In n (map fst (p_consts pm))).
  { intros n Hn. exact (Permutation_in n (Permutation_sym (Permutation_map fst Pc)) Hn). }
  split; [|split; [exact Hv|]]; [|rewrite <- Eb; split; [exact A3|]; split; [|split; [|split; [exact A6|split; [exact A7|]]]]].
  - intros a Ha. pose proof (A1 a (Permutation_in a (Permutation_sym Pa) Ha)) as Hty.
    destruct a as [n e w|num outp|en addr outp nb dis|num inp|en addr inp nb|w]; cbn [action_typed] in Hty |- *;
      try exact Hty.
    destruct Hty as (H1 & H2 & H3 & we & Hc & Hw). split; [exact H1|]. split; [exact H2|]. split; [exact H3|].
    exists we. split; [|exact Hw]. rewrite <- Hc. apply CompleteProofs.check_ext.
    intros k _. split; [reflexivity|]. unfold consts_of. symmetry. apply Hceq.
  - intros n v Hin. apply A4. exact (Permutation_in (n, v) (Permutation_sym Pc) Hin).
  - exact (Permutation_NoDup (Permutation_map fst Pc) A5).
  - intros n Hn. apply A8. apply Hnames. exact Hn.
Qed.

Lemma table_effects_NoDup :
  NoDup (map ff_action (filter (fun ff => match ff_out ff with None => true | Some _ => false end) gen_fixed)).
Proof.
  vm_compute.
  repeat (constructor; [cbn [In]; intros H; repeat (destruct H as [H|H]; [discriminate H|]); exact H|]).
  constructor.
Qed.

Lemma same_program_order p p' :
  DiagOrderSpec.same_program p p' -> effect_part (p_actions p) = effect_part (p_actions p') ->
  OrderSpec.same_program p p'.
Proof.
  intros (Pc & Nd & Eb & Ed & Ety & Pa) He.
  split; [exact (TableProofs.lookup_perm_holds (p_consts p) (p_consts p') Nd Pc)|].
  split; [exact Pc|]. split; [rewrite Eb; apply Permutation_refl|]. split; [exact Pa|].
  split; [exact He|]. split; [rewrite Ed; apply Permutation_refl|].
  intros k. unfold type_of. rewrite Ety. reflexivity.
Qed.

Lemma gen_fixed_sched : fixed_sched_ok gen_fixed = true.
Proof. vm_compute. reflexivity. Qed.

(* everything about one program built under a hash order, against the model's program *)
Lemma with_order_facts f il iu ho stmts pm p G :
  DiagOrderSpec.ord_ok ho -> build_program f gen_fixed il iu stmts = Ok pm -> program_ok f G pm ->
  DiagOrderSpec.build_program_with f gen_fixed il iu ho stmts = Ok p ->
  DiagOrderSpec.same_program pm p /\ program_ok f G p /\
  effect_part (p_actions pm) = effect_part (p_actions p).
Proof.
  intros Hok Em POKm E1.
  pose proof (DiagOrderProofs.model_order_is_representative_holds f gen_fixed il iu gen_fixed_distinct ho stmts Hok) as Hm.
  rewrite Em, E1 in Hm. cbn [DiagOrderSpec.same_outcome_build] in Hm.
  pose proof (DiagOrderProofs.with_valid_schedule_holds f gen_fixed il iu gen_fixed_ok gen_fixed_sched ho stmts p Hok E1) as Hv.
  split; [exact Hm|]. split; [exact (same_program_ok f G pm p POKm Hm Hv)|].
  apply (subseq_perm_eq _ table_effects_NoDup).
  - exact (build_effects_in_table_order_ok f gen_fixed il iu gen_fixed_ok stmts pm Em).
  - exact (with_effects_in_table_order f gen_fixed il iu ho stmts p gen_fixed_ok Hok E1).
  - destruct Hm as (_ & _ & _ & _ & _ & Pa). unfold effect_part.
    exact (OrderProofs.Permutation_filter_gen is_effect _ _ Pa).
Qed.

Lemma initial_states_agree pm p p' G s0 s0' f il iu stmts :
  build_program f gen_fixed il iu stmts = Ok pm ->
  p_banks pm = p_banks p -> p_banks p = p_banks p' ->
  program_ok f G p -> program_ok f G p' ->
  (forall k, lookup (p_consts p) k = lookup (p_consts p') k) ->
  initial_state p = Ok s0 -> initial_state p' = Ok s0' -> OrderSpec.same_machine s0 s0'.
Proof.
  intros Em Eb Eb' POK POK' Hc Hi Hi'.
  destruct (OrderProofs.built_allsig f gen_fixed il iu stmts pm Em) as [ND Hsp]. rewrite Eb in ND, Hsp.
  unfold initial_state in Hi, Hi'.
  destruct (init_banks (p_consts p) (p_banks p)) as [v|e] eqn:E; cbn [bind] in Hi; [|discriminate Hi].
  destruct (init_banks (p_consts p') (p_banks p')) as [v'|e'] eqn:E'; cbn [bind] in Hi'; [|discriminate Hi'].
  injection Hi as <-. injection Hi' as <-. unfold OrderSpec.same_machine. cbn [values mem regs last_status cycle].
  split; [|auto].
  apply (OrderProofs.init_banks_perm (p_banks p) (p_banks p') (p_consts p) (p_consts p') v v'
           (proj1 (proj2 (proj2 POK))) (proj1 (proj2 (proj2 POK'))) ND Hsp); [|exact Hc|exact E|exact E'].
  rewrite Eb'. apply Permutation_refl.
Qed.

Theorem text_hash_order_free_holds : stmt_text_hash_order_free.
Proof.
  intros uc f il iu ho ho' utext stmts Ht Hok Hok'.
  pose proof (text_wf uc utext stmts Ht) as Hwf.
  pose proof (DiagOrderProofs.diagnostics_order_free_holds f gen_fixed il iu gen_fixed_distinct ho ho' stmts Hok Hok')
    as Hsame.
  destruct (DiagOrderSpec.build_program_with f gen_fixed il iu ho stmts) as [p|es] eqn:E1;
  destruct (DiagOrderSpec.build_program_with f gen_fixed il iu ho' stmts) as [p'|es'] eqn:E2;
    cbn [DiagOrderSpec.same_outcome_build] in Hsame.
  2:{ exact Hsame. }
  2:{ exact Hsame. }
  2:{ exact Hsame. }
  (* both accept: bring in the model's program *)
  pose proof (DiagOrderProofs.model_order_is_representative_holds f gen_fixed il iu gen_fixed_distinct ho stmts Hok) as Hm.
  rewrite E1 in Hm.
  destruct (build_program f gen_fixed il iu stmts) as [pm|em] eqn:Em; [clear Hm|contradiction Hm].
  destruct (accept_program_ok_gen f il iu gen_fixed_ok gen_fixed_widths_ok stmts pm Hwf Em) as [G POKm].
  destruct (with_order_facts f il iu ho stmts pm p G Hok Em POKm E1) as (SPm & POK & Hef).
  destruct (with_order_facts f il iu ho' stmts pm p' G Hok' Em POKm E2) as (SPm' & POK' & Hef').
  assert (He : effect_part (p_actions p) = effect_part (p_actions p')) by (rewrite <- Hef; exact Hef').
  pose proof (same_program_order p p' Hsame He) as SP.
  destruct (initial_state_safe_ok f G p POK) as [s0 [Hi Sk]].
  destruct (initial_state_safe_ok f G p' POK') as [s0' [Hi' Sk']].
  assert (Hbanks : p_banks p = p_banks p') by (destruct Hsame as (_ & _ & Eb & _); exact Eb).
  assert (Hbm : p_banks pm = p_banks p) by (destruct SPm as (_ & _ & Eb & _); exact Eb).
  pose proof (initial_states_agree pm p p' G s0 s0' f il iu stmts Em Hbm Hbanks POK POK' (proj1 SP) Hi Hi') as Hsm.
  assert (Hdump : forall o s s', OrderSpec.same_machine s s' -> dump_y86 o p s = dump_y86 o p' s').
  { intros o s s' Hs. apply (OrderProofs.dump_order_free_holds o p p' s s' Hs).
    intros l. rewrite Hbanks. reflexivity. }
  split; [exact Hsame|]. split; [exact He|]. split; [exists G; split; assumption|].
  split; [exists s0, s0'; split; [exact Hi|split; [exact Hi'|exact Hsm]]|].
  split; [|split; [|split; [exact Hdump|]]].
  - intros n o o'. unfold OrderSpec.run_cycles. rewrite Hi, Hi'. cbn [bind].
    exact (OrderProofs.iter_pair f G G p p' POK POK' SP o o' n s0 s0' Sk Sk' Hsm).
  - intros t0 t0' fuel o o' Ht0 Ht0' Hto. rewrite Hi in Ht0. injection Ht0 as <-.
    rewrite Hi' in Ht0'. injection Ht0' as <-.
    exact (OrderProofs.run_pair f G G p p' o o' POK POK' SP Hto fuel s0 s0' Sk Sk' Hsm).
  - intros t0 t0' fuel o Ht0 Ht0' Hsil. rewrite Hi in Ht0. injection Ht0 as <-.
    rewrite Hi' in Ht0'. injection Ht0' as <-.
    pose proof (OrderProofs.run_pair f G G p p' o o POK POK' SP eq_refl fuel s0 s0' Sk Sk' Hsm) as Hrun.
    unfold OutputSpec.session. unfold OrderSpec.same_run in Hrun.
    destruct (run fuel f o p s0) as [[s1 t1]|e1] eqn:R1; destruct (run fuel f o p' s0') as [[s2 t2]|e2] eqn:R2;
      cbn [bind fst snd]; try contradiction.
    + rewrite (run_silent f o p Hsil fuel s0 s1 t1 R1), (run_silent f o p' Hsil fuel s0' s2 t2 R2).
      rewrite (Hdump o s1 s2 Hrun).
      destruct (dump_y86 o p' s2) as [d|ed]; cbn [bind]; reflexivity.
    + exact Hrun.
Qed.

Theorem text_accepted_under_every_hash_order_holds : stmt_text_accepted_under_every_hash_order.
Proof.
  intros uc f il iu ho utext stmts Ht Hok.
  pose proof (DiagOrderProofs.model_order_is_representative_holds f gen_fixed il iu gen_fixed_distinct ho stmts Hok) as Hm.
  split.
  - intros [p [_ Hb]]. rewrite Hb in Hm.
    destruct (DiagOrderSpec.build_program_with f gen_fixed il iu ho stmts) as [p'|es]; [exists p'; reflexivity|contradiction].
  - intros [p' Hb']. rewrite Hb' in Hm.
    destruct (build_program f gen_fixed il iu stmts) as [p|es] eqn:Hb; [|contradiction].
    exists p. split; [exact Ht | exact Hb].
Qed.

(* ====================================================================================== *)
(* Non-vacuity: a real program text                                                       *)
(* ====================================================================================== *)
(* a two-stage design: a fetch bank P and a bank D with a counter and the fetched icode; D stalls
   for one cycle; the register file is read (port A) and written through both ports (they collide
   on %rbx in one cycle); the data memory is read every cycle and written in the odd ones.  It
   uses the constants of the compiled preamble (NOP, REG_RBX, REG_NONE, STAT_HLT, STAT_AOK) and
   ends in a comment with two non-ASCII characters (so utf8 is not the identity on it). *)
Definition lf : string := String (Ascii.ascii_of_nat 10) "".
Definition ex_source : string :=
  "register pP { pc : 64 = 0; }" ++ lf ++
  "register fD { count : 64 = 0; icode : 4 = NOP; }" ++ lf ++
  "wire next : 64, opcode : 4;" ++ lf ++
  "pc = P_pc;" ++ lf ++
  "opcode = i10bytes[4..8];" ++ lf ++
  "next = P_pc + 8;" ++ lf ++
  "p_pc = next;" ++ lf ++
  "f_count = D_count + 1; f_icode = opcode;" ++ lf ++
  "stall_D = D_count == 2 && P_pc == 16;" ++ lf ++
  "reg_srcA = D_icode;" ++ lf ++
  "reg_dstE = REG_RBX; reg_inputE = reg_outputA + D_count;" ++ lf ++
  "reg_dstM = [ D_count == 4 : REG_RBX; 1 : REG_NONE ]; reg_inputM = mem_output;" ++ lf ++
  "mem_addr = D_count << 3; mem_readbit = 1;" ++ lf ++
  "mem_writebit = D_count[0..1]; mem_input = reg_outputA ^ 0xFF;" ++ lf ++
  "Stat = [ D_count == 6 : STAT_HLT; 1 : STAT_AOK ];" ++ lf ++
  "# ".
Definition ex_utext : list N := bytes_of ex_source ++ [948; 969; 10].

(* computed once, kept as literals: 37 statements (23 of the preamble), the compiled program,
   its initial state *)
Definition ex_stmts : list stmt := Eval vm_compute in
  match parse_text test_uclass doc_tiers (program_text ex_utext) with Some l => l | None => [] end.
Definition ex_prog : program := Eval vm_compute in
  match build_program gen_features gen_fixed ascii_lower ascii_upper ex_stmts with
  | Ok p => p
  | Err _ => mkProgram [] [] [] [] []
  end.
Definition ex_img : memory := Eval vm_compute in mem_write (mem_write [] 0 0x3020 8) 32 77 8.
Definition ex_s0 : mstate := Eval vm_compute in
  match initial_state ex_prog with Ok s => s | Err _ => mkState [] [] [] None 0 end.

Lemma ex_text_is_a_text : Forall scalar ex_utext /\ List.length (utf8 ex_utext) = (List.length ex_utext + 2)%nat.
Proof. split; [apply scalar_by_computation; vm_compute; reflexivity | vm_compute; reflexivity]. Qed.

Lemma ex_statements : text_statements test_uclass ex_utext ex_stmts /\ List.length ex_stmts = 37%nat.
Proof.
  split; [split; [exact (proj1 ex_text_is_a_text)|vm_compute; reflexivity] | vm_compute; reflexivity].
Qed.

Lemma ex_accepted : accepted_as test_uclass gen_features ascii_lower ascii_upper ex_utext ex_stmts ex_prog.
Proof. split; [exact (proj1 ex_statements) | vm_compute; reflexivity]. Qed.

Lemma ex_img_wf : wf_mem ex_img.
Proof.
  change ex_img with (mem_write (mem_write [] 0 0x3020 8) 32 77 8).
  assert (H1 : wf_mem (mem_write [] 0 0x3020 8)).
  { apply (MemProofs.mem_write_ok [] 0 0x3020 8 wf_mem_nil); [rewrite MemProofs.two64_lit|]; lia. }
  apply (MemProofs.mem_write_ok _ 32 77 8 H1); [rewrite MemProofs.two64_lit|]; lia.
Qed.

(* the hypotheses of the run-level theorems: seven cycles on that image *)
Lemma ex_run :
  text_run test_uclass gen_features ascii_lower ascii_upper default_options ex_utext ex_prog ex_img 7
           (run_states 7 gen_features default_options ex_prog (load_image ex_s0 ex_img)).
Proof.
  split; [exists ex_stmts; exact ex_accepted|]. split; [exact ex_img_wf|].
  exists ex_s0. eexists. split; [vm_compute; reflexivity|]. split; [vm_compute; reflexivity | reflexivity].
Qed.

(* every port is in use, so no clause of the three histories is vacuous on this run *)
Example ex_ports :
  In port_readA (p_actions ex_prog) /\ In port_mem_read (p_actions ex_prog) /\ In port_instr (p_actions ex_prog) /\
  has_reg_write "reg_dstE" ex_prog = true /\ has_reg_write "reg_dstM" ex_prog = true /\
  has_mem_write ex_prog = true /\ List.length (p_banks ex_prog) = 2%nat /\
  ~ In port_readB (p_actions ex_prog).
Proof.
  destruct (text_ports_scheduled_holds _ _ _ _ _ _ _ ex_accepted) as (A & B & Mr & I & E & M & Mw).
  split; [apply A; vm_compute; reflexivity|]. split; [apply Mr; vm_compute; reflexivity|].
  split; [apply I; vm_compute; reflexivity|]. split; [apply E; vm_compute; reflexivity|].
  split; [apply M; vm_compute; reflexivity|]. split; [apply Mw; vm_compute; reflexivity|].
  split; [vm_compute; reflexivity|].
  intros H. pose proof (proj1 B H) as H'. vm_compute in H'. discriminate H'.
Qed.

(* the three histories, the bridge and the reachability of every state, on this run *)
Example ex_histories :
  (forall i si, nth_error (run_states 7 gen_features default_options ex_prog (load_image ex_s0 ex_img)) i = Some si ->
     reachable gen_features ex_prog si) /\
  (exists G, run_of gen_features default_options G ex_prog ex_img 7
               (run_states 7 gen_features default_options ex_prog (load_image ex_s0 ex_img))).
Proof.
  split; [exact (text_run_states_reachable_holds _ _ _ _ _ _ _ _ _ _ ex_run)|].
  exact (proj2 (proj2 (text_run_is_run_of_holds _ _ _ _ _ _ _ _ _ _ ex_run))).
Qed.
Definition ex_bank_history := text_bank_history_holds _ _ _ _ _ _ _ _ _ _ ex_run.
Definition ex_regfile_history := text_regfile_history_holds _ _ _ _ _ _ _ _ _ _ ex_run.
Definition ex_memory_history := text_memory_history_holds _ _ _ _ _ _ _ _ _ _ ex_run.

(* what the run computes: after 7 cycles %rbx holds 5 (cycle 5: the E port writes 3 + 4, the M
   port the quadword read at 32 = 77 and wins; cycle 6: 0 + 5), memory was written in the odd
   cycles, the counter stalled once *)
Example ex_run_computed :
  match nth_error (run_states 7 gen_features default_options ex_prog (load_image ex_s0 ex_img)) 7 with
  | Some s => (nth 3 (regs s) 0, byte_at (mem s) 8, byte_at (mem s) 24, byte_at (mem s) 40,
               wire s "D_count", cycle s, last_status s) = (5, 255, 255, 255, 6, 7, Some 1)
  | None => False
  end /\
  match nth_error (run_states 7 gen_features default_options ex_prog (load_image ex_s0 ex_img)) 6 with
  | Some s => nth 3 (regs s) 0 = 77
  | None => False
  end.
Proof. vm_compute. split; reflexivity. Qed.

(* C01 / C07: the setting of the cycle theorems is inhabited - declared widths exist, every state
   of the run is reachable, so each of its seven cycles is THE solution of its wire equations *)
Example ex_cycles :
  exists cv G,
    fault_free_with gen_features gen_fixed ascii_lower ascii_upper cv G ex_stmts /\
    program_ok gen_features G ex_prog /\
    forall i si, nth_error (run_states 7 gen_features default_options ex_prog (load_image ex_s0 ex_img)) i = Some si ->
      state_ok G ex_prog si /\ cycle_start ex_stmts cv si /\
      (exists v, cycle_solution gen_features G ex_stmts si v).
Proof.
  destruct (text_has_declared_widths_holds _ _ _ _ _ _ _ ex_accepted) as (cv & G & FF & POK).
  exists cv, G. split; [exact FF|]. split; [exact POK|].
  intros i si Hi. pose proof (proj1 ex_histories i si Hi) as R.
  destruct (proj2 (text_reachable_cycle_start_holds _ _ _ _ _ _ _ cv G ex_accepted FF) si R) as [SOK CS].
  split; [exact SOK|]. split; [exact CS|].
  exact (proj1 (text_cycle_has_one_solution_holds _ _ _ _ _ _ _ cv G si ex_accepted FF R)).
Qed.

(* C06: the whole run under -q stops after exactly 8 cycles with status 2 (halt) *)
Example ex_stops :
  exists s', run 9999 gen_features (set_quiet default_options) ex_prog (load_image ex_s0 ex_img) = Ok (s', "") /\
             cycle s' = 8 /\ stat_of s' = Some 2 /\ reachable gen_features ex_prog s'.
Proof.
  assert (R : reachable gen_features ex_prog (load_image ex_s0 ex_img)).
  { apply reach_load; [apply reach_init; vm_compute; reflexivity | exact ex_img_wf]. }
  pose proof (text_run_stops_exactly_holds test_uclass gen_features ascii_lower ascii_upper ex_utext ex_prog 9999%nat
                (set_quiet default_options) _ (ex_intro _ ex_stmts ex_accepted) R ltac:(vm_compute; lia)) as H.
  destruct (run 9999 gen_features (set_quiet default_options) ex_prog (load_image ex_s0 ex_img)) as [[s' t]|es] eqn:E;
    [|vm_compute in E; discriminate E].
  exists s'. destruct H as [Rs' _].
  vm_compute in E. injection E as <- <-. split; [reflexivity|]. split; [reflexivity|]. split; [reflexivity|exact Rs'].
Qed.

(* C12: with every hash collection walked backwards the builder schedules the actions of this text
   in another order - and the theorem applies *)
Example ex_hash_orders :
  match DiagOrderSpec.build_program_with gen_features gen_fixed ascii_lower ascii_upper DiagOrderProofs.ord_rev ex_stmts with
  | Ok p' => p_actions p' <> p_actions ex_prog /\ effect_part (p_actions p') = effect_part (p_actions ex_prog)
  | Err _ => False
  end.
Proof. vm_compute. split; [discriminate | reflexivity]. Qed.
Definition ex_hash_order_free :=
  text_hash_order_free_holds test_uclass gen_features ascii_lower ascii_upper DiagOrderSpec.ord_id DiagOrderProofs.ord_rev
    ex_utext ex_stmts (proj1 ex_statements) DiagOrderProofs.ord_id_ok DiagOrderProofs.ord_rev_ok.

(* ... but not to the order of the per-action lines: the draft about the whole output is false *)
Theorem text_hash_order_same_output_draft_refuted : ~ stmt_text_hash_order_same_output_draft.
Proof.
  intros H.
  destruct (DiagOrderSpec.build_program_with gen_features gen_fixed ascii_lower ascii_upper DiagOrderProofs.ord_rev ex_stmts)
    as [p'|es] eqn:E2; [|vm_compute in E2; discriminate E2].
  destruct (initial_state p') as [s0'|es] eqn:Ei'; [|vm_compute in E2; injection E2 as <-; vm_compute in Ei'; discriminate Ei'].
  specialize (H test_uclass gen_features ascii_lower ascii_upper DiagOrderSpec.ord_id DiagOrderProofs.ord_rev
                ex_utext ex_stmts ex_prog p' ex_s0 s0' 1%nat
                (set_timeout (set_trace_assignments (set_quiet default_options)) 1)
                (proj1 ex_statements) DiagOrderProofs.ord_id_ok DiagOrderProofs.ord_rev_ok).
  rewrite (DiagOrderProofs.build_with_id_holds gen_features gen_fixed ascii_lower ascii_upper ex_stmts) in H.
  specialize (H ltac:(vm_compute; reflexivity) E2 ltac:(vm_compute; reflexivity) Ei').
  vm_compute in E2. injection E2 as <-. vm_compute in Ei'. injection Ei' as <-.
  vm_compute in H. discriminate H.
Qed.

(* C17: the text is accepted under each of the 32 option sets, so it simulates identically under
   any two of them *)
Example ex_all_option_sets :
  forall f, accepted_text test_uclass f ascii_lower ascii_upper ex_utext ex_prog.
Proof.
  intros f. exists ex_stmts. split; [exact (proj1 ex_statements)|].
  destruct f as [[] [] [] [] []]; vm_compute; reflexivity.
Qed.
Definition ex_two_option_sets :=
  text_simulates_identically_under_two_sets_holds test_uclass gen_features all_off ascii_lower ascii_upper
    ex_utext ex_prog ex_prog (ex_all_option_sets gen_features) (ex_all_option_sets all_off).

(* C10: a text with a combinational loop through the register file read port *)
Definition ex_loop_utext : list N :=
  bytes_of ("reg_srcA = reg_outputA[0..4]; pc = 0; Stat = STAT_AOK;" ++ lf).
Example ex_loop_rejected :
  exists stmts c,
    text_statements test_uclass ex_loop_utext stmts /\
    build_program gen_features gen_fixed ascii_lower ascii_upper stmts = Err [mkErr WireLoop c] /\
    (wire_cycle gen_fixed stmts c \/ const_cycle stmts c) /\
    ~ fault_free gen_features gen_fixed ascii_lower ascii_upper stmts.
Proof.
  destruct (parse_text test_uclass doc_tiers (program_text ex_loop_utext)) as [stmts|] eqn:Ep;
    [|vm_compute in Ep; discriminate Ep].
  assert (Ht : text_statements test_uclass ex_loop_utext stmts).
  { split; [apply scalar_by_computation; vm_compute; reflexivity | exact Ep]. }
  assert (Hb : exists c, build_program gen_features gen_fixed ascii_lower ascii_upper stmts = Err [mkErr WireLoop c]).
  { vm_compute in Ep. injection Ep as <-. eexists. vm_compute. reflexivity. }
  destruct Hb as [c Hb]. exists stmts, c. split; [exact Ht|]. split; [exact Hb|]. split.
  - destruct (text_cyclic_is_rejected_holds test_uclass gen_features ascii_lower ascii_upper ex_loop_utext stmts Ht)
      as [_ Hreal].
    exact (proj2 (proj2 (Hreal _ c Hb (or_introl eq_refl)))).
  - intros FF.
    destruct (proj2 (text_accepted_iff_fault_free_holds test_uclass gen_features ascii_lower ascii_upper
                       ex_loop_utext stmts Ht) FF) as [p [_ Hp]].
    rewrite Hp in Hb. discriminate Hb.
Qed.

(* C01, the failing branch: a text whose first cycle divides by zero *)
Definition ex_div_utext : list N :=
  bytes_of ("register cC { n : 64 = 0; } c_n = 1 / C_n; pc = 0; Stat = STAT_AOK;" ++ lf).
Example ex_div_fails :
  exists stmts p s0,
    accepted_as test_uclass gen_features ascii_lower ascii_upper ex_div_utext stmts p /\
    initial_state p = Ok s0 /\ reachable gen_features p s0 /\
    step gen_features default_options p s0 = Err [mkErr DivisionByZero []].
Proof.
  destruct (parse_text test_uclass doc_tiers (program_text ex_div_utext)) as [stmts|] eqn:Ep;
    [|vm_compute in Ep; discriminate Ep].
  destruct (build_program gen_features gen_fixed ascii_lower ascii_upper stmts) as [p|es] eqn:Eb;
    [|vm_compute in Ep; injection Ep as <-; vm_compute in Eb; discriminate Eb].
  destruct (initial_state p) as [s0|es] eqn:Ei;
    [|vm_compute in Ep; injection Ep as <-; vm_compute in Eb; injection Eb as <-; vm_compute in Ei; discriminate Ei].
  exists stmts, p, s0.
  split; [split; [split; [apply scalar_by_computation; vm_compute; reflexivity | exact Ep] | exact Eb]|].
  split; [exact Ei|]. split; [apply reach_init; exact Ei|].
  vm_compute in Ep. injection Ep as <-. vm_compute in Eb. injection Eb as <-. vm_compute in Ei. injection Ei as <-.
  vm_compute. reflexivity.
Qed.

(* the tool: the same file handed to Tool.start_of *)
Definition ex_file_system : file_system :=
  files_of [("ex.hcl", utf8 ex_utext); ("p.yo", bytes_of halt_yo)].
Example ex_tool_start :
  exists start, start_of ex_file_system "ex.hcl" "p.yo" = Some (ex_prog, start) /\
                accepted_text test_uclass gen_features ascii_lower ascii_upper ex_utext ex_prog /\
                reachable gen_features ex_prog start.
Proof.
  destruct (start_of ex_file_system "ex.hcl" "p.yo") as [[p start]|] eqn:E; [|vm_compute in E; discriminate E].
  destruct (proj2 (proj2 setting_is_the_tools_holds) ex_file_system "ex.hcl" "p.yo" ex_utext p start
              ltac:(reflexivity) (proj1 ex_text_is_a_text) E) as (Hacc & R & _).
  assert (p = ex_prog) as ->.
  { vm_compute in E. injection E as <- _. vm_compute. reflexivity. }
  exists start. split; [reflexivity|]. split; assumption.
Qed.

Print Assumptions setting_is_the_tools_holds.
Print Assumptions text_statements_wf_holds.
Print Assumptions text_run_states_reachable_holds.
Print Assumptions text_never_misbehaves_holds.
Print Assumptions text_has_declared_widths_holds.
Print Assumptions text_reachable_cycle_start_holds.
Print Assumptions text_cycle_has_one_solution_holds.
Print Assumptions text_cycle_computes_the_solution_holds.
Print Assumptions text_schedule_independent_holds.
Print Assumptions text_statement_order_free_holds.
Print Assumptions text_run_is_run_of_holds.
Print Assumptions text_ports_scheduled_holds.
Print Assumptions text_bank_history_holds.
Print Assumptions text_regfile_history_holds.
Print Assumptions text_memory_history_holds.
Print Assumptions text_run_stops_exactly_holds.
Print Assumptions text_accepted_iff_fault_free_holds.
Print Assumptions text_single_driver_holds.
Print Assumptions text_accepted_is_acyclic_holds.
Print Assumptions text_cyclic_is_rejected_holds.
Print Assumptions text_hash_order_free_holds.
Print Assumptions text_accepted_under_every_hash_order_holds.
Print Assumptions text_hash_order_same_output_draft_refuted.
Print Assumptions text_options_only_reject_more_holds.
Print Assumptions text_simulates_identically_under_two_sets_holds.
Print Assumptions text_output_options_same_state_holds.
