(* Standard error of the composed tool (ToolErr.v): statements.

   `tool_stderr korder prog files args` is the text main_real writes on standard error (None: not
   modelled, see the head of ToolErr.v); `tool_full` puts it beside Tool.tool_main_as.

   What remains unmodelled on standard error: the operating system's text of an i/o error (the
   placeholder Diag.io_error_placeholder stands for it); the diagnostics of a syntax error that
   needs the LR parser's error recovery and of internal errors of the front end (FullDiag
   declines: None); Rust panic messages; env_logger's lines; errors while writing the diagnostics;
   for a file that is not valid UTF-8, the text Rust shows after its lossy conversion. *)
From HclV Require Import Base Expr Machine MachineSpec Build Yo Region Lexer Parser LexParseSpec TriviaSpec
                         LexLocSpec Generated Cli CliArgs CliArgsSpec Diag DiagSpec FullDiag FullDiagSpec
                         Tool ToolSpec ToolErr.
Open Scope string_scope.
Open Scope N_scope.

(* ------------------------------------------------------------------------------------------ *)
(* 0. getopts: which failure                                                                    *)
(* ------------------------------------------------------------------------------------------ *)
(* the recomputed failure exists exactly when the model of Options::parse fails *)
Definition stmt_getopts_fail_iff : Prop :=
  forall args, parse_argv args = None <-> exists f, getopts_fail args = Some f.

(* an argument the scan passes over: a positional or a well-spelled option (not `--`) *)
Definition passes (a : string) : Prop := positional a \/ exists fs, spelled a fs.
(* no option has that name: it is neither a long name nor a single short letter *)
Definition unknown_name (name : string) : Prop :=
  forall f, name <> long_name f /\ forall c, short_name f = Some c -> name <> String c "".
Definition known_name (name : string) : Prop :=
  exists f, name = long_name f \/ exists c, short_name f = Some c /\ name = String c "".
Definition no_equals (name : string) : Prop := ~ In "="%char (list_ascii_of_string name).

Definition occurrences (f : flag) (fs : list flag) : nat := List.length (filter (flag_eqb f) fs).
(* f is the first option of the table (c d q t h i ungroup-debug-wires trace-assignments version)
   that occurs at least twice in fs *)
Definition first_repeated (f : flag) (fs : list flag) : Prop :=
  exists before after, all_flags = (before ++ f :: after)%list /\
    (2 <= occurrences f fs)%nat /\ forall g, In g before -> (occurrences g fs <= 1)%nat.

(* Which failure: the scan stops at the first argument (before any `--`) that is not read, with
   - `--NAME` or `--NAME=..` for an unknown NAME (possibly empty): UnrecognizedOption NAME;
   - `--NAME=..` for a known NAME: UnexpectedArgument NAME (the name as spelled: `--d=1` gives 'd');
   - `-LETTERS` whose first letter that is no option is the character ch: UnrecognizedOption ch
     (the whole UTF-8 character);
   when every argument is read, the failure is OptionDuplicated with the LONG name of the first option
   of the table given more than once - whatever the spellings and the positions on the command line. *)
Definition stmt_getopts_fail_kinds : Prop :=
  (forall pre name post, Forall passes pre -> name <> "" -> no_equals name -> unknown_name name ->
     getopts_fail (pre ++ ("--" ++ name) :: post) = Some (UnrecognizedOption name)) /\
  (forall pre name v post, Forall passes pre -> no_equals name -> unknown_name name ->
     getopts_fail (pre ++ ("--" ++ name ++ "=" ++ v) :: post) = Some (UnrecognizedOption name)) /\
  (forall pre name v post, Forall passes pre -> known_name name ->
     getopts_fail (pre ++ ("--" ++ name ++ "=" ++ v) :: post) = Some (UnexpectedArgument name)) /\
  (forall pre letters c rest post, Forall passes pre ->
     Forall (fun l => exists f, short_name f = Some l) letters -> (forall f, short_name f <> Some c) ->
     (letters = [] -> c <> "-"%char) ->
     getopts_fail (pre ++ String "-" (string_of_list_ascii letters ++ String c rest) :: post)
     = Some (UnrecognizedOption (head_char (String c rest)))) /\
  (forall args fs ps f, reads args fs ps -> first_repeated f fs ->
     getopts_fail args = Some (OptionDuplicated (long_name f))).

(* ------------------------------------------------------------------------------------------ *)
(* (a) standard error is empty exactly with exit status 0 or the usage text                     *)
(* ------------------------------------------------------------------------------------------ *)
(* C19: "with status 1, a message on standard error (or the usage text)".  The usage text goes to
   standard OUTPUT, with nothing on standard error, in the three cases of main_real: no positional,
   more than three, exactly one without --check.  Every other failure writes a text that is not
   empty (or is not modelled: None). *)
Definition stmt_stderr_empty_iff_status_zero_or_usage : Prop :=
  forall korder prog files args,
    let r := tool_outcome files args in
    (tool_stderr korder prog files args = Some "" <-> status_of r = 0 \/ what_of r = PrintedUsage) /\
    (status_of r = 0 -> tool_stderr korder prog files args = Some "") /\
    (status_of r = 1 -> what_of r <> PrintedUsage ->
       exists why, r = OMessage why /\
         match tool_stderr korder prog files args with
         | Some text => text <> ""
         | None => why = "diagnostics" \/ why = "simulation"
         end).

(* where the model declines (None): a rejected HCL file whose diagnostics FullDiag does not model,
   or a simulation that ends in an error other than DivisionByZero / RuntimeMismatchedWidths - which
   cannot happen when the HCL file is a text (FrontWfSpec) *)
Definition stmt_stderr_modelled : Prop :=
  forall korder prog files args,
    tool_stderr korder prog files args = None ->
    exists path user, nth_error (free_of args) 0 = Some path /\ files path = Some user /\
      ((what_of (tool_outcome files args) = Message "diagnostics" /\ front_stderr_of korder path user = None) \/
       (what_of (tool_outcome files args) = Message "simulation" /\
        forall utext, user = utf8 utext -> ~ Forall scalar utext)).

(* ------------------------------------------------------------------------------------------ *)
(* (b) a final state on standard output and a message on standard error never go together       *)
(* ------------------------------------------------------------------------------------------ *)
(* Tool.v's split: an outcome is OFinal (exit status 0, standard output = the run's text and the
   final state, standard error empty) or OMessage (exit status 1, the MODEL's standard output
   empty, a message).  The one place where the Rust program has both a non-empty standard output
   and a message is the simulation that aborts: the states and texts of the cycles before the
   error are already printed (not represented: Machine.run returns no text with an error) - but
   never the final dump. *)
Definition stmt_stderr_never_with_final_state : Prop :=
  forall korder prog files args,
    let r := tool_outcome files args in
    ((exists final, final_state_of r = Some final) -> tool_stderr korder prog files args = Some "") /\
    (tool_stderr korder prog files args <> Some "" ->
       final_state_of r = None /\ status_of r = 1 /\ snd (tool_main_as prog files args) = "").

(* ------------------------------------------------------------------------------------------ *)
(* (c) which message for which cause                                                            *)
(* ------------------------------------------------------------------------------------------ *)
(* the fixed texts of the errors without a region *)
Definition io_error_text : string := "error: " ++ io_error_placeholder ++ nl.
Definition empty_file_text : string := "error: Empty input file." ++ nl.
Definition division_text : string := "error: Division by zero." ++ nl.
(* (the line has no line feed: the message is one line) *)
Definition unparseable_text (line : string) : string := "error: Could not parse '" ++ line ++ "' in .yo file." ++ nl.

(* the lines of a file as BufRead::lines gives them *)
Definition file_lines (data : list N) : list (list N) := split_lines data [].
(* `line` is the first line of the image that load_line_y86 rejects (the lines before it are loaded
   one after the other into the memory, starting from the empty one) *)
Definition first_rejected_line (data : list N) (line : list N) : Prop :=
  exists before after m,
    file_lines data = (before ++ line :: after)%list /\
    fold_left (fun om l => match om with Some m0 => load_line m0 l | None => None end) before (Some [])
    = Some m /\
    load_line m line = None.

(* One clause per cause, in the order of precedence in which CliArgs.main_in_world decides (each
   cause is the one main_in_world reports, so an earlier cause hides the later ones); `what` is the
   outcome class, equal to `snd (main_in_world (world_of files) args)` by ToolSpec (a). *)
Definition stmt_stderr_message_kinds : Prop :=
  forall korder prog files args,
    let what := what_of (tool_outcome files args) in
    let err := tool_stderr korder prog files args in
    let free := free_of args in
    (* 1. malformed options *)
    (what = Message "getopts" ->
       exists f, getopts_fail args = Some f /\ err = Some (fail_text f ++ nl)) /\
    (* help, version, the usage text, syntax OK, a final state: nothing *)
    (what = PrintedUsage \/ what = PrintedVersion \/ what = SyntaxOK \/ (exists t, what = FinalState t) ->
       err = Some "") /\
    (* 2. the HCL file cannot be read *)
    (what = Message "Error reading" ->
       exists path, nth_error free 0 = Some path /\ files path = None /\
         err = Some ("Error reading '" ++ path ++ "': " ++ io_error_placeholder ++ nl)) /\
    (* 3. the HCL file is rejected: the diagnostics of the front end, against the file named by the
          last component of the path *)
    (what = Message "diagnostics" ->
       exists path user, nth_error free 0 = Some path /\ files path = Some user /\
         err = front_stderr korder test_uclass doc_tiers gen_features gen_fixed ascii_lower ascii_upper
                            gen_preamble (str_bytes (contents_name path)) user) /\
    (* 4. the memory image is not named *.yo *)
    (what = Message "extension" ->
       exists y, nth_error free 1 = Some y /\ ~ ends_in_dot_yo y /\
         err = Some ("'" ++ y ++ "' does not have the extension .yo" ++ nl)) /\
    (* 5. the timeout is no number *)
    (what = Message "timeout" ->
       exists ts, nth_error free 2 = Some ts /\ (~ exists t, denotes_u32 ts t) /\
         err = Some ("timeout " ++ ts ++ " is not a valid number" ++ nl)) /\
    (* 6. the memory image cannot be opened *)
    (what = Message "open" ->
       exists y, nth_error free 1 = Some y /\ files y = None /\ err = Some io_error_text) /\
    (* 7. the memory image cannot be loaded *)
    (what = Message "load" ->
       exists y image, nth_error free 1 = Some y /\ files y = Some image /\
         ((file_lines image = [] /\ err = Some empty_file_text) \/
          (exists line, first_rejected_line image line /\
             err = Some (error_text ("Could not parse '" ++ string_of_bytes line ++ "' in .yo file.")) /\
             (* written out, for a file of bytes *)
             (Forall (fun b => b < 256) image -> err = Some (unparseable_text (string_of_bytes line)))))) /\
    (* 8. the simulation aborts *)
    (what = Message "simulation" ->
       exists f y p start es,
         nth_error free 0 = Some f /\ nth_error free 1 = Some y /\ start_of files f y = Some (p, start) /\
         run (N.to_nat (budget_of free)) gen_features (set_timeout default_options (budget_of free)) p start = Err es /\
         (es = [mkErr DivisionByZero []] -> err = Some division_text) /\
         (* always so when the HCL file is a text *)
         (forall utext, files f = Some (utf8 utext) -> Forall scalar utext -> err = Some division_text)).

(* ------------------------------------------------------------------------------------------ *)
(* (d) standard error depends on the file system only through the first two positionals         *)
(* ------------------------------------------------------------------------------------------ *)
Definition stmt_stderr_depends_on_files_read : Prop :=
  forall korder prog files files' args,
    (forall name, nth_error (free_of args) 0 = Some name \/ nth_error (free_of args) 1 = Some name ->
       files name = files' name) ->
    tool_stderr korder prog files args = tool_stderr korder prog files' args /\
    tool_full_with korder prog files args = tool_full_with korder prog files' args.

(* and not on the program name (the usage text, which shows it, goes to standard output) *)
Definition stmt_stderr_program_name_free : Prop :=
  forall korder prog prog' files args,
    tool_stderr korder prog files args = tool_stderr korder prog' files args.

(* ------------------------------------------------------------------------------------------ *)
(* (e) a rejected HCL file                                                                      *)
(* ------------------------------------------------------------------------------------------ *)
(* the name shown: the last component of the path *)
Definition stmt_contents_name_examples : Prop :=
  contents_name "f.hcl" = "f.hcl" /\ contents_name "./f.hcl" = "f.hcl" /\
  contents_name "a/b/../b//f.hcl" = "f.hcl" /\ contents_name "a/f.hcl/" = "f.hcl" /\
  contents_name "a/f.hcl/." = "f.hcl" /\ contents_name "/abs/f.hcl" = "f.hcl" /\
  contents_name "a/.." = "<unknown>" /\ contents_name "." = "<unknown>" /\ contents_name "/" = "<unknown>" /\
  contents_name "" = "<unknown>".

(* no '/' in it, and for a path without '/' other than "", "." and ".." it is the path itself *)
Definition stmt_contents_name_simple : Prop :=
  forall path, ~ In "/"%char (list_ascii_of_string path) -> path <> "" -> path <> "." -> path <> ".." ->
    contents_name path = path.

(* when the file is a text and its diagnostics are modelled, standard error is, for the errors `es`
   the front end reports (at least one): one block per error, in order, each starting with
   "error: " and ending with a line feed; every region of a block is headed by the user's file name
   - except that the second region of RedeclaredWire / ConstantAssigned about a name of the
   preamble is headed <builtin> (FullDiagSpec.stmt_front_stderr_shape) *)
Definition stmt_stderr_rejected_file : Prop :=
  forall korder prog files args path utext text,
    what_of (tool_outcome files args) = Message "diagnostics" ->
    nth_error (free_of args) 0 = Some path -> files path = Some (utf8 utext) -> Forall scalar utext ->
    tool_stderr korder prog files args = Some text ->
    let fname := str_bytes (contents_name path) in
    let fc := new_from_data preamble_bytes (utf8 utext) fname in
    exists es,
      front_errors korder test_uclass doc_tiers gen_features gen_fixed ascii_lower ascii_upper
                   (preamble_bytes ++ utf8 utext) = Some es /\
      es <> [] /\ text <> "" /\ DiagSpec.starts_with "error: " text /\ DiagSpec.ends_with nl text /\
      (exists blocks,
         Forall2 (fun e b => render_one test_uclass fc e = Some b /\
                             DiagSpec.starts_with "error: " b /\ DiagSpec.ends_with nl b) es blocks /\
         text = concat_strings blocks) /\
      forall e, In e es ->
        exists block ps, render_one test_uclass fc e = Some block /\ render_parts test_uclass fc e = Some ps /\
          assembled (show_region fc) ps block /\ regions_of ps = error_spans e /\
          ((forall s e', In (Rgn s e') ps ->
              exists out rest, show_region fc s e' = Some out /\
                               out = (RegionSpec.sp 5 ++ [45; 62; 32] ++ fname ++ [58] ++ rest)%list) \/
           (exists n first second,
              (e = RRedeclaredWire n first second \/ e = RConstantAssigned n first second) /\
              in_user_part (List.length preamble_bytes) first /\
              exists out rest, show_region fc (fst first) (snd first) = Some out /\
                               out = (RegionSpec.sp 5 ++ [45; 62; 32] ++ fname ++ [58] ++ rest)%list)).

(* such a file that the model's front end handles always gets its text: None only when
   front_errors declines *)
Definition stmt_stderr_rejected_file_total : Prop :=
  forall korder prog files args path utext es,
    what_of (tool_outcome files args) = Message "diagnostics" ->
    nth_error (free_of args) 0 = Some path -> files path = Some (utf8 utext) -> Forall scalar utext ->
    front_errors korder test_uclass doc_tiers gen_features gen_fixed ascii_lower ascii_upper
                 (preamble_bytes ++ utf8 utext) = Some es ->
    exists text, tool_stderr korder prog files args = Some text.
