(* Lemmas for C12: the clock edge does not depend on the order of a bank's defaults. *)
From Coq Require Import Permutation.
From HclV Require Import Base Expr Machine MachineSpec MachineProofs.
Open Scope string_scope.
Open Scope N_scope.

(* (b) the clock edge does not depend on the order in which a bank's defaults are listed *)
Definition same_bank (b b' : bank) : Prop :=
  b_label b = b_label b' /\ b_signals b = b_signals b' /\ b_stall b = b_stall b' /\
  b_bubble b = b_bubble b' /\ forall o, lookup (b_defaults b) o = lookup (b_defaults b') o.

Lemma all_outs_same banks banks' : Forall2 same_bank banks banks' -> all_outs banks = all_outs banks'.
Proof.
  induction 1 as [|b b' l l' Hb _ IH]; [reflexivity|].
  unfold all_outs in *. cbn [flat_map]. rewrite IH. unfold bank_outs.
  destruct Hb as (_ & Hs & _). rewrite Hs. reflexivity.
Qed.

Lemma in_all_outs banks k : In k (all_outs banks) ->
  exists b i w, In b banks /\ In (i, k, w) (b_signals b).
Proof.
  unfold all_outs. intros H. apply in_flat_map in H. destruct H as (b & Hb & Hk).
  unfold bank_outs in Hk. apply in_map_iff in Hk. destruct Hk as ([[i o] w] & Heq & Hin).
  cbn in Heq. subst o. exists b, i, w. split; assumption.
Qed.

Lemma forall2_in_l banks banks' b : Forall2 same_bank banks banks' -> In b banks ->
  exists b', In b' banks' /\ same_bank b b'.
Proof.
  induction 1 as [|x x' l l' Hx _ IH]; intros Hin; [destruct Hin|].
  destruct Hin as [<-|Hin].
  - exists x'. split; [left; reflexivity|exact Hx].
  - destruct (IH Hin) as (b' & Hb' & Hs). exists b'. split; [right; exact Hb'|exact Hs].
Qed.

Lemma defaults_order_free :
  forall banks banks' vals v1 v2,
    banks_wf banks -> banks_wf banks' -> Forall2 same_bank banks banks' ->
    process_banks vals banks = Ok v1 -> process_banks vals banks' = Ok v2 ->
    forall k, lookup v1 k = lookup v2 k.
Proof.
  intros banks banks' vals v1 v2 Hwf Hwf' Hsame H1 H2 k.
  destruct (clock_edge_ok banks vals v1 Hwf H1) as [Ha1 Hb1].
  destruct (clock_edge_ok banks' vals v2 Hwf' H2) as [Ha2 Hb2].
  destruct (in_dec string_dec k (all_outs banks)) as [Hin|Hnin].
  - destruct (in_all_outs banks k Hin) as (b & i & w & Hb & Hsig).
    destruct (forall2_in_l banks banks' b Hsame Hb) as (b' & Hb' & (_ & Hs & Hst & Hbu & Hd)).
    destruct (Ha1 b i k w Hb Hsig) as (st & bu & Est & Ebu & E1).
    assert (Hsig' : In (i, k, w) (b_signals b')) by (rewrite <- Hs; exact Hsig).
    destruct (Ha2 b' i k w Hb' Hsig') as (st' & bu' & Est' & Ebu' & E2).
    rewrite <- Hst in Est'. rewrite <- Hbu in Ebu'.
    rewrite Est in Est'. rewrite Ebu in Ebu'. inversion Est'. inversion Ebu'. subst st' bu'.
    rewrite E1, E2, Hd. reflexivity.
  - rewrite (Hb1 k Hnin). rewrite (all_outs_same banks banks' Hsame) in Hnin.
    rewrite (Hb2 k Hnin). reflexivity.
Qed.
