(* Proofs of OutputOrderSpec.v. *)
From Coq Require Import List NArith String Lia ZifyBool ZifyNat ZifyN Bool Permutation.
From HclV Require Import Base Expr Disasm Machine MachineSpec MachineProofs MemSpec SchedSpec SchedProofs
     Build BuildSpec Generated BuildProofs Lexer Parser LexParseSpec TriviaSpec CompleteSpec CompleteProofs
     HistorySpec HistoryProofs SemanticsSpec SemanticsProofs Cli CliArgs Tool ToolSpec ToolProofs
     TableSpec TableProofs DumpParse FrontWfSpec FrontWfProofs TextLevelSpec TextLevelProofs OutputOrderSpec.
From HclV Require OrderSpec OrderProofs DiagOrderSpec DiagOrderProofs OutputSpec OutputProofs LoopProofs.
Import ListNotations.
Open Scope string_scope.
Open Scope list_scope.
Open Scope N_scope.

(* ====================================================================================== *)
(* 1. switches                                                                            *)
(* ====================================================================================== *)
Theorem flags_and_action_lines_holds : stmt_flags_and_action_lines.
Proof.
  intros fs t. cbv zeta. unfold run_options_of, action_lines_off.
  destruct (has_flag FQuiet fs), (has_flag FDebug fs), (has_flag FTesting fs), (has_flag FUngroup fs),
           (has_flag FTrace fs); cbn; intuition congruence.
Qed.

Theorem one_instruction_port_in_table_holds : stmt_one_instruction_port_in_table.
Proof. vm_compute. reflexivity. Qed.

(* ====================================================================================== *)
(* 2. the text of one action, from values that agree with what it read and wrote          *)
(* ====================================================================================== *)
Lemma get_value_lookup vals k v : get_value vals k = Ok v -> lookup vals k = Some v.
Proof. unfold get_value. destruct (lookup vals k); [intros H; injection H as <-; reflexivity | discriminate]. Qed.

Lemma exec_action_text f o a s sa t vals :
  exec_action f o a s = Ok (sa, t) ->
  (forall k, In k (reads a) -> lookup vals k = lookup (values s) k) ->
  (forall w, written a = Some w -> lookup vals w = lookup (values sa) w) ->
  t = action_text o vals (List.length (regs s)) a.
Proof.
  intros H Hr Hw.
  destruct a as [name e w|num outp|en addr outp nb isi|num inp|en addr inp nb|w];
    cbn [exec_action action_text reads written] in *.
  - (* AAssign *)
    destruct (eval f (lookup (values s)) e) as [r0|es]; cbn [bind] in H; [|discriminate H].
    injection H as <- <-. rewrite (Hw name eq_refl). cbn [values set_values]. rewrite lookup_upd_same.
    reflexivity.
  - (* AReadReg *)
    destruct (get_value (values s) num) as [nv|es] eqn:En; cbn [bind] in H; [|discriminate H].
    apply get_value_lookup in En. rewrite (Hr num (or_introl eq_refl)), En.
    cbv zeta in H. destruct (bits nv mod two64 <? N.of_nat (List.length (regs s))) eqn:Elt.
    + injection H as <- <-. rewrite (Hw outp eq_refl). cbn [values set_values]. rewrite lookup_upd_same.
      cbn [bits andb]. reflexivity.
    + injection H as <- <-. rewrite (Hw outp eq_refl). cbn [values set_values]. rewrite lookup_upd_same.
      reflexivity.
  - (* AReadMemory *)
    assert (Een : enabled vals en = enabled (values s) en).
    { apply OrderProofs.enabled_agree. intros n Hn. apply Hr. right. exact Hn. }
    rewrite Een. destruct (enabled (values s) en) as [[|]|es]; cbn [bind] in H; [| |discriminate H].
    + destruct (get_value (values s) addr) as [av|es] eqn:Ea; cbn [bind] in H; [|discriminate H].
      apply get_value_lookup in Ea. rewrite (Hr addr (or_introl eq_refl)), Ea.
      destruct (16 <? nb); [discriminate H|]. cbv zeta in H. injection H as <- <-.
      rewrite (Hw outp eq_refl). cbn [values set_values]. rewrite lookup_upd_same. reflexivity.
    + injection H as _ <-. reflexivity.
  - (* AWriteReg *)
    destruct (get_value (values s) num) as [nv|es] eqn:En; cbn [bind] in H; [|discriminate H].
    apply get_value_lookup in En. rewrite (Hr num (or_introl eq_refl)), En.
    cbv zeta in H.
    destruct ((bits nv mod two64 <? N.of_nat (List.length (regs s))) && negb (bits nv mod two64 =? zero_register)) eqn:Eok.
    + destruct (get_value (values s) inp) as [iv|es] eqn:Ei; cbn [bind] in H; [|discriminate H].
      apply get_value_lookup in Ei. rewrite (Hr inp (or_intror (or_introl eq_refl))), Ei.
      cbv zeta in H. injection H as _ <-. reflexivity.
    + injection H as _ <-. destruct (lookup vals inp); reflexivity.
  - (* AWriteMemory *)
    assert (Een : enabled vals en = enabled (values s) en).
    { apply OrderProofs.enabled_agree. intros n Hn. apply Hr. right. right. exact Hn. }
    rewrite Een. destruct (enabled (values s) en) as [[|]|es]; cbn [bind] in H; [| |discriminate H].
    + destruct (get_value (values s) addr) as [av|es] eqn:Ea; cbn [bind] in H; [|discriminate H].
      apply get_value_lookup in Ea. rewrite (Hr addr (or_introl eq_refl)), Ea.
      destruct (get_value (values s) inp) as [iv|es] eqn:Ei; cbn [bind] in H; [|discriminate H].
      apply get_value_lookup in Ei. rewrite (Hr inp (or_intror (or_introl eq_refl))), Ei.
      destruct (16 <? nb); [discriminate H|]. injection H as _ <-. reflexivity.
    + injection H as _ <-. reflexivity.
  - (* ASetStatus *)
    destruct (get_value (values s) w) as [v|es]; cbn [bind] in H; [|discriminate H].
    injection H as _ <-. reflexivity.
Qed.

Theorem action_text_switches_holds : stmt_action_text_switches.
Proof.
  intros f o a s s' t. destruct a as [name e w|num outp|en addr outp nb isi|num inp|en addr inp nb|w];
    cbn [exec_action].
  - intros H H1. rewrite H1 in H.
    destruct (eval f (lookup (values s)) e); cbn [bind] in H; [|discriminate H]. injection H as _ <-. reflexivity.
  - intros H H2. rewrite H2 in H. revert H.
    repeat match goal with
           | |- context [bind ?r _] => destruct r; cbn [bind]
           | |- context [if ?b then _ else _] => destruct b
           end; intros H; try discriminate H; injection H as _ <-; reflexivity.
  - intros H H2 H5. rewrite H2, H5 in H. revert H.
    repeat match goal with
           | |- context [bind ?r _] => destruct r; cbn [bind]
           | |- context [if ?b then _ else _] => destruct b
           end; intros H; try discriminate H; injection H as _ <-; reflexivity.
  - intros H H2. rewrite H2 in H. revert H.
    repeat match goal with
           | |- context [bind ?r _] => destruct r; cbn [bind]
           | |- context [if ?b then _ else _] => destruct b
           end; intros H; try discriminate H; injection H as _ <-; reflexivity.
  - intros H H2. rewrite H2 in H. revert H.
    repeat match goal with
           | |- context [bind ?r _] => destruct r; cbn [bind]
           | |- context [if ?b then _ else _] => destruct b
           end; intros H; try discriminate H; injection H as _ <-; reflexivity.
  - intros H. destruct (get_value (values s) w); cbn [bind] in H; [|discriminate H].
    injection H as _ <-. reflexivity.
Qed.

Lemma exec_action_regs_length f o a s sa t :
  exec_action f o a s = Ok (sa, t) -> List.length (regs sa) = List.length (regs s).
Proof.
  destruct (is_effect a) eqn:Ee.
  - destruct a as [name e w|num outp|en addr outp nb isi|num inp|en addr inp nb|w]; try discriminate Ee;
      cbn [exec_action]; cbv zeta;
      repeat match goal with
             | |- context [bind ?r _] => destruct r; cbn [bind]
             | |- context [if ?b then _ else _] => destruct b
             end; intros H; try discriminate H; injection H as <- _; cbn [regs];
      rewrite ?set_nth_length; reflexivity.
  - intros H. destruct (state_frame_ok f o a s sa t H) as (_ & Hp & _).
    destruct (Hp Ee) as (_ & -> & _). reflexivity.
Qed.

(* ====================================================================================== *)
(* 2'. the text of a cycle's actions from the final values                                *)
(* ====================================================================================== *)
Theorem cycle_text_from_final_values_holds : stmt_cycle_text_from_final_values.
Proof.
  intros f o known acts. revert known.
  induction acts as [|a r IH]; intros known s s1 t Hv H0.
  - cbn [exec_actions] in H0. injection H0 as _ <-. reflexivity.
  - pose proof H0 as H. cbn [exec_actions] in H.
    destruct (exec_action f o a s) as [[sa ta]|e1] eqn:E1; cbn [bind fst snd] in H; [|discriminate H].
    destruct (exec_actions f o r sa) as [[s2 tr]|e2] eqn:E2; cbn [bind fst snd] in H; [|discriminate H].
    injection H as <- <-.
    destruct (settles_gen f o (a :: r) known s s2 _ Hv H0) as (_ & Hknown & _).
    unfold action_messages. cbn [map concat_strings].
    rewrite <- (exec_action_regs_length f o a s sa ta E1).
    destruct (written a) as [w|] eqn:Ew.
    + destruct (valid_cons_pure known a r w Hv Ew) as (Hreads & Hnk & Hv').
      destruct (settles_gen f o r (w :: known) sa s2 tr Hv' E2) as (_ & Hknown' & _).
      rewrite (IH (w :: known) sa s2 tr Hv' E2). unfold action_messages. f_equal.
      rewrite (exec_action_regs_length f o a s sa ta E1).
      apply (exec_action_text f o a s sa ta (values s2) E1).
      * intros k Hk. apply Hknown. apply Hreads. exact Hk.
      * intros w' Hw'. rewrite Ew in Hw'. injection Hw' as <-. apply Hknown'. left. reflexivity.
    + destruct (valid_cons_effect known a r Hv Ew) as (Hreads & _ & Hv').
      rewrite (IH known sa s2 tr Hv' E2). unfold action_messages. f_equal.
      rewrite (exec_action_regs_length f o a s sa ta E1).
      apply (exec_action_text f o a s sa ta (values s2) E1).
      * intros k Hk. apply Hknown. apply Hreads. exact Hk.
      * intros w' Hw'. rewrite Ew in Hw'. discriminate Hw'.
Qed.

Theorem messages_with_lines_off_holds : stmt_messages_with_lines_off.
Proof.
  intros o vals nregs a [H1 H2]. split.
  - intros Hd. destruct a as [name e w|num outp|en addr outp nb isi|num inp|en addr inp nb|w];
      cbn [action_text is_instr_port] in *; rewrite ?H1, ?H2, ?andb_false_r; try reflexivity.
    + destruct (lookup vals num), (lookup vals outp); cbv zeta; rewrite ?andb_false_r; reflexivity.
    + assert (Hx : isi && o_show_disassembly o = false) by (destruct isi; [exact Hd | reflexivity]).
      rewrite Hx. destruct (enabled vals en) as [[|]|]; try reflexivity.
      destruct (lookup vals addr), (lookup vals outp); reflexivity.
    + destruct (lookup vals num), (lookup vals inp); cbv zeta; rewrite ?andb_false_r; reflexivity.
    + destruct (enabled vals en) as [[|]|]; try reflexivity.
      destruct (lookup vals addr), (lookup vals inp); reflexivity.
  - intros en addr outp nb av v -> Hd Hen Ha Hv. cbn [action_text]. rewrite Hen, Ha, Hv, H2, Hd. reflexivity.
Qed.

(* ====================================================================================== *)
(* 3. two schedules of the same actions                                                   *)
(* ====================================================================================== *)
Lemma action_text_ext o vals vals' nregs a :
  (forall k, lookup vals k = lookup vals' k) -> action_text o vals nregs a = action_text o vals' nregs a.
Proof.
  intros H. destruct a as [name e w|num outp|en addr outp nb isi|num inp|en addr inp nb|w];
    cbn [action_text]; rewrite ?(OrderProofs.enabled_agree vals vals' en (fun n _ => H n)), ?H; reflexivity.
Qed.

Lemma action_text_piece o vals nregs a : OutputProofs.piece (action_text o vals nregs a).
Proof.
  destruct a as [name e w|num outp|en addr outp nb isi|num inp|en addr inp nb|w]; cbn [action_text]; cbv zeta.
  - destruct (lookup vals name); OutputProofs.piece_tac.
  - destruct (lookup vals num), (lookup vals outp); OutputProofs.piece_tac.
  - destruct (enabled vals en) as [[|]|]; [| OutputProofs.piece_tac | OutputProofs.piece_tac].
    destruct (lookup vals addr), (lookup vals outp); OutputProofs.piece_tac.
    apply OutputProofs.closed_piece, OutputProofs.trace_line_closed.
  - destruct (lookup vals num), (lookup vals inp); OutputProofs.piece_tac.
  - destruct (enabled vals en) as [[|]|]; [| OutputProofs.piece_tac | OutputProofs.piece_tac].
    destruct (lookup vals addr), (lookup vals inp); OutputProofs.piece_tac.
  - OutputProofs.piece_tac.
Qed.

Lemma messages_whole o vals nregs acts : Forall OutputSpec.whole_lines (action_messages o vals nregs acts).
Proof.
  unfold action_messages. apply Forall_forall. intros t Ht. apply in_map_iff in Ht. destruct Ht as [a [<- _]].
  apply OutputProofs.piece_whole, action_text_piece.
Qed.

(* a valid schedule is its pure actions followed by its state-changing actions *)
Lemma valid_parts : forall acts known, valid_schedule known acts = true -> acts = pure_part acts ++ effect_part acts.
Proof.
  induction acts as [|a r IH]; intros known Hv; [reflexivity|].
  destruct (written a) as [w|] eqn:Ew.
  - destruct (valid_cons_pure known a r w Hv Ew) as (_ & _ & Hv').
    unfold pure_part, effect_part. cbn [filter]. rewrite (written_pure a w Ew). cbn [negb app]. f_equal.
    exact (IH (w :: known) Hv').
  - destruct (valid_cons_effect known a r Hv Ew) as (_ & Heff & _).
    pose proof (proj1 (written_effect a) Ew) as Hae.
    assert (Hall : forall b, In b (a :: r) -> is_effect b = true).
    { intros b [<-|Hb]; [exact Hae | apply Heff; exact Hb]. }
    unfold pure_part, effect_part. rewrite (filter_all_true is_effect (a :: r) Hall).
    rewrite (filter_all_false (fun x => negb (is_effect x)) (a :: r)); [reflexivity|].
    intros b Hb. rewrite (Hall b Hb). reflexivity.
Qed.

Lemma concat_strings_app (l l' : list string) :
  concat_strings (l ++ l') = (concat_strings l ++ concat_strings l')%string.
Proof.
  induction l as [|x l IH]; cbn [app concat_strings]; [reflexivity|].
  rewrite IH, sapp_assoc. reflexivity.
Qed.

Theorem exec_actions_same_messages_holds : stmt_exec_actions_same_messages.
Proof.
  intros f o known acts acts' s s' s1 t1 (Hv & Hv' & HP & He) Hs H.
  destruct (OrderProofs.exec_pair_gen f o o known acts acts' s s' s1 t1 Hv Hv' HP He Hs H) as (s2 & t2 & E2 & Hsm).
  set (g := action_text o (values s1) (List.length (regs s))).
  exists s2, t2, (map g (pure_part acts)), (map g (pure_part acts')), (map g (effect_part acts)).
  split; [exact E2|]. split; [exact Hsm|].
  split; [|split; [|split; [|split; [|split; [reflexivity|split; reflexivity]]]]].
  - rewrite (cycle_text_from_final_values_holds f o known acts s s1 t1 Hv H). unfold action_messages.
    fold g. rewrite (valid_parts acts known Hv) at 1. rewrite map_app. reflexivity.
  - rewrite (cycle_text_from_final_values_holds f o known acts' s' s2 t2 Hv' E2). unfold action_messages.
    assert (Hregs : regs s = regs s') by (destruct Hs as (_ & _ & Hr & _); exact Hr).
    rewrite <- Hregs.
    rewrite (map_ext (action_text o (values s2) (List.length (regs s))) g).
    2:{ intros a. unfold g. symmetry. apply action_text_ext. exact (proj1 Hsm). }
    rewrite (valid_parts acts' known Hv') at 1. rewrite map_app, He. reflexivity.
  - apply Permutation_map. exact HP.
  - rewrite <- map_app. exact (messages_whole o (values s1) (List.length (regs s)) (pure_part acts ++ effect_part acts)).
Qed.

Lemma concat_map_filter {A} (g : A -> string) (h : A -> bool) (l : list A) :
  (forall a, h a = false -> g a = "") ->
  concat_strings (map g l) = concat_strings (map g (filter h l)).
Proof.
  intros H. induction l as [|a l IH]; [reflexivity|]. cbn [map filter concat_strings].
  destruct (h a) eqn:Eh; cbn [map concat_strings]; rewrite IH; [reflexivity|].
  rewrite (H a Eh). reflexivity.
Qed.

Lemma perm_short_eq {A} (l l' : list A) : Permutation l l' -> (List.length l <= 1)%nat -> l = l'.
Proof.
  intros HP Hlen. destruct l as [|x [|y l]]; cbn [List.length] in Hlen; [| |lia].
  - apply Permutation_nil in HP. subst l'. reflexivity.
  - apply Permutation_length_1_inv in HP. subst l'. reflexivity.
Qed.

Theorem exec_actions_text_order_free_holds : stmt_exec_actions_text_order_free.
Proof.
  intros f o known acts acts' s s' s1 t1 Hsame Hoff Hone Hs H.
  destruct (exec_actions_same_messages_holds f o known acts acts' s s' s1 t1 Hsame Hs H)
    as (s2 & t2 & pm & pm' & em & E2 & Hsm & Ht1 & Ht2 & _ & _ & Hpm & Hpm' & _).
  exists s2, t2. split; [exact E2|]. split; [exact Hsm|].
  destruct Hsame as (Hv & Hv' & HP & He).
  rewrite Ht1, Ht2, !concat_strings_app. f_equal. subst pm pm'. unfold action_messages.
  set (g := action_text o (values s1) (List.length (regs s))).
  set (h := fun a => is_instr_port a && o_show_disassembly o).
  assert (Hg : forall a, h a = false -> g a = "").
  { intros a Ha. exact (proj1 (messages_with_lines_off_holds o (values s1) (List.length (regs s)) a Hoff) Ha). }
  rewrite (concat_map_filter g h (pure_part acts) Hg), (concat_map_filter g h (pure_part acts') Hg).
  f_equal. f_equal.
  apply perm_short_eq; [exact (OrderProofs.Permutation_filter_gen h _ _ HP)|].
  destruct (o_show_disassembly o) eqn:Ed.
  - destruct Hone as [Hone|Hone]; [|rewrite Hone in Ed; discriminate Ed].
    rewrite (filter_ext h is_instr_port) by (intros a; unfold h; apply andb_true_r).
    rewrite (valid_parts acts known Hv), filter_app, app_length in Hone. lia.
  - rewrite (filter_all_false h (pure_part acts)); [cbn [List.length]; lia|].
    intros a _. unfold h. apply andb_false_r.
Qed.

(* the condition is needed: two instruction-memory read actions *)
Theorem exec_actions_text_order_free_draft_refuted : ~ stmt_exec_actions_text_order_free_draft.
Proof.
  intros H.
  set (a1 := AReadMemory None "a" "x" 1 true). set (a2 := AReadMemory None "b" "y" 1 true).
  set (s := mkState [("a", mkV 0 (Bits 64)); ("b", mkV 8 (Bits 64))] [] (repeat 0 16) None 0).
  assert (Hsame : same_actions ["a"; "b"] [a1; a2] [a2; a1]).
  { split; [vm_compute; reflexivity|]. split; [vm_compute; reflexivity|].
    split; [apply perm_swap | reflexivity]. }
  assert (Hoff : action_lines_off default_options) by (split; reflexivity).
  destruct (exec_actions gen_features default_options [a1; a2] s) as [[s1 t1]|e] eqn:E1;
    [|vm_compute in E1; discriminate E1].
  destruct (exec_actions gen_features default_options [a2; a1] s) as [[s2 t2]|e] eqn:E2;
    [|vm_compute in E2; discriminate E2].
  pose proof (H gen_features default_options _ _ _ s s1 t1 s2 t2 Hsame Hoff E1 E2) as Heq.
  vm_compute in E1, E2. injection E1 as _ <-. injection E2 as _ <-. discriminate Heq.
Qed.

(* ====================================================================================== *)
(* 4. a cycle, a run, a session                                                           *)
(* ====================================================================================== *)
(* ---- the wire table depends on the program only through three tests ---- *)
Definition g_in (t : wtype) : bool := match t with TBuiltinInput => true | _ => false end.
Definition g_out (t : wtype) : bool := match t with TBuiltinOutput => true | _ => false end.
Definition g_bank (t : wtype) : bool :=
  match t with TRegisterBankInput | TRegisterBankOutput | TRegisterBankSpecial => true | _ => false end.
Definition g_other (t : wtype) : bool := match t with TNormal => true | _ => false end.

Definition dump_values_gen (isconst isdef : string -> bool) (ty : string -> wtype) (o : options)
           (vals : list (string * wval)) : result string :=
  if o_group_wire_values o then
    let keys := filter (fun k => negb (isdef k)) (map fst vals) in
    do t1 <- dump_wire_subtable vals (filter (fun k => g_in (ty k)) keys)
               "Values of inputs to built-in components:" false;
    do t2 <- dump_wire_subtable vals (filter (fun k => g_out (ty k)) keys)
               "Values of outputs of built-in components:" false;
    do t3 <- dump_wire_subtable vals (filter (fun k => g_bank (ty k)) keys)
               "Values of register bank signals:" false;
    do t4 <- dump_wire_subtable vals (filter (fun k => g_other (ty k)) keys)
               "Values of other wires:" false;
    Ok (nl ++ t1 ++ t2 ++ t3 ++ t4)%string
  else
    dump_wire_subtable vals (filter (fun k => negb (isconst k) && negb (isdef k)) (map fst vals))
                       "Values of wires:" true.

Lemma dump_values_is_gen o p vals :
  dump_values o p vals =
  dump_values_gen (has (p_consts p)) (fun k => mem_str k (p_defaulted p)) (type_of p) o vals.
Proof. reflexivity. Qed.

Lemma dump_values_gen_ext c c' d d' ty ty' o vals :
  (forall k, c k = c' k) -> (forall k, d k = d' k) -> (forall k, ty k = ty' k) ->
  dump_values_gen c d ty o vals = dump_values_gen c' d' ty' o vals.
Proof.
  intros Hc Hd Hty. unfold dump_values_gen. cbv zeta.
  rewrite (filter_ext (fun k => negb (d k)) (fun k => negb (d' k))) by (intros k; rewrite Hd; reflexivity).
  rewrite (filter_ext (fun k => negb (c k) && negb (d k)) (fun k => negb (c' k) && negb (d' k)))
    by (intros k; rewrite Hc, Hd; reflexivity).
  rewrite (filter_ext (fun k => g_in (ty k)) (fun k => g_in (ty' k))) by (intros k; rewrite Hty; reflexivity).
  rewrite (filter_ext (fun k => g_out (ty k)) (fun k => g_out (ty' k))) by (intros k; rewrite Hty; reflexivity).
  rewrite (filter_ext (fun k => g_bank (ty k)) (fun k => g_bank (ty' k))) by (intros k; rewrite Hty; reflexivity).
  rewrite (filter_ext (fun k => g_other (ty k)) (fun k => g_other (ty' k))) by (intros k; rewrite Hty; reflexivity).
  reflexivity.
Qed.

Lemma table_pair o p p' vals vals' :
  OrderSpec.same_program p p' -> NoDup (map fst vals) -> NoDup (map fst vals') ->
  (forall k, lookup vals k = lookup vals' k) ->
  dump_values o p vals = dump_values o p' vals'.
Proof.
  intros (Hc & _ & _ & _ & _ & Hd & Hty) Hnd Hnd' Hl.
  rewrite (table_order_free_holds o p vals vals' Hnd (OrderProofs.lookup_eq_perm vals vals' Hnd Hnd' Hl)).
  rewrite !dump_values_is_gen. apply dump_values_gen_ext.
  - intros k. unfold has. rewrite (Hc k). reflexivity.
  - intros k. apply DiagOrderProofs.mem_str_perm. exact Hd.
  - exact Hty.
Qed.

(* ---- one cycle ---- *)
Definition step_pair_result (G G' : string -> option width) (p p' : program) (o : options)
           (r r' : result (mstate * string)) : Prop :=
  match r, r' with
  | Ok (s1, t1), Ok (s2, t2) =>
      same_state_for_output G G' p p' s1 s2 /\ cycle_text_up_to_order t1 t2 /\
      (action_lines_off o -> at_most_one_line o (p_actions p) -> t1 = t2)
  | Err e1, Err e2 => e1 = e2
  | _, _ => False
  end.

Lemma step_pair_full f G G' p p' o s s' :
  same_program_for_output f G G' p p' -> same_state_for_output G G' p p' s s' ->
  step_pair_result G G' p p' o (step f o p s) (step f o p' s').
Proof.
  intros (POK & POK' & SP & Hbanks) (Sk & Sk' & Hs & Hnd & Hnd').
  pose proof (OrderProofs.step_pair f G G' p p' POK POK' SP o o s s' Sk Sk' Hs) as Hpair.
  pose proof (step_safe_ok f o G p s POK Sk) as Hsafe.
  pose proof (step_safe_ok f o G' p' s' POK' Sk') as Hsafe'.
  pose proof (step_keys_distinct_holds f o p s) as Hk.
  pose proof (step_keys_distinct_holds f o p' s') as Hk'.
  unfold step_pair_result, OrderProofs.step_rel in *.
  destruct (step f o p s) as [[s1 t1]|e1] eqn:E1; destruct (step f o p' s') as [[s2 t2]|e2] eqn:E2;
    try exact Hpair.
  split; [split; [exact Hsafe|split; [exact Hsafe'|split; [exact Hpair|split]]]|].
  { exact (Hk s1 t1 Hnd eq_refl). }
  { exact (Hk' s2 t2 Hnd' eq_refl). }
  (* the texts *)
  unfold step in E1, E2.
  destruct (exec_actions f o (p_actions p) s) as [[sa ta]|ea] eqn:Ea; cbn [bind fst snd] in E1; [|discriminate E1].
  assert (Hsame : same_actions (known0 p) (p_actions p) (p_actions p')).
  { split; [exact (proj1 (proj2 POK))|]. split; [exact (OrderProofs.sp_valid' f G' p p' POK' SP)|].
    split; [exact (OrderProofs.sp_pure p p' SP) | exact (OrderProofs.sp_eff p p' SP)]. }
  destruct (exec_actions_same_messages_holds f o (known0 p) (p_actions p) (p_actions p') s s' sa ta Hsame Hs Ea)
    as (sb & tb & pm & pm' & em & Eb & Hsm & Hta & Htb & HPm & Hwhole & _).
  rewrite Eb in E2. cbn [bind fst snd] in E2.
  assert (Htbl : (if o_show_wire_values o then dump_values o p (values sa) else Ok "") =
                 (if o_show_wire_values o then dump_values o p' (values sb) else Ok "")).
  { destruct (o_show_wire_values o); [|reflexivity].
    apply (table_pair o p p' (values sa) (values sb) SP).
    - exact (proj2 (exec_actions_keys f o (p_actions p) s sa ta Ea) Hnd).
    - exact (proj2 (exec_actions_keys f o (p_actions p') s' sb tb Eb) Hnd').
    - exact (proj1 Hsm). }
  rewrite Htbl in E1.
  destruct (if o_show_wire_values o then dump_values o p' (values sb) else Ok "") as [tbl|et] eqn:Et;
    cbn [bind] in E1, E2; [|discriminate E1].
  destruct (process_banks (values sa) (p_banks p)) as [v2|eb]; cbn [bind] in E1; [|discriminate E1].
  destruct (process_banks (values sb) (p_banks p')) as [v2'|eb']; cbn [bind] in E2; [|discriminate E2].
  injection E1 as _ <-. injection E2 as _ <-.
  assert (Htblw : OutputSpec.whole_lines tbl).
  { destruct (o_show_wire_values o).
    - exact (OutputProofs.piece_whole _ (OutputProofs.dump_values_piece o p' (values sb) tbl Et)).
    - injection Et as <-. exists []. reflexivity. }
  split.
  - exists pm, pm', (concat_strings em ++ tbl)%string.
    rewrite Hta, Htb, !concat_strings_app, !sapp_assoc.
    split; [reflexivity|]. split; [reflexivity|]. split; [exact HPm|].
    apply Forall_app in Hwhole. destruct Hwhole as [Hwp Hwe]. split; [exact Hwp|].
    apply OutputProofs.piece_whole. apply OutputProofs.piece_app; [|exact (OutputProofs.whole_piece _ Htblw)].
    clear - Hwe. induction em as [|x em IH]; cbn [concat_strings]; [apply OutputProofs.piece_nil|].
    apply OutputProofs.piece_app;
      [exact (OutputProofs.whole_piece _ (Forall_inv Hwe)) | exact (IH (Forall_inv_tail Hwe))].
  - intros Hoff Hone.
    destruct (exec_actions_text_order_free_holds f o (known0 p) (p_actions p) (p_actions p') s s' sa ta
                Hsame Hoff Hone Hs Ea) as (sb' & tb' & Eb' & _ & Heq).
    rewrite Eb in Eb'. injection Eb' as _ <-. rewrite Heq. reflexivity.
Qed.

Theorem step_text_order_free_holds : stmt_step_text_order_free.
Proof.
  intros f G G' p p' o s s' HP HS Hoff Hone.
  pose proof (step_pair_full f G G' p p' o s s' HP HS) as H.
  unfold step_pair_result in H. unfold same_outcome_text.
  destruct (step f o p s) as [[s1 t1]|e1]; destruct (step f o p' s') as [[s2 t2]|e2]; try exact H.
  destruct H as ((_ & _ & Hsm & _) & _ & Heq). split; [exact Hsm | exact (Heq Hoff Hone)].
Qed.

Theorem step_same_lines_traced_holds : stmt_step_same_lines_traced.
Proof.
  intros f G G' p p' o s s' HP HS.
  pose proof (step_pair_full f G G' p p' o s s' HP HS) as H.
  unfold step_pair_result in H. unfold same_outcome_text.
  destruct (step f o p s) as [[s1 t1]|e1]; destruct (step f o p' s') as [[s2 t2]|e2]; try exact H.
  destruct H as ((_ & _ & Hsm & _) & Hc & _). split; [exact Hsm | exact Hc].
Qed.

(* ---- a run with prompt lines ---- *)
Definition run_pair_result (G G' : string -> option width) (p p' : program) (o : options) (prompt : string)
           (r r' : result (mstate * string)) : Prop :=
  match r, r' with
  | Ok (s1, t1), Ok (s2, t2) =>
      same_state_for_output G G' p p' s1 s2 /\ run_text_up_to_order prompt t1 t2 /\
      (action_lines_off o -> at_most_one_line o (p_actions p) -> t1 = t2)
  | Err e1, Err e2 => e1 = e2
  | _, _ => False
  end.

Lemma cycle_dump_pair f G G' p p' o s s' :
  same_program_for_output f G G' p p' -> same_state_for_output G G' p p' s s' ->
  exists d, (if o_show_regs_mem o then dump_y86 o p s else Ok "") = Ok d /\
            (if o_show_regs_mem o then dump_y86 o p' s' else Ok "") = Ok d /\ OutputSpec.whole_lines d.
Proof.
  intros (POK & POK' & SP & Hbanks) (Sk & Sk' & Hs & _).
  destruct (o_show_regs_mem o).
  - destruct (SchedProofs.dump_y86_total o G p s Sk) as [d Hd]. exists d. split; [exact Hd|].
    rewrite <- (OrderProofs.dump_order_free_holds o p p' s s' Hs Hbanks). split; [exact Hd|].
    exact (OutputProofs.piece_whole _ (OutputProofs.dump_y86_piece o p s d Hd)).
  - exists "". split; [reflexivity|]. split; [reflexivity|]. exists []. reflexivity.
Qed.

Lemma run_pair_full f G G' p p' o prompt :
  same_program_for_output f G G' p p' ->
  forall fuel s s', same_state_for_output G G' p p' s s' ->
    run_pair_result G G' p p' o prompt (run_prompting prompt fuel f o p s) (run_prompting prompt fuel f o p' s').
Proof.
  intros HP. induction fuel as [|fuel IH]; intros s s' HS; cbn [run_prompting];
    rewrite (OrderProofs.done_same o o s s' eq_refl (proj1 (proj2 (proj2 HS)))); destruct (done o s').
  - cbn. split; [exact HS|]. split; [constructor | reflexivity].
  - cbn. reflexivity.
  - cbn. split; [exact HS|]. split; [constructor | reflexivity].
  - destruct (cycle_dump_pair f G G' p p' o s s' HP HS) as (d & -> & -> & Hd). cbn [bind].
    pose proof (step_pair_full f G G' p p' o s s' HP HS) as Hst. unfold step_pair_result in Hst.
    destruct (step f o p s) as [[s1 t1]|e1]; destruct (step f o p' s') as [[s2 t2]|e2];
      cbn [bind fst snd]; try contradiction; [|exact Hst].
    destruct Hst as (HS1 & Hc & Heq).
    specialize (IH s1 s2 HS1). unfold run_pair_result in IH |- *.
    destruct (run_prompting prompt fuel f o p s1) as [[s3 t3]|e3];
    destruct (run_prompting prompt fuel f o p' s2) as [[s4 t4]|e4]; cbn [bind fst snd]; try contradiction; [|exact IH].
    destruct IH as (HS3 & Hr & Heq'). split; [exact HS3|]. split.
    + exact (rto_cycle prompt d t1 t2 t3 t4 Hd Hc Hr).
    + intros Hoff Hone. rewrite (Heq Hoff Hone), (Heq' Hoff Hone). reflexivity.
Qed.

Definition session_pair_result (G G' : string -> option width) (p p' : program) (o : options) (prompt : string)
           (r r' : result (mstate * string)) : Prop :=
  match r, r' with
  | Ok (s1, t1), Ok (s2, t2) =>
      OrderSpec.same_machine s1 s2 /\ session_text_up_to_order prompt t1 t2 /\
      (action_lines_off o -> at_most_one_line o (p_actions p) -> t1 = t2)
  | Err e1, Err e2 => e1 = e2
  | _, _ => False
  end.

Lemma session_pair_full f G G' p p' o prompt fuel s s' :
  same_program_for_output f G G' p p' -> same_state_for_output G G' p p' s s' ->
  session_pair_result G G' p p' o prompt (session_prompting prompt fuel f o p s)
                                        (session_prompting prompt fuel f o p' s').
Proof.
  intros HP HS. pose proof (run_pair_full f G G' p p' o prompt HP fuel s s' HS) as Hr.
  unfold run_pair_result in Hr. unfold session_prompting, session_pair_result.
  destruct (run_prompting prompt fuel f o p s) as [[s1 t1]|e1];
  destruct (run_prompting prompt fuel f o p' s') as [[s2 t2]|e2]; cbn [bind fst snd]; try contradiction; [|exact Hr].
  destruct Hr as (HS1 & Hrel & Heq).
  destruct HP as (POK & POK' & SP & Hbanks). destruct HS1 as (Sk & Sk' & Hs & Hn).
  destruct (SchedProofs.dump_y86_total o G p s1 Sk) as [d Hd].
  rewrite <- (OrderProofs.dump_order_free_holds o p p' s1 s2 Hs Hbanks), Hd. cbn [bind].
  split; [exact Hs|]. split.
  - exists t1, t2, d. split; [reflexivity|]. split; [reflexivity|]. split; [exact Hrel|].
    exact (OutputProofs.piece_whole _ (OutputProofs.dump_y86_piece o p s1 d Hd)).
  - intros Hoff Hone. rewrite (Heq Hoff Hone). reflexivity.
Qed.

Lemma session_prompting_empty fuel f o p s : session_prompting "" fuel f o p s = OutputSpec.session fuel f o p s.
Proof. unfold session_prompting, OutputSpec.session. rewrite run_prompting_empty. reflexivity. Qed.

Theorem run_text_order_free_holds : stmt_run_text_order_free.
Proof.
  intros f G G' p p' o prompt fuel s s' HP HS Hoff Hone.
  assert (K : forall pr, same_outcome_text eq (run_prompting pr fuel f o p s) (run_prompting pr fuel f o p' s')).
  { intros pr. pose proof (run_pair_full f G G' p p' o pr HP fuel s s' HS) as H.
    unfold run_pair_result in H. unfold same_outcome_text.
    destruct (run_prompting pr fuel f o p s) as [[s1 t1]|e1];
    destruct (run_prompting pr fuel f o p' s') as [[s2 t2]|e2]; try exact H.
    destruct H as ((_ & _ & Hsm & _) & _ & Heq). split; [exact Hsm | exact (Heq Hoff Hone)]. }
  split; [exact (K prompt)|]. rewrite <- !run_prompting_empty. exact (K "").
Qed.

Theorem session_text_order_free_holds : stmt_session_text_order_free.
Proof.
  intros f G G' p p' o prompt fuel s s' HP HS Hoff Hone.
  assert (K : forall pr, same_outcome_text eq (session_prompting pr fuel f o p s) (session_prompting pr fuel f o p' s')).
  { intros pr. pose proof (session_pair_full f G G' p p' o pr fuel s s' HP HS) as H.
    unfold session_pair_result in H. unfold same_outcome_text.
    destruct (session_prompting pr fuel f o p s) as [[s1 t1]|e1];
    destruct (session_prompting pr fuel f o p' s') as [[s2 t2]|e2]; try exact H.
    destruct H as (Hsm & _ & Heq). split; [exact Hsm | exact (Heq Hoff Hone)]. }
  split; [exact (K prompt)|]. rewrite <- !session_prompting_empty. exact (K "").
Qed.

Theorem run_same_lines_traced_holds : stmt_run_same_lines_traced.
Proof.
  intros f G G' p p' o prompt fuel s s' HP HS. split.
  - pose proof (run_pair_full f G G' p p' o prompt HP fuel s s' HS) as H.
    unfold run_pair_result in H. unfold same_outcome_text.
    destruct (run_prompting prompt fuel f o p s) as [[s1 t1]|e1];
    destruct (run_prompting prompt fuel f o p' s') as [[s2 t2]|e2]; try exact H.
    destruct H as ((_ & _ & Hsm & _) & Hr & _). split; [exact Hsm | exact Hr].
  - pose proof (session_pair_full f G G' p p' o prompt fuel s s' HP HS) as H.
    unfold session_pair_result in H. unfold same_outcome_text.
    destruct (session_prompting prompt fuel f o p s) as [[s1 t1]|e1];
    destruct (session_prompting prompt fuel f o p' s') as [[s2 t2]|e2]; try exact H.
    destruct H as (Hsm & Hr & _). split; [exact Hsm | exact Hr].
Qed.

(* ====================================================================================== *)
(* 6'. "up to the order of the messages" gives the same lines as multisets                *)
(* ====================================================================================== *)
Lemma same_lines_refl t : OutputSpec.whole_lines t -> same_lines t t.
Proof. intros [l Hl]. exists l, l. split; [exact Hl|]. split; [exact Hl | apply Permutation_refl]. Qed.

Lemma same_lines_app a a' b b' : same_lines a a' -> same_lines b b' -> same_lines (a ++ b)%string (a' ++ b')%string.
Proof.
  intros (la & la' & Ha & Ha' & Pa) (lb & lb' & Hb & Hb' & Pb).
  exists (la ++ lb), (la' ++ lb'). split; [exact (OutputProofs.lines_app a b la lb Ha Hb)|].
  split; [exact (OutputProofs.lines_app a' b' la' lb' Ha' Hb') | exact (Permutation_app Pa Pb)].
Qed.

Lemma same_lines_trans a b c : same_lines a b -> same_lines b c -> same_lines a c.
Proof.
  intros (la & lb & Ha & Hb & P1) (lb' & lc & Hb' & Hc & P2). rewrite Hb in Hb'. injection Hb' as <-.
  exists la, lc. split; [exact Ha|]. split; [exact Hc | exact (Permutation_trans P1 P2)].
Qed.

Lemma concat_whole l : Forall OutputSpec.whole_lines l -> OutputSpec.whole_lines (concat_strings l).
Proof.
  induction l as [|x l IH]; intros H; cbn [concat_strings]; [exists []; reflexivity|].
  destruct (Forall_inv H) as [lx Hx]. destruct (IH (Forall_inv_tail H)) as [ll Hl].
  exists (lx ++ ll). exact (OutputProofs.lines_app x _ lx ll Hx Hl).
Qed.

Lemma concat_perm_lines l l' : Permutation l l' -> Forall OutputSpec.whole_lines l ->
  same_lines (concat_strings l) (concat_strings l').
Proof.
  intros HP. induction HP as [|x l l' HP IH|x y l|l l' l'' HP1 IH1 HP2 IH2]; intros Hw.
  - apply same_lines_refl. exists []. reflexivity.
  - cbn [concat_strings]. apply same_lines_app; [apply same_lines_refl; exact (Forall_inv Hw)|].
    exact (IH (Forall_inv_tail Hw)).
  - cbn [concat_strings]. destruct (Forall_inv Hw) as [ly Hy].
    destruct (Forall_inv (Forall_inv_tail Hw)) as [lx Hx].
    destruct (concat_whole l (Forall_inv_tail (Forall_inv_tail Hw))) as [ll Hl].
    exists (ly ++ lx ++ ll), (lx ++ ly ++ ll).
    split; [exact (OutputProofs.lines_app y _ ly _ Hy (OutputProofs.lines_app x _ lx ll Hx Hl))|].
    split; [exact (OutputProofs.lines_app x _ lx _ Hx (OutputProofs.lines_app y _ ly ll Hy Hl))|].
    apply Permutation_app_swap_app.
  - apply (same_lines_trans _ (concat_strings l')); [exact (IH1 Hw)|].
    apply IH2. exact (Permutation_Forall HP1 Hw).
Qed.

Lemma cycle_same_lines t t' : cycle_text_up_to_order t t' -> same_lines t t'.
Proof.
  intros (pm & pm' & rest & -> & -> & HP & Hw & Hr).
  apply same_lines_app; [exact (concat_perm_lines pm pm' HP Hw) | exact (same_lines_refl rest Hr)].
Qed.

Lemma run_same_lines prompt t t' : OutputSpec.whole_lines prompt -> run_text_up_to_order prompt t t' -> same_lines t t'.
Proof.
  intros Hp H. induction H as [|d t t' r r' Hd Hc Hr IH].
  - apply same_lines_refl. exists []. reflexivity.
  - apply same_lines_app; [exact (same_lines_refl d Hd)|].
    apply same_lines_app; [exact (cycle_same_lines t t' Hc)|].
    apply same_lines_app; [exact (same_lines_refl prompt Hp) | exact IH].
Qed.

Lemma session_same_lines prompt t t' :
  OutputSpec.whole_lines prompt -> session_text_up_to_order prompt t t' -> same_lines t t'.
Proof.
  intros Hp (r & r' & d & -> & -> & Hr & Hd).
  apply same_lines_app; [exact (run_same_lines prompt r r' Hp Hr) | exact (same_lines_refl d Hd)].
Qed.

Theorem up_to_order_same_lines_holds : stmt_up_to_order_same_lines.
Proof.
  intros prompt t t' Hp. split; [exact (cycle_same_lines t t')|].
  split; [exact (run_same_lines prompt t t' Hp) | exact (session_same_lines prompt t t' Hp)].
Qed.

(* ====================================================================================== *)
(* 5. program texts under two hash orders                                                 *)
(* ====================================================================================== *)
Lemma valid_not_known : forall acts known w, valid_schedule known acts = true -> In w known ->
  forall a, In a acts -> written a <> Some w.
Proof.
  induction acts as [|a0 r IH]; intros known w Hv Hk a Ha; [destruct Ha|].
  destruct (written a0) as [w0|] eqn:Ew0.
  - destruct (valid_cons_pure known a0 r w0 Hv Ew0) as (_ & Hnk & Hv').
    destruct Ha as [<-|Ha].
    + rewrite Ew0. intros Heq. injection Heq as ->. contradiction.
    + exact (IH (w0 :: known) w Hv' (or_intror Hk) a Ha).
  - destruct (valid_cons_effect known a0 r Hv Ew0) as (_ & _ & Hv').
    destruct Ha as [<-|Ha]; [rewrite Ew0; discriminate | exact (IH known w Hv' Hk a Ha)].
Qed.

Lemma valid_filter_short (h : action -> bool) a0 w : written a0 = Some w ->
  forall acts known, valid_schedule known acts = true ->
    (forall a, In a acts -> h a = true -> a = a0) -> (List.length (filter h acts) <= 1)%nat.
Proof.
  intros Hw0. induction acts as [|a r IH]; intros known Hv Hall; [cbn; lia|].
  cbn [filter]. destruct (h a) eqn:Eh.
  - pose proof (Hall a (or_introl eq_refl) Eh) as ->.
    destruct (valid_cons_pure known a0 r w Hv Hw0) as (_ & _ & Hv').
    rewrite (filter_all_false h r); [cbn; lia|].
    intros b Hb. destruct (h b) eqn:Ehb; [|reflexivity]. exfalso.
    pose proof (Hall b (or_intror Hb) Ehb) as ->.
    exact (valid_not_known r (w :: known) w Hv' (or_introl eq_refl) a0 Hb Hw0).
  - assert (Hv' : exists known', valid_schedule known' r = true).
    { destruct (written a) as [wa|] eqn:Ewa.
      - exists (wa :: known). exact (proj2 (proj2 (valid_cons_pure known a r wa Hv Ewa))).
      - exists known. exact (proj2 (proj2 (valid_cons_effect known a r Hv Ewa))). }
    destruct Hv' as [known' Hv']. apply (IH known' Hv'). intros b Hb. apply Hall. right. exact Hb.
Qed.

Lemma model_one_instruction_port f il iu stmts pm G :
  build_program f gen_fixed il iu stmts = Ok pm -> program_ok f G pm ->
  filter is_instr_port (p_actions pm) = [port_instr].
Proof.
  intros Em POK.
  destruct (accepted_fault_free_gen_holds f il iu stmts pm Em) as (cv & G0 & FF).
  destruct (program_shape f gen_fixed il iu gen_sched_ok gen_ins_nonempty stmts cv G0 FF pm Em)
    as (_ & _ & _ & _ & _ & Hin & Hout).
  assert (Hall : forall a, In a (p_actions pm) -> is_instr_port a = true -> a = port_instr).
  { intros a Ha Hi. destruct (Hout a Ha) as [(n & e & w & -> & _)|(c & Hc & _ & ->)]; [discriminate Hi|].
    cbn [gen_fixed In] in Hc.
    repeat (destruct Hc as [<-|Hc]; [first [discriminate Hi | reflexivity]|]). contradiction. }
  assert (Hshort : (List.length (filter is_instr_port (p_actions pm)) <= 1)%nat).
  { apply (valid_filter_short is_instr_port port_instr "i10bytes" eq_refl (p_actions pm) (known0 pm)
             (proj1 (proj2 POK)) Hall). }
  assert (Hmem : In port_instr (filter is_instr_port (p_actions pm))).
  { apply filter_In. split; [|reflexivity].
    apply (Hin (gen_port 1) (gen_port_in 1 ltac:(lia))).
    apply (ff_mandatory_driven _ _ _ _ _ _ _ FF (gen_port 1) (gen_port_in 1 ltac:(lia))). reflexivity. }
  destruct (filter is_instr_port (p_actions pm)) as [|x [|y l]] eqn:E; [destruct Hmem| |cbn in Hshort; lia].
  destruct Hmem as [->|[]]. reflexivity.
Qed.

(* everything about two hash orders at once *)
Lemma hash_orders_setting uc f il iu ho ho' utext stmts p p' s0 s0' img :
  text_statements uc utext stmts -> DiagOrderSpec.ord_ok ho -> DiagOrderSpec.ord_ok ho' ->
  DiagOrderSpec.build_program_with f gen_fixed il iu ho stmts = Ok p ->
  DiagOrderSpec.build_program_with f gen_fixed il iu ho' stmts = Ok p' ->
  initial_state p = Ok s0 -> initial_state p' = Ok s0' -> wf_mem img ->
  filter is_instr_port (p_actions p) = [port_instr] /\
  exists G, same_program_for_output f G G p p' /\
            same_state_for_output G G p p' (load_image s0 img) (load_image s0' img).
Proof.
  intros Ht Hok Hok' E1 E2 Hi Hi' Hw.
  pose proof (text_wf uc utext stmts Ht) as Hwf.
  pose proof (DiagOrderProofs.diagnostics_order_free_holds f gen_fixed il iu LoopProofs.gen_fixed_distinct ho ho' stmts Hok Hok')
    as Hsame. rewrite E1, E2 in Hsame. cbn [DiagOrderSpec.same_outcome_build] in Hsame.
  pose proof (DiagOrderProofs.model_order_is_representative_holds f gen_fixed il iu LoopProofs.gen_fixed_distinct ho stmts Hok) as Hm.
  rewrite E1 in Hm.
  destruct (build_program f gen_fixed il iu stmts) as [pm|em] eqn:Em; [clear Hm|contradiction Hm].
  destruct (accept_program_ok_gen f il iu gen_fixed_ok gen_fixed_widths_ok stmts pm Hwf Em) as [G POKm].
  destruct (with_order_facts f il iu ho stmts pm p G Hok Em POKm E1) as (SPm & POK & Hef).
  destruct (with_order_facts f il iu ho' stmts pm p' G Hok' Em POKm E2) as (SPm' & POK' & Hef').
  assert (He : effect_part (p_actions p) = effect_part (p_actions p')) by (rewrite <- Hef; exact Hef').
  pose proof (same_program_order p p' Hsame He) as SP.
  assert (Hbanks : p_banks p = p_banks p') by (destruct Hsame as (_ & _ & Eb & _); exact Eb).
  assert (Hbm : p_banks pm = p_banks p) by (destruct SPm as (_ & _ & Eb & _); exact Eb).
  split.
  - pose proof (model_one_instruction_port f il iu stmts pm G Em POKm) as H1.
    destruct SPm as (_ & _ & _ & _ & _ & Pa).
    pose proof (OrderProofs.Permutation_filter_gen is_instr_port _ _ Pa) as HPf. rewrite H1 in HPf.
    exact (Permutation_length_1_inv HPf).
  - exists G. split.
    + split; [exact POK|]. split; [exact POK'|]. split; [exact SP|]. intros l. rewrite Hbanks. reflexivity.
    + destruct (initial_state_safe_ok f G p POK) as [t0 [Hi0 Sk]]. rewrite Hi in Hi0. injection Hi0 as <-.
      destruct (initial_state_safe_ok f G p' POK') as [t0' [Hi0' Sk']]. rewrite Hi' in Hi0'. injection Hi0' as <-.
      pose proof (initial_states_agree pm p p' G s0 s0' f il iu stmts Em Hbm Hbanks POK POK' (proj1 SP) Hi Hi') as Hsm.
      split; [exact (load_image_ok G p s0 img Sk Hw)|]. split; [exact (load_image_ok G p' s0' img Sk' Hw)|].
      split.
      * destruct Hsm as (Hv & _ & Hr & Hl & Hc). unfold OrderSpec.same_machine, load_image.
        cbn [values mem regs last_status cycle]. auto.
      * unfold load_image. cbn [values]. split.
        -- exact (initial_keys_distinct_holds p s0 (proj1 (proj2 (proj2 (proj2 (proj2 POK))))) Hi).
        -- exact (initial_keys_distinct_holds p' s0' (proj1 (proj2 (proj2 (proj2 (proj2 POK'))))) Hi').
Qed.

Theorem text_one_instruction_port_holds : stmt_text_one_instruction_port.
Proof.
  intros uc f il iu ho utext stmts p Ht Hok E1.
  pose proof (text_wf uc utext stmts Ht) as Hwf.
  pose proof (DiagOrderProofs.model_order_is_representative_holds f gen_fixed il iu LoopProofs.gen_fixed_distinct ho stmts Hok) as Hm.
  rewrite E1 in Hm.
  destruct (build_program f gen_fixed il iu stmts) as [pm|em] eqn:Em; [|contradiction Hm].
  destruct (accept_program_ok_gen f il iu gen_fixed_ok gen_fixed_widths_ok stmts pm Hwf Em) as [G POKm].
  pose proof (model_one_instruction_port f il iu stmts pm G Em POKm) as H1.
  destruct Hm as (_ & _ & _ & _ & _ & Pa).
  pose proof (OrderProofs.Permutation_filter_gen is_instr_port _ _ Pa) as HPf. rewrite H1 in HPf.
  exact (Permutation_length_1_inv HPf).
Qed.

Theorem text_hash_order_same_output_default_holds : stmt_text_hash_order_same_output_default.
Proof.
  intros uc f il iu ho ho' utext stmts p p' s0 s0' img o prompt fuel Ht Hok Hok' E1 E2 Hi Hi' Hw Hoff.
  destruct (hash_orders_setting uc f il iu ho ho' utext stmts p p' s0 s0' img Ht Hok Hok' E1 E2 Hi Hi' Hw)
    as (Hone & G & HP & HS).
  assert (Hone' : at_most_one_line o (p_actions p)) by (left; rewrite Hone; cbn; lia).
  split.
  - exact (proj1 (session_text_order_free_holds f G G p p' o prompt fuel _ _ HP HS Hoff Hone')).
  - exact (proj1 (run_text_order_free_holds f G G p p' o prompt fuel _ _ HP HS Hoff Hone')).
Qed.

Theorem text_hash_order_same_output_flags_holds : stmt_text_hash_order_same_output_flags.
Proof.
  intros uc f il iu ho ho' utext stmts p p' s0 s0' img fs t fuel Ht Hok Hok' E1 E2 Hi Hi' Hw Hd Htr. cbv zeta.
  apply (proj1 (text_hash_order_same_output_default_holds uc f il iu ho ho' utext stmts p p' s0 s0' img
                  (set_timeout (run_options_of fs) t) (prompt_of fs) fuel Ht Hok Hok' E1 E2 Hi Hi' Hw
                  (proj2 (proj2 (proj2 (flags_and_action_lines_holds fs t))) (conj Hd Htr)))).
Qed.

Theorem text_hash_order_same_lines_traced_holds : stmt_text_hash_order_same_lines_traced.
Proof.
  intros uc f il iu ho ho' utext stmts p p' s0 s0' img o prompt fuel Ht Hok Hok' E1 E2 Hi Hi' Hw Hp.
  destruct (hash_orders_setting uc f il iu ho ho' utext stmts p p' s0 s0' img Ht Hok Hok' E1 E2 Hi Hi' Hw)
    as (_ & G & HP & HS).
  pose proof (proj2 (run_same_lines_traced_holds f G G p p' o prompt fuel _ _ HP HS)) as H.
  unfold same_outcome_text in *.
  destruct (session_prompting prompt fuel f o p (load_image s0 img)) as [[s1 t1]|e1];
  destruct (session_prompting prompt fuel f o p' (load_image s0' img)) as [[s2 t2]|e2]; try exact H.
  destruct H as [Hsm Hr]. split; [exact Hsm|]. split; [exact Hr | exact (session_same_lines prompt t1 t2 Hp Hr)].
Qed.

(* ====================================================================================== *)
(* Non-vacuity: the example text of TextLevelProofs under two hash orders                 *)
(* ====================================================================================== *)
(* the second order: the constants and the assignments are walked backwards (DiagOrderProofs.ord_rev2);
   the schedule then differs in the assignments AND in the built-in read actions: the instruction
   memory is read after the data memory and the register file instead of before *)
Definition ex_prog_rev : program := Eval vm_compute in
  match DiagOrderSpec.build_program_with gen_features gen_fixed ascii_lower ascii_upper DiagOrderProofs.ord_rev2 ex_stmts with
  | Ok p => p
  | Err _ => mkProgram [] [] [] [] []
  end.
Definition ex_s0_rev : mstate := Eval vm_compute in
  match initial_state ex_prog_rev with Ok s => s | Err _ => mkState [] [] [] None 0 end.

Lemma ex_built_id :
  DiagOrderSpec.build_program_with gen_features gen_fixed ascii_lower ascii_upper DiagOrderSpec.ord_id ex_stmts = Ok ex_prog.
Proof. rewrite DiagOrderProofs.build_with_id_holds. vm_compute. reflexivity. Qed.
Lemma ex_built_rev :
  DiagOrderSpec.build_program_with gen_features gen_fixed ascii_lower ascii_upper DiagOrderProofs.ord_rev2 ex_stmts = Ok ex_prog_rev.
Proof. vm_compute. reflexivity. Qed.
Lemma ex_init_id : initial_state ex_prog = Ok ex_s0.
Proof. vm_compute. reflexivity. Qed.
Lemma ex_init_rev : initial_state ex_prog_rev = Ok ex_s0_rev.
Proof. vm_compute. reflexivity. Qed.

(* the two programs really are scheduled differently *)
Example ex_schedules_differ : p_actions ex_prog <> p_actions ex_prog_rev.
Proof. vm_compute. discriminate. Qed.

(* the standard output of the whole simulation (8 cycles, then halted) on the image, as the
   command line would set the options *)
Definition ex_out (p : program) (s0 : mstate) (fs : list flag) : result (mstate * string) :=
  session_prompting (prompt_of fs) 20 gen_features (set_timeout (run_options_of fs) 9999) p (load_image s0 ex_img).
Definition out_text (r : result (mstate * string)) : string := match r with Ok (_, t) => t | Err _ => "" end.

(* computed: byte-identical under no option, -q, -t, -i, -t -i --ungroup-debug-wires; and the
   texts are far from empty *)
Example ex_outputs_identical :
  out_text (ex_out ex_prog ex_s0 []) = out_text (ex_out ex_prog_rev ex_s0_rev []) /\
  out_text (ex_out ex_prog ex_s0 [FQuiet]) = out_text (ex_out ex_prog_rev ex_s0_rev [FQuiet]) /\
  out_text (ex_out ex_prog ex_s0 [FTesting]) = out_text (ex_out ex_prog_rev ex_s0_rev [FTesting]) /\
  out_text (ex_out ex_prog ex_s0 [FInteractive]) = out_text (ex_out ex_prog_rev ex_s0_rev [FInteractive]) /\
  out_text (ex_out ex_prog ex_s0 [FTesting; FInteractive; FUngroup]) =
    out_text (ex_out ex_prog_rev ex_s0_rev [FTesting; FInteractive; FUngroup]) /\
  (1000 <? slen (out_text (ex_out ex_prog ex_s0 []))) = true /\
  (slen (out_text (ex_out ex_prog ex_s0 [FQuiet])) <? slen (out_text (ex_out ex_prog ex_s0 [FTesting]))) = true.
Proof. vm_compute. repeat split; reflexivity. Qed.

(* the same, by the theorem: every flag set without -d and --trace-assignments *)
Definition ex_same_output_flags (fs : list flag) (t : N) (fuel : nat) :=
  text_hash_order_same_output_flags_holds test_uclass gen_features ascii_lower ascii_upper
    DiagOrderSpec.ord_id DiagOrderProofs.ord_rev2 ex_utext ex_stmts ex_prog ex_prog_rev ex_s0 ex_s0_rev ex_img fs t fuel
    (proj1 ex_statements) DiagOrderProofs.ord_id_ok DiagOrderProofs.ord_rev2_ok ex_built_id ex_built_rev
    ex_init_id ex_init_rev ex_img_wf.

(* under -d and under --trace-assignments the two outputs DIFFER ... *)
Example ex_traced_outputs_differ :
  out_text (ex_out ex_prog ex_s0 [FDebug]) <> out_text (ex_out ex_prog_rev ex_s0_rev [FDebug]) /\
  out_text (ex_out ex_prog ex_s0 [FTrace; FQuiet]) <> out_text (ex_out ex_prog_rev ex_s0_rev [FTrace; FQuiet]).
Proof. vm_compute. split; discriminate. Qed.

(* ... but have the same lines: cycle by cycle the same dump, the same messages up to order, the
   same wire table, then the same final dump *)
Example ex_traced_same_lines :
  forall fs,
    same_outcome_text (fun t t' => session_text_up_to_order (prompt_of fs) t t' /\ same_lines t t')
                      (ex_out ex_prog ex_s0 fs) (ex_out ex_prog_rev ex_s0_rev fs).
Proof.
  intros fs. unfold ex_out.
  apply (text_hash_order_same_lines_traced_holds test_uclass gen_features ascii_lower ascii_upper
           DiagOrderSpec.ord_id DiagOrderProofs.ord_rev2 ex_utext ex_stmts ex_prog ex_prog_rev ex_s0 ex_s0_rev ex_img
           (set_timeout (run_options_of fs) 9999) (prompt_of fs) 20%nat
           (proj1 ex_statements) DiagOrderProofs.ord_id_ok DiagOrderProofs.ord_rev2_ok ex_built_id ex_built_rev
           ex_init_id ex_init_rev ex_img_wf).
  unfold prompt_of. destruct (has_flag FInteractive fs); [|exists []; reflexivity].
  eexists. vm_compute. reflexivity.
Qed.

(* the -d run does succeed, so the statement above speaks about two texts *)
Example ex_debug_run_succeeds :
  is_ok (ex_out ex_prog ex_s0 [FDebug]) = true /\ is_ok (ex_out ex_prog_rev ex_s0_rev [FDebug]) = true.
Proof. vm_compute. split; reflexivity. Qed.

(* the characterisation of a cycle's text on the first cycle under -d: the text of the actions is
   the concatenation of their messages read off the final wire values *)
Example ex_first_cycle_messages :
  match exec_actions gen_features (run_options_of [FDebug]) (p_actions ex_prog) (load_image ex_s0 ex_img) with
  | Ok (s1, t) =>
      t = concat_strings (action_messages (run_options_of [FDebug]) (values s1) 16 (p_actions ex_prog)) /\
      (List.length (filter (fun m => negb (String.eqb m "")) 
                           (action_messages (run_options_of [FDebug]) (values s1) 16 (p_actions ex_prog))) = 5)%nat
  | Err _ => False
  end.
Proof. vm_compute. split; reflexivity. Qed.

Print Assumptions flags_and_action_lines_holds.
Print Assumptions one_instruction_port_in_table_holds.
Print Assumptions action_text_switches_holds.
Print Assumptions cycle_text_from_final_values_holds.
Print Assumptions messages_with_lines_off_holds.
Print Assumptions exec_actions_same_messages_holds.
Print Assumptions exec_actions_text_order_free_holds.
Print Assumptions exec_actions_text_order_free_draft_refuted.
Print Assumptions step_text_order_free_holds.
Print Assumptions run_text_order_free_holds.
Print Assumptions session_text_order_free_holds.
Print Assumptions text_one_instruction_port_holds.
Print Assumptions text_hash_order_same_output_default_holds.
Print Assumptions text_hash_order_same_output_flags_holds.
Print Assumptions up_to_order_same_lines_holds.
Print Assumptions step_same_lines_traced_holds.
Print Assumptions run_same_lines_traced_holds.
Print Assumptions text_hash_order_same_lines_traced_holds.
