(* C11: what reading source text must do. Statements about Lexer.lex and Parser.parse_expr. *)
From HclV Require Import Base Expr Build Lexer Parser.
Open Scope list_scope.
Open Scope N_scope.

(* ---- the documented precedence table, loosest first (the property's own sentence) -------- *)
Definition doc_tiers : list tier :=
  [ (KLeft, [LogicalOr]); (KLeft, [LogicalAnd]);
    (KNonAssoc, [Equal; NotEqual; LessEqual; GreaterEqual; Less; Greater]);
    (KIn, []);
    (KLeft, [Or]); (KLeft, [Xor]); (KLeft, [And]); (KLeft, [LeftShift; RightShift]);
    (KLeft, [Add; Sub]); (KLeft, [Mul; Div]) ].

(* ---- printing an expression as tokens ----------------------------------------------------- *)
Fixpoint bytes_of_string (s : string) : list N :=
  match s with EmptyString => [] | String c r => N_of_ascii c :: bytes_of_string r end.

Definition unop_token (u : unop) : token :=
  match u with Plus => TPlus | Negate => TMinus | Complement => TComplement | Not => TNot end.

Definition num (n : N) : token := TLit (mkV n Unl).

(* every node parenthesised *)
Fixpoint toks_full (e : expr) : list token :=
  match e with
  | EConst v => [TLit v]
  | EWire n => [TIdentifier (bytes_of_string n)]
  | EBin op l r => [TOpenParen] ++ toks_full l ++ [binop_token op] ++ toks_full r ++ [TCloseParen]
  | EUn u e1 => [unop_token u; TOpenParen] ++ toks_full e1 ++ [TCloseParen]
  | EMux a => [TOpenBracket] ++ toks_full_arms a ++ [TCloseBracket]
  | ESlice e1 lo hi => [TOpenParen] ++ toks_full e1 ++ [TCloseParen; TOpenBracket; num lo; TDotDot; num hi; TCloseBracket]
  | ECat l r => [TOpenParen] ++ toks_full l ++ [TDotDot] ++ toks_full r ++ [TCloseParen]
  | EIn e1 items => [TOpenParen] ++ toks_full e1 ++ [TIn; TOpenBrace] ++ toks_full_items items ++ [TCloseBrace; TCloseParen]
  end
with toks_full_arms (a : arms) : list token :=
  match a with
  | ANil => []
  | ACons c v rest => toks_full c ++ [TColon] ++ toks_full v ++ [TSemicolon] ++ toks_full_arms rest
  end
with toks_full_items (items : exprs) : list token :=
  match items with
  | XNil => []
  | XCons e1 rest => toks_full e1 ++ [TComma] ++ toks_full_items rest
  end.

(* what the grammar can produce: slice bounds are literals of value at most 128 *)
Fixpoint printable (e : expr) : Prop :=
  match e with
  | EConst _ | EWire _ => True
  | EBin _ l r | ECat l r => printable l /\ printable r
  | EUn _ e1 => printable e1
  | EMux a => printable_arms a
  | ESlice e1 lo hi => printable e1 /\ lo <= 128 /\ hi <= 128
  | EIn e1 items => printable e1 /\ printable_items items
  end
with printable_arms (a : arms) : Prop :=
  match a with ANil => True | ACons c v rest => printable c /\ printable v /\ printable_arms rest end
with printable_items (items : exprs) : Prop :=
  match items with XNil => True | XCons e1 rest => printable e1 /\ printable_items rest end.

Definition at_pos (t : token) : tok := (O, t, O).

(* a token after which an expression cannot continue *)
Definition continues (t : token) : bool :=
  match t with
  | TAndAnd | TOrOr | TEqual | TNotEqual | TGreaterEqual | TGreater | TLessEqual | TLess
  | TRightShift | TLeftShift | TPlus | TMinus | TAnd | TOr | TXor | TTimes | TDivide
  | TIn | TOpenBracket => true
  | _ => false
  end.
Definition stops (rest : list tok) : Prop :=
  match rest with [] => True | t :: _ => continues (tk t) = false end.

(* the fully parenthesised text of any expression is read back as that expression: the grammar
   (with the documented table) can express every expression unambiguously *)
Definition stmt_roundtrip_full : Prop :=
  forall e, printable e -> forall rest, stops rest ->
    exists fuel0, forall fuel, (fuel0 <= fuel)%nat ->
      parse_expr doc_tiers fuel (map at_pos (toks_full e) ++ rest) = Some (e, rest).

(* ---- minimal parentheses per the documented table ------------------------------------------- *)
(* level of a tier in doc_tiers: 0 = loosest.  An operand position admits tiers >= some level. *)
Definition level_of (op : binop) : nat :=
  match op with
  | LogicalOr => 0 | LogicalAnd => 1
  | Equal | NotEqual | LessEqual | GreaterEqual | Less | Greater => 2
  | Or => 4 | Xor => 5 | And => 6 | LeftShift | RightShift => 7 | Add | Sub => 8 | Mul | Div => 9
  end%nat.
Definition in_level : nat := 3%nat.
Definition term_level : nat := 10%nat.

Definition is_nonassoc (op : binop) : bool := (level_of op =? 2)%nat.

(* toks_min m e: tokens of e where a tier of level >= m is expected; parentheses only when the
   node's own level is below m.  Left operands of a left-associative operator stay at the same
   level, right operands (and both operands of a comparison, and the tested value of 'in') go
   one level tighter. *)
Fixpoint toks_min (m : nat) (e : expr) : list token :=
  let wrap (lv : nat) (ts : list token) := if (m <=? lv)%nat then ts else [TOpenParen] ++ ts ++ [TCloseParen] in
  match e with
  | EConst v => [TLit v]
  | EWire n => [TIdentifier (bytes_of_string n)]
  | EBin op l r =>
      let lv := level_of op in
      wrap lv (toks_min (if is_nonassoc op then S lv else lv) l ++ [binop_token op] ++ toks_min (S lv) r)
  | EUn u e1 => wrap term_level ([unop_token u] ++ toks_min (S term_level) e1)
  | EMux a => [TOpenBracket] ++ toks_min_arms a ++ [TCloseBracket]
  | ESlice e1 lo hi =>
      wrap term_level (toks_min (S term_level) e1 ++ [TOpenBracket; num lo; TDotDot; num hi; TCloseBracket])
  | ECat l r => [TOpenParen] ++ toks_min 0 l ++ [TDotDot] ++ toks_min 0 r ++ [TCloseParen]
  | EIn e1 items =>
      wrap in_level (toks_min (S in_level) e1 ++ [TIn; TOpenBrace] ++ toks_min_items items ++ [TCloseBrace])
  end
with toks_min_arms (a : arms) : list token :=
  match a with
  | ANil => []
  | ACons c v rest => toks_min 0 c ++ [TColon] ++ toks_min 0 v ++ [TSemicolon] ++ toks_min_arms rest
  end
with toks_min_items (items : exprs) : list token :=
  match items with
  | XNil => []
  | XCons e1 rest => toks_min 0 e1 ++ [TComma] ++ toks_min_items rest
  end.

(* a text with only the parentheses the documented table requires means the same as the fully
   parenthesised one: both are read back as the same expression *)
Definition stmt_roundtrip_min : Prop :=
  forall e, printable e -> forall rest, stops rest ->
    exists fuel0, forall fuel, (fuel0 <= fuel)%nat ->
      parse_expr doc_tiers fuel (map at_pos (toks_min 0 e) ++ rest) = Some (e, rest).

(* ---- literals ---------------------------------------------------------------------------------- *)
Definition dec_digit (d : N) : bool := (48 <=? d) && (d <=? 57).
Definition bin_digit (d : N) : bool := (48 <=? d) && (d <=? 49).
Definition hex_digit (d : N) : bool :=
  dec_digit d || ((97 <=? d) && (d <=? 102)) || ((65 <=? d) && (d <=? 70)).
Definition digit_value (d : N) : N := if d <=? 57 then d - 48 else if d <=? 70 then d - 55 else d - 87.

(* positional value, most significant digit first *)
Fixpoint positional (radix : N) (ds : list N) : N :=
  match ds with
  | [] => 0
  | d :: r => digit_value d * radix ^ N.of_nat (List.length r) + positional radix r
  end.

Definition one_token (t : token) (len : nat) : list tok * option lex_error := ([(O, t, len)], None).

(* a decimal literal denotes its value, unsized; out of range beyond 128 bits *)
Definition stmt_lex_decimal : Prop :=
  forall uc ds, ds <> [] -> forallb dec_digit ds = true ->
    lex uc ds =
    if positional 10 ds <? two128 then one_token (TLit (mkV (positional 10 ds) Unl)) (List.length ds)
    else ([], Some (LexInvalidConstant 0 (List.length ds))).

(* a hexadecimal literal, digits in either case *)
Definition stmt_lex_hex : Prop :=
  forall uc ds, ds <> [] -> forallb hex_digit ds = true ->
    lex uc ([48; 120] ++ ds) =
    if positional 16 ds <? two128 then one_token (TLit (mkV (positional 16 ds) Unl)) (2 + List.length ds)
    else ([], Some (LexInvalidConstant 0 (2 + List.length ds))).

(* a binary literal is as wide as its digit count; more than 128 digits are out of range *)
Definition stmt_lex_binary : Prop :=
  forall uc ds, ds <> [] -> forallb bin_digit ds = true ->
    lex uc ([48; 98] ++ ds) =
    if (List.length ds <=? 128)%nat
    then one_token (TLit (mkV (positional 2 ds) (Bits (N.of_nat (List.length ds))))) (2 + List.length ds)
    else ([], Some (LexInvalidConstant 0 (2 + List.length ds))).
