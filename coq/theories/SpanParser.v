(* The model parser WITH SOURCE SPANS: Parser.parse (the error-free part of src/parser.lalrpop)
   where every AST node carries the byte span that the grammar action of the real parser records
   (SpannedExpr.span, ConstDecl.name_span, WireDecl.span, Assignment.{span, names[i].1},
   RegisterDecl.span, RegisterBankDecl.{span, name_span} of src/ast.rs).  Definitions only.

   WHICH LOCATION RULE.  In src/parser.lalrpop (HEAD) every production that records a span is
   written   <start:@R> X1 ... Xn <end:@L>   (@R first, @L last).  @L / @R are EMPTY symbols that
   LALRPOP (0.19.12, build/action.rs, emit_inline_action_code) INLINES into the production; for an
   inlined empty symbol standing after p of the n symbols of the production it passes
       lookbehind (the value of @R) = end of symbol p-1   if p > 0,  START of symbol 0   if p = 0,
       lookahead  (the value of @L) = start of symbol p   if p < n,  END of symbol n-1   if p = n,
   where "start / end of a symbol" are the two locations of its (L, value, L) triple on the parser
   stack: for a token the token's own offsets, for a non-terminal the start of the FIRST and the end
   of the LAST token it was reduced from (its enclosing parentheses included, if the non-terminal
   is a parenthesised SimpleTerm).  (Only when the production has no symbol at all - n = 0 - are the
   real lookbehind / lookahead of the parser used; no span-recording production of this grammar
   is empty.)  Hence, for all the productions modelled here,
       a leading  <start:@R>  = start of the first token of the production,
       a trailing <end:@L>    = end of the last token of the production,
   - NOT "end of the previous token" / "start of the next token" as the names suggest - so spans
   begin and end at token boundaries and never cover the blanks or comments around the construct.
   (The captures in the MIDDLE of a production - WireDecl  "=" <end:@R> (end of "="),
   ConstDecl  <start:@L> ":" W <end:@R> (start of ":" .. end of the width),
   RegisterDecl  "wire" <end_wire:@R> (end of "wire"),
   Assignment  IDWithSpan <start_bracket:@R> "[" <end_bracket:@L> (end of the name / start of the first
   option) - all belong to error productions, which the model does not have: None = syntax error.)

   To apply the rule each expression parser returns, beside the node, the EXTENT of the grammar
   symbol it has reduced: (start of first token consumed, end of last token consumed).  It differs
   from the node's own span exactly for "(" Expr ")" => e, which returns the inner node unchanged
   (its span does NOT include the parentheses) while the symbol extends over the parentheses - so
   the span of  (a) + b  starts at "(" and the span of its left child at "a".

   Production by production (tokens t.. are (start, token, end)):
     IDWithSpan        ID                                  (start ID, end ID)
     SimpleTerm        CONSTANT                            the token's span
                       ID                                  the token's span
                       "(" Expr ")"                        no node: the inner node with its own span
                       "[" MuxOptions "]"                  (start "[", end "]")
                       "(" Expr ".." Expr ")"              (start "(", end ")")
     MuxOption         Expr ":" Expr                       no span of its own (two spanned nodes)
     Term              UnOp SimpleTerm                     (start of the operator, end of SimpleTerm's extent)
                       SimpleTerm "[" c ".." c "]"         (start of SimpleTerm's extent, end "]")
     BinTier           l Op r   (left assoc.)              (start of l's extent, end of r's extent)
     BinTierNonAssoc   l Op r                              (start of l's extent, end of r's extent)
     ExprIn            e "in" "{" Commas<Expr> "}"         (start of e's extent, end "}")
     WireDecl          ID ":" CONSTANT                     (start ID, end CONSTANT)
     ConstDecl         ID "=" Expr                         name_span = the ID's span
     Assignment        (ID "=")+ Expr                      span = (start of the first ID, end of Expr's extent);
                                                           names[i].1 = the i-th ID's span
     RegisterDecl      ID ":" CONSTANT "=" Expr            (start ID, end of Expr's extent)
     RegisterBankDecl  "register" ID "{" ... "}"           span = (start "register", end "}"); name_span = the ID's span
   Statements themselves (ConstDecls, WireDecls, Assignments) carry no span; the keywords "wire" and
   "const", the separating "," and the terminating ";" are in no span.

   The functions follow Parser.v line by line (same fuel, same case analysis) so that erasing the
   spans gives back Parser.parse (SpanParserProofs.erase_parse_sp_holds). *)
From HclV Require Import Base Expr Build Lexer Parser.
Open Scope list_scope.
Open Scope N_scope.

Definition srcspan := (nat * nat)%type.

Definition tstart (t : tok) : nat := fst (fst t).
Definition tend (t : tok) : nat := snd t.
Definition tspan (t : tok) : srcspan := (tstart t, tend t).

(* ---- spanned syntax ---------------------------------------------------------------------- *)
Inductive sexpr :=
| SEConst (sp : srcspan) (v : wval)
| SEBin (sp : srcspan) (op : binop) (l r : sexpr)
| SEUn (sp : srcspan) (op : unop) (e : sexpr)
| SEMux (sp : srcspan) (a : sarms)
| SEWire (sp : srcspan) (n : string)
| SESlice (sp : srcspan) (e : sexpr) (lo hi : N)
| SECat (sp : srcspan) (l r : sexpr)
| SEIn (sp : srcspan) (e : sexpr) (items : sexprs)
with sarms :=
| SANil
| SACons (c v : sexpr) (rest : sarms)
with sexprs :=
| SXNil
| SXCons (e : sexpr) (rest : sexprs).

Scheme sexpr_mind := Induction for sexpr Sort Prop
  with sarms_mind := Induction for sarms Sort Prop
  with sexprs_mind := Induction for sexprs Sort Prop.
Combined Scheme sexpr_sarms_sexprs_ind from sexpr_mind, sarms_mind, sexprs_mind.

Definition espan (e : sexpr) : srcspan :=
  match e with
  | SEConst sp _ | SEBin sp _ _ _ | SEUn sp _ _ | SEMux sp _ | SEWire sp _
  | SESlice sp _ _ _ | SECat sp _ _ | SEIn sp _ _ => sp
  end.

Definition sconst_decl := (string * srcspan * sexpr)%type.                 (* name, name_span, value *)
Definition swire_decl := (string * width * srcspan)%type.                  (* name, width, span *)
Definition sassign := (list (string * srcspan) * sexpr * srcspan)%type.       (* names with spans, value, span *)
Definition sreg_decl := (string * width * sexpr * srcspan)%type.           (* name, width, default, span *)

Inductive sstmt :=
| SSConst (decls : list sconst_decl)
| SSWire (decls : list swire_decl)
| SSAssign (assigns : list sassign)
| SSBank (name : string) (name_span : srcspan) (regs : list sreg_decl) (sp : srcspan).

(* ---- erasure ------------------------------------------------------------------------------ *)
Fixpoint erase_expr (e : sexpr) : expr :=
  match e with
  | SEConst _ v => EConst v
  | SEBin _ op l r => EBin op (erase_expr l) (erase_expr r)
  | SEUn _ op e => EUn op (erase_expr e)
  | SEMux _ a => EMux (erase_arms a)
  | SEWire _ n => EWire n
  | SESlice _ e lo hi => ESlice (erase_expr e) lo hi
  | SECat _ l r => ECat (erase_expr l) (erase_expr r)
  | SEIn _ e items => EIn (erase_expr e) (erase_exprs items)
  end
with erase_arms (a : sarms) : arms :=
  match a with
  | SANil => ANil
  | SACons c v rest => ACons (erase_expr c) (erase_expr v) (erase_arms rest)
  end
with erase_exprs (xs : sexprs) : exprs :=
  match xs with
  | SXNil => XNil
  | SXCons e rest => XCons (erase_expr e) (erase_exprs rest)
  end.

Definition erase_const_decl (d : sconst_decl) : string * expr := (fst (fst d), erase_expr (snd d)).
Definition erase_wire_decl (d : swire_decl) : string * width := fst d.
Definition erase_assign (a : sassign) : list string * expr :=
  (map fst (fst (fst a)), erase_expr (snd (fst a))).
Definition erase_reg_decl (r : sreg_decl) : string * width * expr :=
  (fst (fst (fst r)), snd (fst (fst r)), erase_expr (snd (fst r))).

Definition erase_stmt (s : sstmt) : stmt :=
  match s with
  | SSConst d => SConst (map erase_const_decl d)
  | SSWire d => SWire (map erase_wire_decl d)
  | SSAssign a => SAssign (map erase_assign a)
  | SSBank name _ regs _ => SBank name (map erase_reg_decl regs)
  end.

(* ---- the parser --------------------------------------------------------------------------- *)
Section SpanParser.
  Variable tiers : list tier.               (* loosest first *)

  (* every expression parser returns (node, extent of the reduced grammar symbol, remaining tokens) *)
  Fixpoint parse_tiers_sp (fuel : nat) (ts : list tier) (toks : list tok) {struct fuel}
    : option (sexpr * srcspan * list tok) :=
    match fuel with
    | O => None
    | S f =>
        match ts with
        | [] => parse_term_sp f toks
        | (KLeft, ops) :: rest =>
            match parse_tiers_sp f rest toks with
            | Some (l, ext, toks1) => left_loop_sp f rest ops l ext toks1
            | None => None
            end
        | (KNonAssoc, ops) :: rest =>
            match parse_tiers_sp f rest toks with
            | Some (l, ext, t :: toks1) =>
                match op_of_token ops (tk t) with
                | Some op =>
                    match parse_tiers_sp f rest toks1 with
                    | Some (r, extr, toks2) =>
                        let sp := (fst ext, snd extr) in
                        Some (SEBin sp op l r, sp, toks2)
                    | None => None
                    end
                | None => Some (l, ext, t :: toks1)
                end
            | other => other
            end
        | (KIn, _) :: rest =>
            match parse_tiers_sp f rest toks with
            | Some (l, ext, t :: toks1) =>
                if token_eqb (tk t) TIn then
                  match toks1 with
                  | t2 :: toks2 =>
                      if token_eqb (tk t2) TOpenBrace then
                        match parse_commas_exprs_sp f toks2 with
                        | Some (items, t3 :: toks3) =>
                            if token_eqb (tk t3) TCloseBrace then
                              let sp := (fst ext, tend t3) in
                              Some (SEIn sp l items, sp, toks3)
                            else None
                        | _ => None
                        end
                      else None
                  | [] => None
                  end
                else Some (l, ext, t :: toks1)
            | other => other
            end
        | (KBad, _) :: _ => None
        end
    end
  (* l (op r)* : [l] is the node built so far and [ext] the extent of the tokens it was built from *)
  with left_loop_sp (fuel : nat) (rest : list tier) (ops : list binop) (l : sexpr) (ext : srcspan)
                    (toks : list tok) {struct fuel} : option (sexpr * srcspan * list tok) :=
    match fuel with
    | O => None
    | S f =>
        match toks with
        | t :: toks1 =>
            match op_of_token ops (tk t) with
            | Some op =>
                match parse_tiers_sp f rest toks1 with
                | Some (r, extr, toks2) =>
                    let sp := (fst ext, snd extr) in
                    left_loop_sp f rest ops (SEBin sp op l r) sp toks2
                | None => None
                end
            | None => Some (l, ext, toks)
            end
        | [] => Some (l, ext, toks)
        end
    end
  with parse_term_sp (fuel : nat) (toks : list tok) {struct fuel} : option (sexpr * srcspan * list tok) :=
    match fuel with
    | O => None
    | S f =>
        match toks with
        | t :: toks1 =>
            match unop_of_token (tk t) with
            | Some u =>
                match parse_simple_sp f toks1 with
                | Some (e, exte, toks2) =>
                    let sp := (tstart t, snd exte) in
                    Some (SEUn sp u e, sp, toks2)
                | None => None
                end
            | None =>
                match parse_simple_sp f toks with
                | Some (e, exte, t1 :: t2 :: t3 :: t4 :: t5 :: toks2) =>
                    if token_eqb (tk t1) TOpenBracket then
                      match small_constant (tk t2), small_constant (tk t4) with
                      | Some lo, Some hi =>
                          if token_eqb (tk t3) TDotDot && token_eqb (tk t5) TCloseBracket
                          then let sp := (fst exte, tend t5) in
                               Some (SESlice sp e lo hi, sp, toks2)
                          else None
                      | _, _ => None
                      end
                    else Some (e, exte, t1 :: t2 :: t3 :: t4 :: t5 :: toks2)
                | Some (e, exte, t1 :: toks2) =>
                    if token_eqb (tk t1) TOpenBracket then None else Some (e, exte, t1 :: toks2)
                | other => other
                end
            end
        | [] => None
        end
    end
  with parse_simple_sp (fuel : nat) (toks : list tok) {struct fuel} : option (sexpr * srcspan * list tok) :=
    match fuel with
    | O => None
    | S f =>
        match toks with
        | t :: toks1 =>
            match tk t with
            | TLit v => Some (SEConst (tspan t) v, tspan t, toks1)
            | TIdentifier name => Some (SEWire (tspan t) (string_of_name name), tspan t, toks1)
            | TOpenParen =>
                match parse_tiers_sp f tiers toks1 with
                | Some (e, _, t2 :: toks2) =>
                    if token_eqb (tk t2) TCloseParen then Some (e, (tstart t, tend t2), toks2)
                    else if token_eqb (tk t2) TDotDot then
                      match parse_tiers_sp f tiers toks2 with
                      | Some (r, _, t3 :: toks3) =>
                          if token_eqb (tk t3) TCloseParen then
                            let sp := (tstart t, tend t3) in
                            Some (SECat sp e r, sp, toks3)
                          else None
                      | _ => None
                      end
                    else None
                | _ => None
                end
            | TOpenBracket =>
                match parse_mux_options_sp f toks1 with
                | Some (a, t2 :: toks2) =>
                    if token_eqb (tk t2) TCloseBracket then
                      let sp := (tstart t, tend t2) in
                      Some (SEMux sp a, sp, toks2)
                    else None
                | _ => None
                end
            | _ => None
            end
        | [] => None
        end
    end
  with parse_mux_options_sp (fuel : nat) (toks : list tok) {struct fuel} : option (sarms * list tok) :=
    match fuel with
    | O => None
    | S f =>
        match toks with
        | t :: _ =>
            if token_eqb (tk t) TCloseBracket then Some (SANil, toks)
            else
              match parse_tiers_sp f tiers toks with
              | Some (c, _, t1 :: toks1) =>
                  if token_eqb (tk t1) TColon then
                    match parse_tiers_sp f tiers toks1 with
                    | Some (v, _, t2 :: toks2) =>
                        if token_eqb (tk t2) TSemicolon then
                          match parse_mux_options_sp f toks2 with
                          | Some (rest, toks3) => Some (SACons c v rest, toks3)
                          | None => None
                          end
                        else Some (SACons c v SANil, t2 :: toks2)
                    | Some (v, _, []) => Some (SACons c v SANil, [])
                    | None => None
                    end
                  else None
              | _ => None
              end
        | [] => Some (SANil, toks)
        end
    end
  with parse_commas_exprs_sp (fuel : nat) (toks : list tok) {struct fuel} : option (sexprs * list tok) :=
    match fuel with
    | O => None
    | S f =>
        match toks with
        | t :: _ =>
            if token_eqb (tk t) TCloseBrace then Some (SXNil, toks)
            else
              match parse_tiers_sp f tiers toks with
              | Some (e, _, t1 :: toks1) =>
                  if token_eqb (tk t1) TComma then
                    match parse_commas_exprs_sp f toks1 with
                    | Some (rest, toks2) => Some (SXCons e rest, toks2)
                    | None => None
                    end
                  else Some (SXCons e SXNil, t1 :: toks1)
              | Some (e, _, []) => Some (SXCons e SXNil, [])
              | None => None
              end
        | [] => Some (SXNil, toks)
        end
    end.

  Definition parse_expr_sp (fuel : nat) (toks : list tok) : option (sexpr * srcspan * list tok) :=
    parse_tiers_sp fuel tiers toks.

  (* ---- declarations and statements ----------------------------------------------------- *)
  (* WireDecl: (start ID, end CONSTANT) *)
  Fixpoint parse_wire_decls_sp (fuel : nat) (toks : list tok) : option (list swire_decl * list tok) :=
    match fuel with
    | O => None
    | S f =>
        match toks with
        | t1 :: t2 :: t3 :: toks1 =>
            match tk t1, small_constant (tk t3) with
            | TIdentifier name, Some w =>
                if token_eqb (tk t2) TColon then
                  let d := (string_of_name name, Bits w, (tstart t1, tend t3)) in
                  match toks1 with
                  | t4 :: toks2 =>
                      if token_eqb (tk t4) TComma then
                        match parse_wire_decls_sp f toks2 with
                        | Some (rest, toks3) => Some (d :: rest, toks3)
                        | None => None
                        end
                      else Some ([d], toks1)
                  | [] => Some ([d], toks1)
                  end
                else None
            | TIdentifier _, None => None
            | _, _ => Some ([], toks)
            end
        | _ => match toks with
               | t1 :: _ => match tk t1 with TIdentifier _ => None | _ => Some ([], toks) end
               | [] => Some ([], toks)
               end
        end
    end.

  (* ConstDecl: name_span = the identifier *)
  Fixpoint parse_const_decls_sp (fuel : nat) (toks : list tok) : option (list sconst_decl * list tok) :=
    match fuel with
    | O => None
    | S f =>
        match toks with
        | t1 :: t2 :: toks1 =>
            match tk t1 with
            | TIdentifier name =>
                if token_eqb (tk t2) TAssign then
                  match parse_expr_sp f toks1 with
                  | Some (e, _, t3 :: toks2) =>
                      if token_eqb (tk t3) TComma then
                        match parse_const_decls_sp f toks2 with
                        | Some (rest, toks3) => Some ((string_of_name name, tspan t1, e) :: rest, toks3)
                        | None => None
                        end
                      else Some ([(string_of_name name, tspan t1, e)], t3 :: toks2)
                  | Some (e, _, []) => Some ([(string_of_name name, tspan t1, e)], [])
                  | None => None
                  end
                else None
            | _ => Some ([], toks)
            end
        | [t1] => match tk t1 with TIdentifier _ => None | _ => Some ([], toks) end
        | [] => Some ([], toks)
        end
    end.

  (* (ID "=")+ : the assigned names, each with the span of its identifier *)
  Fixpoint parse_targets_sp (fuel : nat) (toks : list tok) : list (string * srcspan) * list tok :=
    match fuel with
    | O => ([], toks)
    | S f =>
        match toks with
        | t1 :: t2 :: toks1 =>
            match tk t1 with
            | TIdentifier name =>
                if token_eqb (tk t2) TAssign then
                  let '(more, rest) := parse_targets_sp f toks1 in ((string_of_name name, tspan t1) :: more, rest)
                else ([], toks)
            | _ => ([], toks)
            end
        | _ => ([], toks)
        end
    end.

  (* Assignment: (start of the first name, end of the value's extent) *)
  Fixpoint parse_assignments_sp (fuel : nat) (toks : list tok) : option (list sassign * list tok) :=
    match fuel with
    | O => None
    | S f =>
        let '(names, toks1) := parse_targets_sp (List.length toks) toks in
        match names with
        | [] => None
        | n0 :: _ =>
            match parse_expr_sp f toks1 with
            | Some (e, exte, t :: toks2) =>
                let a := (names, e, (fst (snd n0), snd exte)) in
                if token_eqb (tk t) TComma then
                  match toks2 with
                  | t2 :: _ =>
                      match tk t2 with
                      | TIdentifier _ =>
                          match parse_assignments_sp f toks2 with
                          | Some (rest, toks3) => Some (a :: rest, toks3)
                          | None => None
                          end
                      | _ => Some ([a], toks2)          (* trailing comma *)
                      end
                  | [] => Some ([a], toks2)
                  end
                else Some ([a], t :: toks2)
            | Some (e, exte, []) => Some ([(names, e, (fst (snd n0), snd exte))], [])
            | None => None
            end
        end
    end.

  (* RegisterDecl: (start ID, end of the default value's extent) *)
  Fixpoint parse_register_decls_sp (fuel : nat) (toks : list tok) : option (list sreg_decl * list tok) :=
    match fuel with
    | O => None
    | S f =>
        match toks with
        | t1 :: t2 :: t3 :: t4 :: toks1 =>
            match tk t1, small_constant (tk t3) with
            | TIdentifier name, Some w =>
                if token_eqb (tk t2) TColon && token_eqb (tk t4) TAssign then
                  match parse_expr_sp f toks1 with
                  | Some (e, exte, t5 :: toks2) =>
                      let r := (string_of_name name, Bits w, e, (tstart t1, snd exte)) in
                      if token_eqb (tk t5) TSemicolon then
                        match parse_register_decls_sp f toks2 with
                        | Some (rest, toks3) => Some (r :: rest, toks3)
                        | None => None
                        end
                      else Some ([r], t5 :: toks2)
                  | Some (e, exte, []) => Some ([(string_of_name name, Bits w, e, (tstart t1, snd exte))], [])
                  | None => None
                  end
                else None
            | TIdentifier _, None => None
            | _, _ => Some ([], toks)
            end
        | t1 :: _ => match tk t1 with TIdentifier _ => None | _ => Some ([], toks) end
        | [] => Some ([], toks)
        end
    end.

  (* RegisterBankDecl: srcspan = (start "register", end "}"), name_span = the identifier *)
  Definition parse_statement_sp (fuel : nat) (toks : list tok) : option (sstmt * stmt_kind * list tok) :=
    match toks with
    | t :: toks1 =>
        match tk t with
        | TWire =>
            match parse_wire_decls_sp fuel toks1 with
            | Some (d, rest) => Some (SSWire d, NeedSemi, rest)
            | None => None
            end
        | TConst =>
            match parse_const_decls_sp fuel toks1 with
            | Some (d, rest) => Some (SSConst d, NeedSemi, rest)
            | None => None
            end
        | TRegister =>
            match toks1 with
            | t1 :: t2 :: toks2 =>
                match tk t1 with
                | TIdentifier name =>
                    if token_eqb (tk t2) TOpenBrace then
                      match parse_register_decls_sp fuel toks2 with
                      | Some (regs, t3 :: rest) =>
                          if token_eqb (tk t3) TCloseBrace
                          then Some (SSBank (string_of_name name) (tspan t1) regs (tstart t, tend t3), NoSemi, rest)
                          else None
                      | _ => None
                      end
                    else None
                | _ => None
                end
            | _ => None
            end
        | TIdentifier _ =>
            match parse_assignments_sp fuel toks with
            | Some (a, rest) => Some (SSAssign a, NeedSemi, rest)
            | None => None
            end
        | _ => None
        end
    | [] => None
    end.

  Fixpoint parse_statements_sp (fuel : nat) (toks : list tok) (seen_one : bool) (acc : list sstmt)
    : option (list sstmt) :=
    match fuel with
    | O => None
    | S f =>
        match toks with
        | [] => if seen_one then Some (rev acc) else None
        | t :: toks1 =>
            if token_eqb (tk t) TSemicolon then
              if seen_one then parse_statements_sp f toks1 true acc else None
            else
              match parse_statement_sp (20 * S (List.length toks)) toks with
              | Some (s, NoSemi, rest) => parse_statements_sp f rest true (s :: acc)
              | Some (s, NeedSemi, t2 :: rest) =>
                  if token_eqb (tk t2) TSemicolon then parse_statements_sp f rest true (s :: acc) else None
              | Some (s, NeedSemi, []) => if seen_one then Some (rev (s :: acc)) else None
              | None => None
              end
        end
    end.

  Definition parse_sp (toks : list tok) : option (list sstmt) :=
    parse_statements_sp (S (List.length toks)) toks false [].
End SpanParser.

(* text -> spanned statements *)
Definition parse_text_sp (uclass_of : N -> uclass) (tiers : list tier) (bytes : list N) : option (list sstmt) :=
  match lex uclass_of bytes with
  | (toks, None) => parse_sp tiers toks
  | (_, Some _) => None
  end.
