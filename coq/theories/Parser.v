(* Model of the error-free part of src/parser.lalrpop: a recursive-descent / precedence-climbing
   parser over the token list, PARAMETRIC in the precedence table (loosest tier first) that
   tools/translate.py scrapes from the grammar into Generated.gen_tiers.  Every error-recovery
   production of the grammar records an error, so a text is accepted iff it is derivable in the
   clean grammar; recovery itself is not modelled (None = syntax error). *)
From HclV Require Import Base Expr Build Lexer.
Open Scope list_scope.
Open Scope N_scope.

Definition tok := (nat * token * nat)%type.
Definition tk (t : tok) : token := snd (fst t).

Definition token_eqb (a b : token) : bool :=
  match a, b with
  | TAndAnd, TAndAnd | TOrOr, TOrOr | TEqual, TEqual | TNotEqual, TNotEqual
  | TGreaterEqual, TGreaterEqual | TGreater, TGreater | TLessEqual, TLessEqual | TLess, TLess
  | TAssign, TAssign | TRightShift, TRightShift | TLeftShift, TLeftShift | TComma, TComma
  | TSemicolon, TSemicolon | TPlus, TPlus | TMinus, TMinus | TAnd, TAnd | TOr, TOr | TXor, TXor
  | TTimes, TTimes | TDivide, TDivide | TNot, TNot | TOpenParen, TOpenParen
  | TCloseParen, TCloseParen | TOpenBrace, TOpenBrace | TCloseBrace, TCloseBrace
  | TOpenBracket, TOpenBracket | TCloseBracket, TCloseBracket | TColon, TColon
  | TComplement, TComplement | TDotDot, TDotDot | TWire, TWire | TConst, TConst
  | TRegister, TRegister | TIn, TIn => true
  | _, _ => false
  end.

(* the token of each binary operator (the extern block of the grammar) *)
Definition binop_token (op : binop) : token :=
  match op with
  | Add => TPlus | Sub => TMinus | Mul => TTimes | Div => TDivide | Or => TOr | Xor => TXor
  | And => TAnd | Equal => TEqual | NotEqual => TNotEqual | LessEqual => TLessEqual
  | GreaterEqual => TGreaterEqual | Less => TLess | Greater => TGreater
  | LogicalAnd => TAndAnd | LogicalOr => TOrOr | LeftShift => TLeftShift | RightShift => TRightShift
  end.

Definition tier := (tier_kind * list binop)%type.

Definition op_of_token (ops : list binop) (t : token) : option binop :=
  find (fun op => token_eqb (binop_token op) t) ops.

Definition unop_of_token (t : token) : option unop :=
  match t with
  | TPlus => Some Plus | TMinus => Some Negate | TComplement => Some Complement | TNot => Some Not
  | _ => None
  end.

Definition string_of_name (name : list N) : string := string_of_bytes name.

(* WidthConstant / SimpleConstant: a literal whose VALUE is at most 128 *)
Definition small_constant (t : token) : option N :=
  match t with
  | TLit v => if bits v <=? 128 then Some (bits v) else None
  | _ => None
  end.

Section Parser.
  Variable tiers : list tier.               (* loosest first *)

  (* parse_expr fuel toks = Some (e, rest) *)
  Fixpoint parse_tiers (fuel : nat) (ts : list tier) (toks : list tok) {struct fuel} : option (expr * list tok) :=
    match fuel with
    | O => None
    | S f =>
        match ts with
        | [] => parse_term f toks
        | (KLeft, ops) :: rest =>
            match parse_tiers f rest toks with
            | Some (l, toks1) => left_loop f rest ops l toks1
            | None => None
            end
        | (KNonAssoc, ops) :: rest =>
            match parse_tiers f rest toks with
            | Some (l, t :: toks1) =>
                match op_of_token ops (tk t) with
                | Some op =>
                    match parse_tiers f rest toks1 with
                    | Some (r, toks2) => Some (EBin op l r, toks2)
                    | None => None
                    end
                | None => Some (l, t :: toks1)
                end
            | other => other
            end
        | (KIn, _) :: rest =>
            match parse_tiers f rest toks with
            | Some (l, t :: toks1) =>
                if token_eqb (tk t) TIn then
                  match toks1 with
                  | t2 :: toks2 =>
                      if token_eqb (tk t2) TOpenBrace then
                        match parse_commas_exprs f toks2 with
                        | Some (items, t3 :: toks3) =>
                            if token_eqb (tk t3) TCloseBrace then Some (EIn l items, toks3) else None
                        | _ => None
                        end
                      else None
                  | [] => None
                  end
                else Some (l, t :: toks1)
            | other => other
            end
        | (KBad, _) :: _ => None
        end
    end
  (* l (op r)* for a left-associative tier whose operands are parsed by the tighter tiers [rest] *)
  with left_loop (fuel : nat) (rest : list tier) (ops : list binop) (l : expr) (toks : list tok) {struct fuel}
    : option (expr * list tok) :=
    match fuel with
    | O => None
    | S f =>
        match toks with
        | t :: toks1 =>
            match op_of_token ops (tk t) with
            | Some op =>
                match parse_tiers f rest toks1 with
                | Some (r, toks2) => left_loop f rest ops (EBin op l r) toks2
                | None => None
                end
            | None => Some (l, toks)
            end
        | [] => Some (l, toks)
        end
    end
  (* Term: UnOp SimpleTerm | SimpleTerm "[" lo ".." hi "]" | SimpleTerm *)
  with parse_term (fuel : nat) (toks : list tok) {struct fuel} : option (expr * list tok) :=
    match fuel with
    | O => None
    | S f =>
        match toks with
        | t :: toks1 =>
            match unop_of_token (tk t) with
            | Some u =>
                match parse_simple f toks1 with
                | Some (e, toks2) => Some (EUn u e, toks2)
                | None => None
                end
            | None =>
                match parse_simple f toks with
                | Some (e, t1 :: t2 :: t3 :: t4 :: t5 :: toks2) =>
                    if token_eqb (tk t1) TOpenBracket then
                      match small_constant (tk t2), small_constant (tk t4) with
                      | Some lo, Some hi =>
                          if token_eqb (tk t3) TDotDot && token_eqb (tk t5) TCloseBracket
                          then Some (ESlice e lo hi, toks2) else None
                      | _, _ => None
                      end
                    else Some (e, t1 :: t2 :: t3 :: t4 :: t5 :: toks2)
                | Some (e, t1 :: toks2) =>
                    if token_eqb (tk t1) TOpenBracket then None else Some (e, t1 :: toks2)
                | other => other
                end
            end
        | [] => None
        end
    end
  (* SimpleTerm: CONSTANT | "(" Expr ")" | "(" Expr ".." Expr ")" | "[" MuxOptions "]" | ID *)
  with parse_simple (fuel : nat) (toks : list tok) {struct fuel} : option (expr * list tok) :=
    match fuel with
    | O => None
    | S f =>
        match toks with
        | t :: toks1 =>
            match tk t with
            | TLit v => Some (EConst v, toks1)
            | TIdentifier name => Some (EWire (string_of_name name), toks1)
            | TOpenParen =>
                match parse_tiers f tiers toks1 with
                | Some (e, t2 :: toks2) =>
                    if token_eqb (tk t2) TCloseParen then Some (e, toks2)
                    else if token_eqb (tk t2) TDotDot then
                      match parse_tiers f tiers toks2 with
                      | Some (r, t3 :: toks3) =>
                          if token_eqb (tk t3) TCloseParen then Some (ECat e r, toks3) else None
                      | _ => None
                      end
                    else None
                | _ => None
                end
            | TOpenBracket =>
                match parse_mux_options f toks1 with
                | Some (a, t2 :: toks2) =>
                    if token_eqb (tk t2) TCloseBracket then Some (EMux a, toks2) else None
                | _ => None
                end
            | _ => None
            end
        | [] => None
        end
    end
  (* Semicolons<MuxOption>: (Expr ":" Expr ";")* (Expr ":" Expr)? ; stops before "]" *)
  with parse_mux_options (fuel : nat) (toks : list tok) {struct fuel} : option (arms * list tok) :=
    match fuel with
    | O => None
    | S f =>
        match toks with
        | t :: _ =>
            if token_eqb (tk t) TCloseBracket then Some (ANil, toks)
            else
              match parse_tiers f tiers toks with
              | Some (c, t1 :: toks1) =>
                  if token_eqb (tk t1) TColon then
                    match parse_tiers f tiers toks1 with
                    | Some (v, t2 :: toks2) =>
                        if token_eqb (tk t2) TSemicolon then
                          match parse_mux_options f toks2 with
                          | Some (rest, toks3) => Some (ACons c v rest, toks3)
                          | None => None
                          end
                        else Some (ACons c v ANil, t2 :: toks2)
                    | Some (v, []) => Some (ACons c v ANil, [])
                    | None => None
                    end
                  else None
              | _ => None
              end
        | [] => Some (ANil, toks)
        end
    end
  (* Commas<Expr>: (Expr ",")* Expr? ; stops before "}" *)
  with parse_commas_exprs (fuel : nat) (toks : list tok) {struct fuel} : option (exprs * list tok) :=
    match fuel with
    | O => None
    | S f =>
        match toks with
        | t :: _ =>
            if token_eqb (tk t) TCloseBrace then Some (XNil, toks)
            else
              match parse_tiers f tiers toks with
              | Some (e, t1 :: toks1) =>
                  if token_eqb (tk t1) TComma then
                    match parse_commas_exprs f toks1 with
                    | Some (rest, toks2) => Some (XCons e rest, toks2)
                    | None => None
                    end
                  else Some (XCons e XNil, t1 :: toks1)
              | Some (e, []) => Some (XCons e XNil, [])
              | None => None
              end
        | [] => Some (XNil, toks)
        end
    end.

  Definition parse_expr (fuel : nat) (toks : list tok) : option (expr * list tok) :=
    parse_tiers fuel tiers toks.

  (* ---- declarations and statements ----------------------------------------------------- *)
  Definition ends_list (t : token) : bool :=
    token_eqb t TSemicolon || token_eqb t TCloseBrace.

  (* Commas<WireDecl> after "wire": (ID ":" W ",")* (ID ":" W)? *)
  Fixpoint parse_wire_decls (fuel : nat) (toks : list tok) : option (list (string * width) * list tok) :=
    match fuel with
    | O => None
    | S f =>
        match toks with
        | t1 :: t2 :: t3 :: toks1 =>
            match tk t1, small_constant (tk t3) with
            | TIdentifier name, Some w =>
                if token_eqb (tk t2) TColon then
                  match toks1 with
                  | t4 :: toks2 =>
                      if token_eqb (tk t4) TComma then
                        match parse_wire_decls f toks2 with
                        | Some (rest, toks3) => Some ((string_of_name name, Bits w) :: rest, toks3)
                        | None => None
                        end
                      else Some ([(string_of_name name, Bits w)], toks1)
                  | [] => Some ([(string_of_name name, Bits w)], toks1)
                  end
                else None
            | TIdentifier _, None => None
            | _, _ => Some ([], toks)
            end
        | _ => match toks with
               | t1 :: _ => match tk t1 with TIdentifier _ => None | _ => Some ([], toks) end
               | [] => Some ([], toks)
               end
        end
    end.

  (* Commas<ConstDecl> after "const": (ID "=" Expr ",")* (ID "=" Expr)? *)
  Fixpoint parse_const_decls (fuel : nat) (toks : list tok) : option (list (string * expr) * list tok) :=
    match fuel with
    | O => None
    | S f =>
        match toks with
        | t1 :: t2 :: toks1 =>
            match tk t1 with
            | TIdentifier name =>
                if token_eqb (tk t2) TAssign then
                  match parse_expr f toks1 with
                  | Some (e, t3 :: toks2) =>
                      if token_eqb (tk t3) TComma then
                        match parse_const_decls f toks2 with
                        | Some (rest, toks3) => Some ((string_of_name name, e) :: rest, toks3)
                        | None => None
                        end
                      else Some ([(string_of_name name, e)], t3 :: toks2)
                  | Some (e, []) => Some ([(string_of_name name, e)], [])
                  | None => None
                  end
                else None
            | _ => Some ([], toks)
            end
        | [t1] => match tk t1 with TIdentifier _ => None | _ => Some ([], toks) end
        | [] => Some ([], toks)
        end
    end.

  (* (ID "=")+ : the assigned names *)
  Fixpoint parse_targets (fuel : nat) (toks : list tok) : list string * list tok :=
    match fuel with
    | O => ([], toks)
    | S f =>
        match toks with
        | t1 :: t2 :: toks1 =>
            match tk t1 with
            | TIdentifier name =>
                if token_eqb (tk t2) TAssign then
                  let '(more, rest) := parse_targets f toks1 in (string_of_name name :: more, rest)
                else ([], toks)
            | _ => ([], toks)
            end
        | _ => ([], toks)
        end
    end.

  (* Commas1<Assignment>: (A ",")* A ","? *)
  Fixpoint parse_assignments (fuel : nat) (toks : list tok) : option (list (list string * expr) * list tok) :=
    match fuel with
    | O => None
    | S f =>
        let '(names, toks1) := parse_targets (List.length toks) toks in
        match names with
        | [] => None
        | _ =>
            match parse_expr f toks1 with
            | Some (e, t :: toks2) =>
                if token_eqb (tk t) TComma then
                  match toks2 with
                  | t2 :: _ =>
                      match tk t2 with
                      | TIdentifier _ =>
                          match parse_assignments f toks2 with
                          | Some (rest, toks3) => Some ((names, e) :: rest, toks3)
                          | None => None
                          end
                      | _ => Some ([(names, e)], toks2)          (* trailing comma *)
                      end
                  | [] => Some ([(names, e)], toks2)
                  end
                else Some ([(names, e)], t :: toks2)
            | Some (e, []) => Some ([(names, e)], [])
            | None => None
            end
        end
    end.

  (* Semicolons<RegisterDecl> inside "{ }": (R ";")* R? with R = ID ":" W "=" Expr *)
  Fixpoint parse_register_decls (fuel : nat) (toks : list tok)
    : option (list (string * width * expr) * list tok) :=
    match fuel with
    | O => None
    | S f =>
        match toks with
        | t1 :: t2 :: t3 :: t4 :: toks1 =>
            match tk t1, small_constant (tk t3) with
            | TIdentifier name, Some w =>
                if token_eqb (tk t2) TColon && token_eqb (tk t4) TAssign then
                  match parse_expr f toks1 with
                  | Some (e, t5 :: toks2) =>
                      if token_eqb (tk t5) TSemicolon then
                        match parse_register_decls f toks2 with
                        | Some (rest, toks3) => Some ((string_of_name name, Bits w, e) :: rest, toks3)
                        | None => None
                        end
                      else Some ([(string_of_name name, Bits w, e)], t5 :: toks2)
                  | Some (e, []) => Some ([(string_of_name name, Bits w, e)], [])
                  | None => None
                  end
                else None
            | TIdentifier _, None => None
            | _, _ => Some ([], toks)
            end
        | t1 :: _ => match tk t1 with TIdentifier _ => None | _ => Some ([], toks) end
        | [] => Some ([], toks)
        end
    end.

  Inductive stmt_kind := NeedSemi | NoSemi.

  Definition parse_statement (fuel : nat) (toks : list tok) : option (stmt * stmt_kind * list tok) :=
    match toks with
    | t :: toks1 =>
        match tk t with
        | TWire =>
            match parse_wire_decls fuel toks1 with
            | Some (d, rest) => Some (SWire d, NeedSemi, rest)
            | None => None
            end
        | TConst =>
            match parse_const_decls fuel toks1 with
            | Some (d, rest) => Some (SConst d, NeedSemi, rest)
            | None => None
            end
        | TRegister =>
            match toks1 with
            | t1 :: t2 :: toks2 =>
                match tk t1 with
                | TIdentifier name =>
                    if token_eqb (tk t2) TOpenBrace then
                      match parse_register_decls fuel toks2 with
                      | Some (regs, t3 :: rest) =>
                          if token_eqb (tk t3) TCloseBrace then Some (SBank (string_of_name name) regs, NoSemi, rest)
                          else None
                      | _ => None
                      end
                    else None
                | _ => None
                end
            | _ => None
            end
        | TIdentifier _ =>
            match parse_assignments fuel toks with
            | Some (a, rest) => Some (SAssign a, NeedSemi, rest)
            | None => None
            end
        | _ => None
        end
    | [] => None
    end.

  (* Statements: at least one complete statement (NeedSemi ";" | NoSemi), then any mix of stray
     ";", further statements; a final NeedSemi statement may omit its ";" *)
  Fixpoint parse_statements (fuel : nat) (toks : list tok) (seen_one : bool) (acc : list stmt)
    : option (list stmt) :=
    match fuel with
    | O => None
    | S f =>
        match toks with
        | [] => if seen_one then Some (rev acc) else None
        | t :: toks1 =>
            if token_eqb (tk t) TSemicolon then
              if seen_one then parse_statements f toks1 true acc else None
            else
              match parse_statement (20 * S (List.length toks)) toks with
              | Some (s, NoSemi, rest) => parse_statements f rest true (s :: acc)
              | Some (s, NeedSemi, t2 :: rest) =>
                  if token_eqb (tk t2) TSemicolon then parse_statements f rest true (s :: acc) else None
              | Some (s, NeedSemi, []) => if seen_one then Some (rev (s :: acc)) else None
              | None => None
              end
        end
    end.

  Definition parse (toks : list tok) : option (list stmt) :=
    parse_statements (S (List.length toks)) toks false [].
End Parser.

(* the whole front end of the model: text -> statements *)
Definition parse_text (uclass_of : N -> uclass) (tiers : list tier) (bytes : list N) : option (list stmt) :=
  match lex uclass_of bytes with
  | (toks, None) => parse tiers toks
  | (_, Some _) => None
  end.
