(* C10 / C01: what the dependency sorter must do, for every presentation (hash iteration order)
   of a graph. Statements about Graph.toposort / Graph.find_cycle. *)
From HclV Require Import Base Graph.
Open Scope N_scope.

Section GraphSpec.
  Variable node : Type.
  Variable eqb : node -> node -> bool.
  Hypothesis eqb_spec : forall a b, eqb a b = true <-> a = b.

  Notation graph := (graph node).
  Notation succs := (succs node eqb).
  Notation toposort := (toposort node eqb).
  Notation find_cycle := (find_cycle node eqb).
  Notation is_cycle := (is_cycle node eqb).
  Notation kahn_loop := (kahn_loop node eqb).

  Definition edge (g : graph) (a b : node) : Prop := In b (succs g a).

  (* a well-formed presentation: what a sequence of Graph::add_node / Graph::insert calls with
     pairwise distinct edges produces, listed in any iteration order *)
  Definition wf_graph (g : graph) : Prop :=
    NoDup (g_nodes g) /\
    NoDup (map fst (g_succ g)) /\
    (forall a l, In (a, l) (g_succ g) -> In a (g_nodes g) /\ NoDup l /\ forall b, In b l -> In b (g_nodes g)) /\
    g_num_edges g = N.of_nat (edge_total node g).

  (* a closed walk a0 -> a1 -> ... -> ak -> a0 *)
  Definition has_cycle (g : graph) : Prop := exists c, is_cycle g c = true.

  (* an order is a linear extension: every node exactly once, every edge forward *)
  Definition linear_extension (g : graph) (order : list node) : Prop :=
    NoDup order /\ (forall n, In n order <-> In n (g_nodes g)) /\
    forall a b, edge g a b ->
      exists l1 l2 l3, order = l1 ++ a :: l2 ++ b :: l3.

  (* S1: an order answer is a linear extension (hence the graph is acyclic) *)
  Definition stmt_order_valid : Prop :=
    forall g order, wf_graph g -> toposort g = Ok (inl order) -> linear_extension g order.

  Definition stmt_order_implies_acyclic : Prop :=
    forall g order, wf_graph g -> toposort g = Ok (inl order) -> ~ has_cycle g.

  (* S2: a cycle answer is a real cycle of the graph *)
  Definition stmt_cycle_sound : Prop :=
    forall g c, wf_graph g -> find_cycle g = Ok c -> is_cycle g c = true.

  Definition stmt_cycle_answer_sound : Prop :=
    forall g c, wf_graph g -> toposort g = Ok (inr c) -> is_cycle g c = true.

  (* S3: Kahn's loop never panics (no counter underflow) and its fuel suffices *)
  Definition stmt_kahn_total : Prop :=
    forall g, wf_graph g ->
      exists order visited,
        kahn_loop (S (List.length (g_nodes g))) g (init_queue node eqb g) (init_counts node eqb g) [] []
        = Ok (order, visited).

  (* S4: if Kahn leaves an edge unvisited there is a cycle *)
  Definition stmt_kahn_stuck_implies_cycle : Prop :=
    forall g order visited, wf_graph g ->
      kahn_loop (S (List.length (g_nodes g))) g (init_queue node eqb g) (init_counts node eqb g) [] []
      = Ok (order, visited) ->
      N.of_nat (List.length visited) <> g_num_edges g -> has_cycle g.

  (* S5: the cycle search finds a cycle whenever there is one - for every iteration order:
     the panic!("find_cycle() called when no cycle present") is unreachable *)
  Definition stmt_find_cycle_total : Prop :=
    forall g, wf_graph g -> has_cycle g -> exists c, find_cycle g = Ok c.

  (* S6: exact detection, for every presentation *)
  Definition stmt_toposort_exact : Prop :=
    forall g, wf_graph g ->
      (has_cycle g -> exists c, toposort g = Ok (inr c) /\ is_cycle g c = true) /\
      (~ has_cycle g -> exists order, toposort g = Ok (inl order) /\ linear_extension g order).
End GraphSpec.
