(* C14 for spans of several lines, and FileContents::{line, file_and_line, range}:
   proofs of the statements of RegionMultiSpec.v. *)
From HclV Require Import Base Yo Region RegionSpec RegionMultiSpec YoProofs RegionProofs.
From Coq Require Import ZifyN ZifyBool ZifyNat.
Open Scope N_scope.
Open Scope list_scope.

(* ---- small facts about the vocabulary -------------------------------------------------------- *)

Lemma count_lf_firstn_skipn (l : list N) (n : nat) :
  count_lf l = (count_lf (firstn n l) + count_lf (skipn n l))%nat.
Proof. rewrite <- count_lf_app, firstn_skipn. reflexivity. Qed.

Lemma after_last_lf_nolf (x : list N) : forall cur,
  count_lf x = 0%nat -> after_last_lf x cur = rev cur ++ x.
Proof.
  induction x as [| b r IH]; intros cur Hc.
  - cbn [after_last_lf]. rewrite app_nil_r. reflexivity.
  - cbn [after_last_lf]. rewrite count_lf_cons in Hc.
    destruct (is_lf b) eqn:Hb; [lia |].
    rewrite IH by lia. cbn [rev]. rewrite <- app_assoc. reflexivity.
Qed.

Lemma after_last_lf_app (u : list N) : forall x cur,
  after_last_lf (u ++ 10 :: x) cur = after_last_lf x [].
Proof.
  induction u as [| b r IH]; intros x cur.
  - reflexivity.
  - cbn [app after_last_lf]. destruct (is_lf b); apply IH.
Qed.

Lemma after_last_lf_ended (A x : list N) :
  lf_ended A -> count_lf x = 0%nat -> after_last_lf (A ++ x) [] = x.
Proof.
  intros [HA | [u HA]] Hx; subst A.
  - cbn [app]. rewrite after_last_lf_nolf by exact Hx. reflexivity.
  - rewrite <- app_assoc. cbn [app]. rewrite after_last_lf_app.
    rewrite after_last_lf_nolf by exact Hx. reflexivity.
Qed.

Lemma bfl_nolf (y tl : list N) :
  count_lf y = 0%nat -> tail_ok tl ->
  before_first_lf (y ++ tl) = (y, match tl with [] => false | _ :: _ => true end).
Proof.
  induction y as [| b r IH]; intros Hy Htl.
  - cbn [app]. destruct Htl as [Ht | [rest Ht]]; subst tl; reflexivity.
  - cbn [app before_first_lf]. rewrite count_lf_cons in Hy.
    destruct (is_lf b) eqn:Hb; [lia |].
    rewrite IH by (lia || exact Htl). reflexivity.
Qed.

(* the three notions on a line given by a decomposition of the text *)
Lemma line_facts (user A line tl : list N) (o : nat) :
  user = A ++ line ++ tl ->
  lf_ended A -> count_lf line = 0%nat -> tail_ok tl ->
  (List.length A <= o)%nat -> (o <= List.length A + List.length line)%nat ->
  line_no user o = S (count_lf A) /\
  col_of user o = (o - List.length A)%nat /\
  line_text user o = text_of line tl.
Proof.
  intros Hu HA Hline Htl Hlo Hhi. subst user.
  set (c := (o - List.length A)%nat).
  assert (Hf : firstn o (A ++ line ++ tl) = A ++ firstn c line).
  { rewrite firstn_app. rewrite firstn_all2 by lia. f_equal. fold c.
    rewrite firstn_app. replace (c - List.length line)%nat with 0%nat by lia.
    cbn [firstn]. rewrite app_nil_r. reflexivity. }
  assert (Hs : skipn o (A ++ line ++ tl) = skipn c line ++ tl).
  { rewrite skipn_app. rewrite skipn_all2 by lia. cbn [app]. fold c.
    rewrite skipn_app. replace (c - List.length line)%nat with 0%nat by lia.
    reflexivity. }
  pose proof (count_lf_firstn_skipn line c) as Hsplit.
  assert (Hc1 : count_lf (firstn c line) = 0%nat) by lia.
  assert (Hc2 : count_lf (skipn c line) = 0%nat) by lia.
  assert (Hal : after_last_lf (A ++ firstn c line) [] = firstn c line)
    by (apply after_last_lf_ended; assumption).
  split; [| split].
  - unfold line_no. rewrite Hf, count_lf_app. lia.
  - unfold col_of. rewrite Hf, Hal. rewrite firstn_length. lia.
  - unfold line_text. rewrite Hs, Hf, Hal. rewrite (bfl_nolf _ _ Hc2 Htl).
    rewrite firstn_skipn. unfold text_of. destruct tl; reflexivity.
Qed.

(* ---- lf_offsets ------------------------------------------------------------------------------ *)

Lemma lf_offsets_nolf (l : list N) : forall o, count_lf l = 0%nat -> lf_offsets l o = [].
Proof.
  induction l as [| b r IH]; intros o Hc.
  - reflexivity.
  - cbn [lf_offsets]. rewrite count_lf_cons in Hc. destruct (is_lf b); [lia |]. apply IH. lia.
Qed.

Lemma lf_offsets_first (x : list N) : forall y o,
  count_lf x = 0%nat ->
  lf_offsets (x ++ 10 :: y) o = (o + List.length x)%nat :: lf_offsets y (S (o + List.length x)).
Proof.
  induction x as [| b r IH]; intros y o Hc.
  - cbn [app lf_offsets List.length]. change (is_lf 10) with true. cbv iota.
    rewrite Nat.add_0_r. reflexivity.
  - cbn [app lf_offsets List.length]. rewrite count_lf_cons in Hc.
    destruct (is_lf b); [lia |]. rewrite IH by lia. f_equal; [lia | f_equal; lia].
Qed.

Lemma lf_offsets_bounds (l : list N) : forall o p,
  In p (lf_offsets l o) -> (o <= p)%nat /\ (p < o + List.length l)%nat.
Proof.
  induction l as [| b r IH]; intros o p Hin.
  - contradiction.
  - cbn [lf_offsets] in Hin. cbn [List.length].
    assert (Hrec : In p (lf_offsets r (S o)) -> (o <= p)%nat /\ (p < o + S (List.length r))%nat).
    { intros H. destruct (IH _ _ H). lia. }
    destruct (is_lf b).
    + destruct Hin as [Hp | Hin]; [lia | apply Hrec; exact Hin].
    + apply Hrec; exact Hin.
Qed.

Lemma lf_offsets_length (l : list N) : forall o, List.length (lf_offsets l o) = count_lf l.
Proof.
  induction l as [| b r IH]; intros o.
  - reflexivity.
  - cbn [lf_offsets]. rewrite count_lf_cons. destruct (is_lf b); cbn [List.length]; rewrite IH; lia.
Qed.

(* ---- a run of lines -------------------------------------------------------------------------- *)

(* L0 LF L1 LF ... Lk (no final LF) *)
Fixpoint joinl (L : list N) (Ls : list (list N)) : list N :=
  match Ls with [] => L | M :: r => L ++ 10 :: joinl M r end.
Fixpoint last_line (L : list N) (Ls : list (list N)) : list N :=
  match Ls with [] => L | M :: r => last_line M r end.
(* all but the last line, each with its LF *)
Fixpoint init_part (L : list N) (Ls : list (list N)) : list N :=
  match Ls with [] => [] | M :: r => L ++ 10 :: init_part M r end.
(* what str::lines yields *)
Fixpoint texts (L : list N) (Ls : list (list N)) (tail : list N) : list (list N) :=
  match Ls with [] => [text_of L tail] | M :: r => strip_cr L :: texts M r tail end.
(* the offsets of the LFs, the run starting at offset base *)
Fixpoint lf_at (base : nat) (L : list N) (Ls : list (list N)) : list nat :=
  match Ls with
  | [] => []
  | M :: r => (base + List.length L)%nat :: lf_at (S (base + List.length L)) M r
  end.
(* what follows the first line *)
Definition rest_after (Ls : list (list N)) (tail : list N) : list N :=
  match Ls with [] => tail | M :: r => 10 :: joinl M r ++ tail end.

Definition nolf (l : list N) : Prop := count_lf l = 0%nat.

Lemma joinl_split (Ls : list (list N)) : forall L, joinl L Ls = init_part L Ls ++ last_line L Ls.
Proof.
  induction Ls as [| M r IH]; intros L.
  - reflexivity.
  - cbn [joinl init_part last_line]. rewrite IH. rewrite <- app_assoc. reflexivity.
Qed.

Lemma joinl_head (L : list N) (Ls : list (list N)) (tail : list N) :
  joinl L Ls ++ tail = L ++ rest_after Ls tail.
Proof. destruct Ls as [| M r]; cbn [joinl rest_after]; [| rewrite <- app_assoc]; reflexivity. Qed.

Lemma rest_after_ok (Ls : list (list N)) (tail : list N) : tail_ok tail -> tail_ok (rest_after Ls tail).
Proof.
  intros Ht. destruct Ls as [| M r]; [exact Ht |]. right. eexists. reflexivity.
Qed.

Lemma init_part_ended (Ls : list (list N)) : forall A L, lf_ended A -> lf_ended (A ++ init_part L Ls).
Proof.
  induction Ls as [| M r IH]; intros A L HA.
  - cbn [init_part]. rewrite app_nil_r. exact HA.
  - cbn [init_part].
    replace (A ++ L ++ 10 :: init_part M r) with ((A ++ L ++ [10]) ++ init_part M r)
      by (rewrite <- !app_assoc; reflexivity).
    apply IH. right. exists (A ++ L). rewrite <- app_assoc. reflexivity.
Qed.

Lemma init_part_count (Ls : list (list N)) : forall L,
  nolf L -> Forall nolf Ls -> count_lf (init_part L Ls) = List.length Ls.
Proof.
  induction Ls as [| M r IH]; intros L HL HLs.
  - reflexivity.
  - inversion HLs as [| x l HM Hr]; subst. cbn [init_part List.length].
    rewrite count_lf_app, count_lf_cons. change (is_lf 10) with true. cbv iota.
    rewrite (IH M HM Hr). unfold nolf in HL. lia.
Qed.

Lemma last_line_nolf (Ls : list (list N)) : forall L,
  nolf L -> Forall nolf Ls -> nolf (last_line L Ls).
Proof.
  induction Ls as [| M r IH]; intros L HL HLs.
  - exact HL.
  - inversion HLs; subst. cbn [last_line]. apply IH; assumption.
Qed.

Lemma texts_not_nil (Ls : list (list N)) : forall L tail, texts L Ls tail <> [].
Proof. destruct Ls; intros; cbn [texts]; discriminate. Qed.

(* ---- str::lines on a run of lines ------------------------------------------------------------ *)

Lemma split_lines_lf (l : list N) : forall X cur,
  count_lf l = 0%nat ->
  split_lines (l ++ 10 :: X) cur = strip_cr (rev cur ++ l) :: split_lines X [].
Proof.
  induction l as [| b r IH]; intros X cur Hc.
  - cbn [app]. rewrite split_lines_cons. rewrite N.eqb_refl. rewrite app_nil_r. reflexivity.
  - cbn [app]. rewrite split_lines_cons. rewrite count_lf_cons in Hc. unfold is_lf in Hc.
    destruct (b =? 10) eqn:Hb; [lia |].
    rewrite IH by lia. cbn [rev]. rewrite <- app_assoc. reflexivity.
Qed.

Lemma seg_of_cons (L X tail : list N) :
  seg_of (L ++ 10 :: X) tail = L ++ 10 :: seg_of X tail.
Proof. unfold seg_of. rewrite <- app_assoc. reflexivity. Qed.

Lemma str_lines_joinl (Ls : list (list N)) : forall L tail,
  nolf L -> Forall nolf Ls -> tail_ok tail -> last_line L Ls ++ tail <> [] ->
  str_lines (seg_of (joinl L Ls) tail) = texts L Ls tail.
Proof.
  induction Ls as [| M r IH]; intros L tail HL HLs Ht Hne.
  - cbn [joinl texts]. apply str_lines_seg; assumption.
  - inversion HLs as [| x l HM Hr]; subst. cbn [joinl texts last_line] in *.
    rewrite seg_of_cons. unfold str_lines. rewrite split_lines_lf by exact HL.
    cbn [rev app]. f_equal. apply (IH M tail HM Hr Ht Hne).
Qed.

Lemma str_lines_joinl_at_end (Ls : list (list N)) : forall L,
  nolf L -> Forall nolf Ls -> last_line L Ls = [] ->
  str_lines (seg_of (joinl L Ls) []) = removelast (texts L Ls []).
Proof.
  induction Ls as [| M r IH]; intros L HL HLs Hlast.
  - cbn [joinl texts last_line] in *. subst L. reflexivity.
  - inversion HLs as [| x l HM Hr]; subst. cbn [joinl texts last_line] in *.
    rewrite seg_of_cons. unfold str_lines. rewrite split_lines_lf by exact HL.
    cbn [rev app]. fold (str_lines (seg_of (joinl M r) [])). rewrite (IH M HM Hr Hlast).
    pose proof (texts_not_nil r M []) as Hnn.
    destruct (texts M r []) as [| t ts]; [contradiction | reflexivity].
Qed.

(* ---- the spec's notions on a run of lines ---------------------------------------------------- *)

Lemma spec_lines (user tail : list N) (Ls : list (list N)) : forall A L o,
  user = A ++ joinl L Ls ++ tail ->
  lf_ended A -> nolf L -> Forall nolf Ls -> tail_ok tail ->
  (List.length A <= o)%nat -> (o <= List.length A + List.length L)%nat ->
  map (line_text user) (o :: map S (lf_at (List.length A) L Ls)) = texts L Ls tail /\
  map (line_no user) (o :: map S (lf_at (List.length A) L Ls)) =
    seq (S (count_lf A)) (S (List.length Ls)).
Proof.
  induction Ls as [| M r IH]; intros A L o Hu HA HL HLs Ht Hlo Hhi.
  - cbn [joinl] in Hu. cbn [lf_at map texts seq List.length].
    destruct (line_facts user A L tail o Hu HA HL Ht Hlo Hhi) as (Hn & _ & Htx).
    rewrite Hn, Htx. split; reflexivity.
  - inversion HLs as [| x l HM Hr]; subst x l.
    assert (Hu1 : user = A ++ L ++ rest_after (M :: r) tail).
    { rewrite Hu. rewrite joinl_head. reflexivity. }
    destruct (line_facts user A L _ o Hu1 HA HL (rest_after_ok (M :: r) tail Ht) Hlo Hhi)
      as (Hn & _ & Htx).
    cbn [rest_after text_of] in Htx.
    set (A' := A ++ L ++ [10]).
    assert (HA' : lf_ended A').
    { right. exists (A ++ L). unfold A'. rewrite <- app_assoc. reflexivity. }
    assert (Hlen' : List.length A' = S (List.length A + List.length L)).
    { unfold A'. rewrite !app_length. cbn [List.length]. lia. }
    assert (Hu2 : user = A' ++ joinl M r ++ tail).
    { rewrite Hu. unfold A'. cbn [joinl]. rewrite <- !app_assoc. reflexivity. }
    destruct (IH A' M (List.length A') Hu2 HA' HM Hr Ht (le_n _)) as [Htxs Hnos]; [lia |].
    cbn [lf_at map texts].
    rewrite Hlen' in Htxs, Hnos. cbn [map] in Htxs, Hnos.
    rewrite Htx, Hn. split.
    + f_equal. exact Htxs.
    + change (seq (S (count_lf A)) (S (List.length (M :: r))))
        with (S (count_lf A) :: seq (S (S (count_lf A))) (S (List.length r))).
      f_equal. rewrite Hnos. f_equal.
      unfold A'. rewrite !count_lf_app, count_lf_cons, count_lf_nil.
      change (is_lf 10) with true. cbv iota. unfold nolf in HL. lia.
Qed.

(* ---- decomposing the text around a span ------------------------------------------------------ *)

Definition decomp (user : list N) (s e : nat) (A L : list N) (Ls : list (list N)) (tail : list N) : Prop :=
  user = A ++ joinl L Ls ++ tail /\
  lf_ended A /\ nolf L /\ Forall nolf Ls /\ tail_ok tail /\
  (List.length A <= s)%nat /\ (s <= List.length A + List.length L)%nat /\
  (List.length A + List.length (init_part L Ls) <= e)%nat /\
  (e <= List.length A + List.length (joinl L Ls))%nat /\
  lf_offsets (span user s e) s = lf_at (List.length A) L Ls.

Lemma col_after_lf (user x : list N) (o : nat) :
  firstn o user = x ++ [10] -> col_of user o = 0%nat.
Proof.
  intros H. unfold col_of. rewrite H.
  replace (x ++ [10]) with (x ++ 10 :: []) by reflexivity.
  rewrite after_last_lf_app. reflexivity.
Qed.

Lemma decomp_exists (k : nat) : forall user s e,
  (s <= e)%nat -> (e <= List.length user)%nat -> count_lf (span user s e) = k ->
  exists A L Ls tail, decomp user s e A L Ls tail /\ List.length Ls = k.
Proof.
  induction k as [| k IH]; intros user s e Hse He Hk.
  - destruct (all_decomp (firstn s user) [] count_lf_nil) as (u1 & Hfst & Ha & Hu1).
    cbn [rev app] in Hfst.
    remember (after_last_lf (firstn s user) []) as a eqn:Ea.
    destruct (bfl_decomp (skipn s user)) as (b & f & tail & Hbfl & Hskip & Hb & Htail).
    assert (Htok : tail_ok tail).
    { destruct Htail as [[_ Ht] | [_ Ht]]; [left | right]; exact Ht. }
    assert (Hslen : s = (List.length u1 + List.length a)%nat).
    { rewrite <- app_length, <- Hfst. rewrite firstn_length_le; lia. }
    assert (Hes : (e - s <= List.length b)%nat).
    { apply (nolf_prefix b tail (e - s)%nat Htok).
      - rewrite <- Hskip. exact Hk.
      - rewrite <- app_length, <- Hskip. rewrite skipn_length. lia. }
    exists u1, (a ++ b), [], tail. split; [| reflexivity].
    unfold decomp. cbn [joinl init_part lf_at List.length].
    repeat split.
    + rewrite <- (firstn_skipn s user) at 1. rewrite Hfst, Hskip. rewrite <- !app_assoc. reflexivity.
    + exact Hu1.
    + unfold nolf. rewrite count_lf_app. lia.
    + constructor.
    + exact Htok.
    + lia.
    + rewrite app_length. lia.
    + lia.
    + rewrite app_length. lia.
    + apply lf_offsets_nolf. exact Hk.
  - destruct (all_decomp (firstn s user) [] count_lf_nil) as (u1 & Hfst & Ha & Hu1).
    cbn [rev app] in Hfst.
    remember (after_last_lf (firstn s user) []) as a eqn:Ea.
    destruct (bfl_decomp (skipn s user)) as (b & f & tail0 & Hbfl & Hskip & Hb & Htail).
    assert (Hslen : s = (List.length u1 + List.length a)%nat).
    { rewrite <- app_length, <- Hfst. rewrite firstn_length_le; lia. }
    assert (Hsklen : List.length (skipn s user) = (List.length user - s)%nat) by apply skipn_length.
    (* the first LF of the span *)
    assert (Hlt : (List.length b < e - s)%nat).
    { destruct (le_lt_dec (e - s) (List.length b)) as [Hle | Hlt]; [exfalso | exact Hlt].
      unfold span in Hk. rewrite Hskip in Hk. rewrite firstn_app in Hk.
      replace (e - s - List.length b)%nat with 0%nat in Hk by lia.
      cbn [firstn] in Hk. rewrite app_nil_r in Hk.
      pose proof (count_lf_firstn_skipn b (e - s)) as Hsp. lia. }
    destruct Htail as [[_ Ht] | [_ [rest Ht]]]; subst tail0.
    { exfalso. rewrite Hskip, app_nil_r in Hsklen. lia. }
    set (s' := S (s + List.length b)).
    assert (Hus : user = (u1 ++ (a ++ b) ++ [10]) ++ rest).
    { rewrite <- (firstn_skipn s user) at 1. rewrite Hfst, Hskip. rewrite <- !app_assoc. reflexivity. }
    assert (Hlen1 : List.length (u1 ++ (a ++ b) ++ [10]) = s').
    { rewrite !app_length. cbn [List.length]. unfold s'. lia. }
    assert (Hf' : firstn s' user = u1 ++ (a ++ b) ++ [10]).
    { rewrite Hus at 1. rewrite <- Hlen1. rewrite firstn_app, Nat.sub_diag, firstn_all.
      cbn [firstn]. apply app_nil_r. }
    assert (Hsk' : skipn s' user = rest).
    { rewrite Hus at 1. rewrite <- Hlen1. rewrite skipn_app, Nat.sub_diag, skipn_all.
      reflexivity. }
    assert (Hspan : span user s e = b ++ 10 :: span user s' e).
    { unfold span. rewrite Hskip, Hsk'. rewrite firstn_app.
      rewrite firstn_all2 by lia. f_equal.
      destruct (e - s - List.length b)%nat as [| m] eqn:Hm; [lia |].
      cbn [firstn]. f_equal. f_equal. unfold s'. lia. }
    assert (Hk' : count_lf (span user s' e) = k).
    { rewrite Hspan in Hk. rewrite count_lf_app, count_lf_cons in Hk.
      change (is_lf 10) with true in Hk. cbv iota in Hk. lia. }
    assert (Hs'e : (s' <= e)%nat) by (unfold s'; lia).
    destruct (IH user s' e Hs'e He Hk') as (A' & L' & Ls' & tail & HD & HlenLs).
    destruct HD as (Hu & HA' & HL' & HLs' & Htok & Hlo & Hhi & Helo & Hehi & Hoffs).
    (* A' is exactly the text before s' *)
    assert (HlenA' : List.length A' = s').
    { assert (Hu1' : user = A' ++ L' ++ rest_after Ls' tail) by (rewrite Hu, joinl_head; reflexivity).
      destruct (line_facts user A' L' _ s' Hu1' HA' HL' (rest_after_ok Ls' tail Htok) Hlo Hhi)
        as (_ & Hcol & _).
      assert (Hcol0 : col_of user s' = 0%nat).
      { apply (col_after_lf user (u1 ++ a ++ b)). rewrite Hf'. rewrite <- !app_assoc. reflexivity. }
      lia. }
    assert (HA'eq : A' = u1 ++ (a ++ b) ++ [10]).
    { rewrite <- Hf'. rewrite Hu at 1. rewrite <- HlenA'.
      rewrite firstn_app, Nat.sub_diag, firstn_all. cbn [firstn]. rewrite app_nil_r. reflexivity. }
    exists u1, (a ++ b), (L' :: Ls'), tail. split; [| cbn [List.length]; lia].
    unfold decomp. cbn [joinl init_part lf_at].
    assert (Hjoin : u1 ++ ((a ++ b) ++ 10 :: joinl L' Ls') ++ tail = user).
    { rewrite Hu. rewrite HA'eq. rewrite <- !app_assoc. reflexivity. }
    repeat split.
    + symmetry. exact Hjoin.
    + exact Hu1.
    + unfold nolf. rewrite count_lf_app. lia.
    + constructor; assumption.
    + exact Htok.
    + lia.
    + rewrite app_length. lia.
    + rewrite !app_length. cbn [List.length]. unfold s' in HlenA'. lia.
    + rewrite !app_length. cbn [List.length]. unfold s' in HlenA'. lia.
    + rewrite Hspan. rewrite lf_offsets_first by exact Hb. fold s'. rewrite Hoffs.
      rewrite HlenA'. rewrite app_length. unfold s'. f_equal; [lia | f_equal; lia].
Qed.

(* ---- show_region on a decomposed text -------------------------------------------------------- *)

Lemma get_range_some (l : list N) (a b : nat) (seg : list N) :
  get_range l a b = Some seg -> seg = firstn (b - a) (skipn a l).
Proof.
  unfold get_range.
  destruct ((a <=? b)%nat && (b <=? List.length l)%nat && is_boundary l a && is_boundary l b);
    intros H; [injection H as H; symmetry; exact H | discriminate].
Qed.

Lemma joinl_length (L : list N) (Ls : list (list N)) :
  List.length (joinl L Ls) = (List.length (init_part L Ls) + List.length (last_line L Ls))%nat.
Proof. rewrite joinl_split, app_length. reflexivity. Qed.

Lemma show_region_decomp (pre user fname A L : list N) (Ls : list (list N)) (tail : list N)
      (s e : nat) (out : list N) :
  decomp user s e A L Ls tail -> (s <= e)%nat ->
  show_region (new_from_data pre user fname) (List.length pre + s) (List.length pre + e) = Some out ->
  out = region_header fname (S (count_lf A)) ++
        render_lines (str_lines (seg_of (joinl L Ls) tail))
                     (S (count_lf A)) (S (count_lf A)) (S (count_lf A) + List.length Ls)
                     (s - List.length A) (e - (List.length A + List.length (init_part L Ls))).
Proof.
  intros (Hu & HA & HL & HLs & Htok & Hlo & Hhi & Helo & Hehi & _) Hse H.
  unfold show_region in H.
  set (fc := new_from_data pre user fname) in H.
  assert (Hdata : fc_data fc = pre ++ user) by reflexivity.
  rewrite Hdata in H.
  set (len := List.length (pre ++ user)) in H.
  set (plen := List.length pre) in *.
  set (init := init_part L Ls) in *.
  set (lst := last_line L Ls) in *.
  pose proof (joinl_length L Ls) as Hjl. fold init lst in Hjl.
  assert (Hlen : len = (plen + (List.length A + List.length (joinl L Ls) + List.length tail))%nat).
  { unfold len, plen. rewrite Hu. rewrite !app_length. lia. }
  assert (He' : Nat.min (plen + e) len = (plen + e)%nat) by lia.
  rewrite He' in H.
  assert (Hs' : Nat.min (plen + s) (plen + e) = (plen + s)%nat) by lia.
  rewrite Hs' in H.
  (* the line of s *)
  assert (Hu1 : user = A ++ L ++ rest_after Ls tail) by (rewrite Hu, joinl_head; reflexivity).
  assert (L1 : exists nx1, line_number_and_bounds fc (plen + s)%nat =
                           Some (S (count_lf A), (plen + List.length A)%nat, nx1)).
  { eexists. unfold fc. rewrite Hu1.
    apply (lnb_line pre A L (rest_after Ls tail) fname (plen + s)%nat HA HL
                    (rest_after_ok Ls tail Htok)); unfold plen; lia. }
  destruct L1 as [nx1 L1].
  (* the line of e *)
  assert (Hu2 : user = (A ++ init) ++ lst ++ tail).
  { rewrite Hu. rewrite joinl_split. fold init lst. rewrite <- !app_assoc. reflexivity. }
  assert (HAi : lf_ended (A ++ init)) by (apply init_part_ended; exact HA).
  assert (Hlst : count_lf lst = 0%nat) by (apply last_line_nolf; assumption).
  assert (Hci : count_lf (A ++ init) = (count_lf A + List.length Ls)%nat).
  { rewrite count_lf_app. unfold init. rewrite init_part_count by assumption. reflexivity. }
  assert (L2 : line_number_and_bounds fc (plen + e)%nat =
               Some (S (count_lf (A ++ init)), (plen + List.length (A ++ init))%nat,
                     match tail with
                     | [] => len
                     | _ :: _ => S (plen + List.length (A ++ init) + List.length lst)
                     end)).
  { unfold fc, len. rewrite Hu2.
    apply (lnb_line pre (A ++ init) lst tail fname (plen + e)%nat HAi Hlst Htok);
      unfold plen; rewrite app_length; lia. }
  rewrite L1, L2 in H.
  set (seg := seg_of (joinl L Ls) tail).
  assert (Hend : Nat.min (match tail with
                          | [] => len
                          | _ :: _ => S (plen + List.length (A ++ init) + List.length lst)
                          end) len = (plen + List.length A + List.length seg)%nat).
  { unfold seg, seg_of. rewrite !app_length.
    destruct tail as [| t tail']; cbn [firstn List.length] in *; lia. }
  rewrite Hend in H.
  destruct (get_range (pre ++ user) (plen + List.length A) (plen + List.length A + List.length seg))
    as [sg |] eqn:G; [| discriminate].
  apply get_range_some in G.
  assert (Hsg : sg = seg).
  { rewrite G.
    replace (pre ++ user) with ((pre ++ A) ++ joinl L Ls ++ tail)
      by (rewrite Hu; rewrite <- !app_assoc; reflexivity).
    replace (plen + List.length A)%nat with (List.length (pre ++ A))
      by (rewrite app_length; reflexivity).
    apply slice_line. }
  clear G. subst sg.
  injection H as Hout.
  assert (Hf : filename fc (plen + s)%nat = fname).
  { unfold filename. cbn [fc new_from_data fc_plen fc_filename]. fold plen.
    assert (Hc : (plen <=? plen + s)%nat = true) by (apply Nat.leb_le; lia).
    rewrite Hc. reflexivity. }
  rewrite Hf in Hout. rewrite <- Hout.
  rewrite Hci.
  replace (plen + s - (plen + List.length A))%nat with (s - List.length A)%nat by lia.
  replace (plen + e - (plen + List.length (A ++ init)))%nat
    with (e - (List.length A + List.length init))%nat by (rewrite app_length; lia).
  replace (S (count_lf A + List.length Ls)) with (S (count_lf A) + List.length Ls)%nat by lia.
  unfold region_header, sp. cbn [repeat_byte]. rewrite <- !app_assoc. reflexivity.
Qed.

(* ---- the rendered lines against the expected lines ------------------------------------------- *)

Lemma render_lines_spec (user : list N) (s e : nat) : forall offs number,
  map (line_no user) offs = seq number (List.length offs) ->
  render_lines (map (line_text user) offs) number (line_no user s) (line_no user e)
               (col_of user s) (col_of user e) =
  flat_map (echo_of user s e) offs.
Proof.
  induction offs as [| o r IH]; intros number Hnos.
  - reflexivity.
  - cbn [map List.length seq] in Hnos. injection Hnos as Hn Hr.
    cbn [map render_lines flat_map]. rewrite (IH (S number) Hr).
    unfold echo_of, caret_from, caret_to, echoed_line, sp. rewrite Hn.
    cbn [repeat_byte]. rewrite <- !app_assoc. reflexivity.
Qed.

(* ---- the spec's notions on a decomposed text ------------------------------------------------- *)

Lemma span_facts (user A L : list N) (Ls : list (list N)) (tail : list N) (s e : nat) :
  decomp user s e A L Ls tail ->
  line_no user s = S (count_lf A) /\
  col_of user s = (s - List.length A)%nat /\
  line_no user e = (S (count_lf A) + List.length Ls)%nat /\
  col_of user e = (e - (List.length A + List.length (init_part L Ls)))%nat /\
  skipn (e - col_of user e) user = last_line L Ls ++ tail /\
  map (line_text user) (span_line_offsets user s e) = texts L Ls tail /\
  map (line_no user) (span_line_offsets user s e) = seq (S (count_lf A)) (S (List.length Ls)).
Proof.
  intros (Hu & HA & HL & HLs & Htok & Hlo & Hhi & Helo & Hehi & Hoffs).
  assert (Hu1 : user = A ++ L ++ rest_after Ls tail) by (rewrite Hu, joinl_head; reflexivity).
  destruct (line_facts user A L _ s Hu1 HA HL (rest_after_ok Ls tail Htok) Hlo Hhi)
    as (Hns & Hcs & _).
  set (init := init_part L Ls) in *.
  set (lst := last_line L Ls) in *.
  pose proof (joinl_length L Ls) as Hjl. fold init lst in Hjl.
  assert (Hu2 : user = (A ++ init) ++ lst ++ tail).
  { rewrite Hu. rewrite joinl_split. fold init lst. rewrite <- !app_assoc. reflexivity. }
  assert (HAi : lf_ended (A ++ init)) by (apply init_part_ended; exact HA).
  assert (Hlst : count_lf lst = 0%nat) by (apply last_line_nolf; assumption).
  assert (Hci : count_lf (A ++ init) = (count_lf A + List.length Ls)%nat).
  { rewrite count_lf_app. unfold init. rewrite init_part_count by assumption. reflexivity. }
  assert (Hlai : List.length (A ++ init) = (List.length A + List.length init)%nat)
    by apply app_length.
  destruct (line_facts user (A ++ init) lst tail e Hu2 HAi Hlst Htok) as (Hne & Hce & _);
    [lia | lia |].
  destruct (spec_lines user tail Ls A L s Hu HA HL HLs Htok Hlo Hhi) as [Htx Hno].
  unfold span_line_offsets. rewrite Hoffs.
  repeat split; try assumption.
  - lia.
  - lia.
  - rewrite Hce.
    replace (e - (e - List.length (A ++ init)))%nat with (List.length (A ++ init)) by lia.
    rewrite Hu2 at 1. rewrite skipn_app, skipn_all, Nat.sub_diag. reflexivity.
Qed.

(* ---- C14: locating a span of several lines --------------------------------------------------- *)

Theorem locate_multi_line_holds : stmt_locate_multi_line.
Proof.
  intros pre user fname s e Hpre Huser Hse He Hne.
  destruct (decomp_exists _ user s e Hse He eq_refl) as (A & L & Ls & tail & HD & Hk).
  destruct (span_facts user A L Ls tail s e HD) as (Hns & Hcs & Hnoe & Hce & Hsk & Htx & Hno).
  destruct (show_region (new_from_data pre user fname) (List.length pre + s) (List.length pre + e))
    as [out |] eqn:Hshow; [| exfalso; apply (show_region_total_ok pre user fname _ _ Hpre Huser Hshow)].
  f_equal.
  rewrite (show_region_decomp pre user fname A L Ls tail s e out HD Hse Hshow).
  destruct HD as (_ & _ & HL & HLs & Htok & _).
  rewrite str_lines_joinl; try assumption.
  - unfold multi_line_region. rewrite Hns. f_equal.
    rewrite <- Htx. rewrite <- Hcs, <- Hce. rewrite <- Hnoe. rewrite <- Hns.
    apply render_lines_spec.
    rewrite Hno. rewrite Hns. f_equal.
    rewrite <- (map_length (line_no user)), Hno, seq_length. reflexivity.
  - rewrite <- Hsk. exact Hne.
Qed.

(* ---- the vocabulary is sane ------------------------------------------------------------------ *)

Lemma span_length (user : list N) (s e : nat) : (List.length (span user s e) <= e - s)%nat.
Proof. unfold span. rewrite firstn_length. lia. Qed.

Theorem span_lines_numbered_holds : stmt_span_lines_numbered.
Proof.
  intros user s e Hse He.
  destruct (decomp_exists _ user s e Hse He eq_refl) as (A & L & Ls & tail & HD & Hk).
  destruct (span_facts user A L Ls tail s e HD) as (Hns & _ & Hnoe & _ & _ & _ & Hno).
  rewrite Hno, Hns, Hnoe, Hk. split; [reflexivity |]. split; [reflexivity |].
  unfold span_line_offsets. constructor; [lia |].
  apply Forall_forall. intros o Hin. apply in_map_iff in Hin. destruct Hin as (p & Hp & Hin).
  apply lf_offsets_bounds in Hin. pose proof (span_length user s e). lia.
Qed.

(* ---- the excluded case: the line of e is an empty line at the end of the text ----------------- *)

Lemma map_removelast {X Y : Type} (f : X -> Y) (l : list X) :
  map f (removelast l) = removelast (map f l).
Proof.
  induction l as [| a r IH]; [reflexivity |].
  destruct r as [| b r']; [reflexivity |].
  change (f a :: map f (removelast (b :: r')) = f a :: removelast (map f (b :: r'))).
  f_equal. exact IH.
Qed.

Lemma removelast_numbered {X : Type} (f : X -> nat) (l : list X) : forall n,
  map f l = seq n (List.length l) ->
  map f (removelast l) = seq n (List.length (removelast l)).
Proof.
  induction l as [| a r IH]; intros n H; [reflexivity |].
  destruct r as [| b r']; [reflexivity |].
  assert (Hrl : removelast (a :: b :: r') = a :: removelast (b :: r')) by reflexivity.
  rewrite Hrl. clear Hrl. remember (b :: r') as t eqn:Et.
  cbn [map List.length seq] in H |- *. injection H as Ha Hr.
  f_equal; [exact Ha | apply IH; exact Hr].
Qed.

Lemma in_removelast {X : Type} (l : list X) (x : X) : In x (removelast l) -> In x l.
Proof.
  induction l as [| a r IH]; [intros H; exact H |].
  destruct r as [| b r']; [intros H; contradiction |].
  change (removelast (a :: b :: r')) with (a :: removelast (b :: r')).
  intros [H | H]; [left; exact H | right; apply IH; exact H].
Qed.

Theorem locate_multi_line_at_end_holds : stmt_locate_multi_line_at_end.
Proof.
  intros pre user fname s e Hpre Huser Hse He Hend.
  destruct (decomp_exists _ user s e Hse He eq_refl) as (A & L & Ls & tail & HD & Hk).
  destruct (span_facts user A L Ls tail s e HD) as (Hns & Hcs & Hnoe & Hce & Hsk & Htx & Hno).
  unfold on_final_empty_line in Hend. rewrite Hsk in Hend.
  apply app_eq_nil in Hend. destruct Hend as [Hlast Htail]. subst tail.
  assert (Hlen : e = List.length user).
  { destruct HD as (Hu & _ & _ & _ & _ & _ & _ & Helo & Hehi & _).
    pose proof (joinl_length L Ls) as Hjl. rewrite Hlast in Hjl. cbn [List.length] in Hjl.
    rewrite Hu. rewrite !app_length. cbn [List.length]. lia. }
  split; [exact Hlen |].
  destruct (show_region (new_from_data pre user fname) (List.length pre + s) (List.length pre + e))
    as [out |] eqn:Hshow; [| exfalso; apply (show_region_total_ok pre user fname _ _ Hpre Huser Hshow)].
  f_equal.
  rewrite (show_region_decomp pre user fname A L Ls [] s e out HD Hse Hshow).
  destruct HD as (_ & _ & HL & HLs & _).
  rewrite str_lines_joinl_at_end by assumption.
  rewrite Hns. f_equal.
  rewrite <- Htx. rewrite <- map_removelast. rewrite <- Hcs, <- Hce. rewrite <- Hnoe. rewrite <- Hns.
  apply render_lines_spec.
  apply removelast_numbered.
  rewrite Hno. rewrite Hns. f_equal.
  rewrite <- (map_length (line_no user)), Hno, seq_length. reflexivity.
Qed.

(* ---- the one-line theorem is the case k = 0 -------------------------------------------------- *)

Theorem one_line_is_special_case_holds : stmt_one_line_is_special_case.
Proof.
  intros Hm pre user fname s e Hpre Huser Hse He Hnolf Hne.
  destruct (decomp_exists 0 user s e Hse He Hnolf) as (A & L & Ls & tail & HD & Hk).
  destruct Ls as [| M r]; [| discriminate Hk].
  destruct (span_facts user A L [] tail s e HD) as (Hns & Hcs & Hnoe & Hce & _ & _ & _).
  cbn [init_part List.length] in *.
  destruct HD as (_ & _ & _ & _ & _ & Hlo & _ & _ & _ & _).
  assert (Hne' : ~ on_final_empty_line user e).
  { unfold on_final_empty_line. rewrite Hce.
    replace (e - (e - (List.length A + 0)))%nat with (s - col_of user s)%nat by lia. exact Hne. }
  rewrite (Hm pre user fname s e Hpre Huser Hse He Hne'). f_equal.
  unfold multi_line_region, span_line_offsets.
  fold (span user s e) in Hnolf. rewrite (lf_offsets_nolf _ s Hnolf).
  cbn [map flat_map]. rewrite app_nil_r.
  unfold echo_of, caret_from, caret_to.
  rewrite Nat.eqb_refl.
  assert (Hsame : (line_no user s =? line_no user e)%nat = true) by (apply Nat.eqb_eq; lia).
  rewrite Hsame.
  replace (col_of user e - col_of user s)%nat with (e - s)%nat by lia.
  unfold one_line_region, region_header, echoed_line. rewrite <- !app_assoc. reflexivity.
Qed.

Corollary locate_one_line_again : stmt_locate_one_line.
Proof. exact (one_line_is_special_case_holds locate_multi_line_holds). Qed.

(* ---- checking well-formedness of concrete texts ---------------------------------------------- *)

Definition wf_textb (l : list N) : bool :=
  forallb (fun i => negb (is_cont (nth i l 0)) || ((0 <? i)%nat && (128 <=? nth (i - 1) l 0)))
          (seq 0 (List.length l)).

Lemma wf_textb_ok (l : list N) : wf_textb l = true -> wf_text l.
Proof.
  intros H i Hi Hc. unfold wf_textb in H. rewrite forallb_forall in H.
  assert (Hin : In i (seq 0 (List.length l))) by (apply in_seq; lia).
  specialize (H i Hin). rewrite Hc in H. cbn [negb orb] in H.
  apply andb_prop in H. destruct H as [H0 H1].
  split; [apply Nat.ltb_lt; exact H0 | apply N.leb_le; exact H1].
Qed.

(* ---- the strict reading: only lines with a byte of the span ---------------------------------- *)

(* pre = "\n", user = "ab\ncd\n", the span [0, 3) = "ab\n": line 2 ("cd") is echoed, with no caret,
   although no byte of it belongs to the span *)
Theorem locate_multi_line_strict_refuted : ~ stmt_locate_multi_line_strict.
Proof.
  intros H.
  specialize (H [10] [97; 98; 10; 99; 100; 10] [70] 0%nat 3%nat).
  assert (Hpre : wf_text [10]) by (apply wf_textb_ok; reflexivity).
  assert (Huser : wf_text [97; 98; 10; 99; 100; 10]) by (apply wf_textb_ok; reflexivity).
  specialize (H Hpre Huser).
  assert (H1 : (0 <= 3)%nat) by lia.
  assert (H2 : (3 <= List.length [97; 98; 10; 99; 100; 10])%nat) by (cbn [List.length]; lia).
  specialize (H H1 H2).
  assert (H3 : ~ on_final_empty_line [97; 98; 10; 99; 100; 10] 3).
  { unfold on_final_empty_line. vm_compute. discriminate. }
  specialize (H H3). vm_compute in H. discriminate H.
Qed.

Lemma lf_offsets_app (x : list N) : forall y o,
  lf_offsets (x ++ y) o = lf_offsets x o ++ lf_offsets y (o + List.length x)%nat.
Proof.
  induction x as [| b r IH]; intros y o.
  - cbn [app lf_offsets List.length]. rewrite Nat.add_0_r. reflexivity.
  - cbn [app lf_offsets List.length]. rewrite IH.
    replace (S o + List.length r)%nat with (o + S (List.length r))%nat by lia.
    destruct (is_lf b); reflexivity.
Qed.

Lemma firstn_succ (l : list N) : forall n, (n < List.length l)%nat ->
  firstn (S n) l = firstn n l ++ [nth n l 0].
Proof.
  induction l as [| b r IH]; intros n Hn.
  - cbn [List.length] in Hn. lia.
  - destruct n as [| m]; [reflexivity |].
    cbn [List.length] in Hn.
    change (firstn (S (S m)) (b :: r)) with (b :: firstn (S m) r).
    rewrite IH by lia. reflexivity.
Qed.

Lemma nth_skipn_plus (l : list N) : forall s n, nth n (skipn s l) 0 = nth (s + n) l 0.
Proof.
  induction l as [| b r IH]; intros s n.
  - rewrite skipn_nil. destruct n, s; reflexivity.
  - destruct s as [| s']; [reflexivity |]. cbn [skipn Nat.add nth]. apply IH.
Qed.

Lemma offsets_without_last_byte (user : list N) (s e : nat) :
  (s <= e)%nat -> (e <= List.length user)%nat ->
  (s = e \/ nth (e - 1) user 0 <> 10) ->
  span_line_offsets user s (Nat.pred e) = span_line_offsets user s e.
Proof.
  intros Hse He Hlast. unfold span_line_offsets. f_equal. f_equal.
  destruct (Nat.eq_dec s e) as [Heq | Hneq].
  - subst e. unfold span. replace (Nat.pred s - s)%nat with 0%nat by lia.
    rewrite Nat.sub_diag. reflexivity.
  - destruct Hlast as [Heq | Hlast]; [contradiction |].
    unfold span. replace (e - s)%nat with (S (Nat.pred e - s)) by lia.
    rewrite firstn_succ by (rewrite skipn_length; lia).
    rewrite lf_offsets_app. rewrite nth_skipn_plus.
    replace (s + (Nat.pred e - s))%nat with (e - 1)%nat by lia.
    cbn [lf_offsets]. unfold is_lf.
    destruct (nth (e - 1) user 0 =? 10) eqn:Hb; [apply N.eqb_eq in Hb; contradiction |].
    rewrite app_nil_r. reflexivity.
Qed.

Theorem locate_multi_line_strict_no_trailing_lf_holds : stmt_locate_multi_line_strict_no_trailing_lf.
Proof.
  intros pre user fname s e Hpre Huser Hse He Hne Hlast.
  rewrite (locate_multi_line_holds pre user fname s e Hpre Huser Hse He Hne).
  unfold strict_region, multi_line_region.
  rewrite (offsets_without_last_byte user s e Hse He Hlast). reflexivity.
Qed.

(* ---- C14: never the preamble, any number of lines -------------------------------------------- *)

Theorem never_preamble_multi_refuted : ~ stmt_never_preamble_multi.
Proof.
  intros H.
  assert (Hpre : wf_text [65]) by (apply wf_textb_ok; reflexivity).
  assert (Huser : wf_text []) by (apply wf_textb_ok; reflexivity).
  destruct (H [65] [] [66] 1%nat 0%nat Hpre Huser (le_n 1)) as (out & Hs & (s0 & echoed & _ & _ & Hout)).
  vm_compute in Hs. injection Hs as Hs. subst out.
  unfold region_header, sp in Hout. cbn [repeat_byte app] in Hout. discriminate Hout.
Qed.

Lemma show_region_clamped (fc : file_contents) (s e : nat) :
  show_region fc s e =
  show_region fc (Nat.min s (Nat.min e (List.length (fc_data fc)))) (Nat.min e (List.length (fc_data fc))).
Proof.
  unfold show_region.
  replace (Nat.min (Nat.min e (List.length (fc_data fc))) (List.length (fc_data fc)))
    with (Nat.min e (List.length (fc_data fc))) by lia.
  replace (Nat.min (Nat.min s (Nat.min e (List.length (fc_data fc)))) (Nat.min e (List.length (fc_data fc))))
    with (Nat.min s (Nat.min e (List.length (fc_data fc)))) by lia.
  reflexivity.
Qed.

Lemma echoes_user_lines (user : list N) (s e : nat) (offs : list nat) :
  Forall (fun o => (o <= List.length user)%nat) offs ->
  Forall (fun x => exists o col count, (o <= List.length user)%nat /\
                     x = echoed_line (line_no user o) (line_text user o) col count)
         (map (echo_of user s e) offs).
Proof.
  intros H. apply Forall_forall. intros x Hin. apply in_map_iff in Hin.
  destruct Hin as (o & Hx & Hin). rewrite Forall_forall in H.
  exists o, (caret_from user s o), (caret_to user e o - caret_from user s o)%nat.
  split; [apply H; exact Hin | symmetry; exact Hx].
Qed.

Theorem never_preamble_multi_partial_holds : stmt_never_preamble_multi_partial.
Proof.
  intros pre user fname s e Hpre Huser Hs He.
  rewrite show_region_clamped.
  assert (Hdata : List.length (fc_data (new_from_data pre user fname)) =
                  (List.length pre + List.length user)%nat)
    by (cbn [new_from_data fc_data]; apply app_length).
  rewrite Hdata.
  set (plen := List.length pre) in *.
  set (e0 := (Nat.min e (plen + List.length user) - plen)%nat).
  set (s0 := (Nat.min s (Nat.min e (plen + List.length user)) - plen)%nat).
  replace (Nat.min e (plen + List.length user)) with (plen + e0)%nat by lia.
  replace (Nat.min s (plen + e0)) with (plen + s0)%nat by lia.
  assert (Hse : (s0 <= e0)%nat) by lia.
  assert (Hel : (e0 <= List.length user)%nat) by lia.
  destruct (span_lines_numbered_holds user s0 e0 Hse Hel) as (_ & _ & Hb).
  assert (Hb' : Forall (fun o => (o <= List.length user)%nat) (span_line_offsets user s0 e0)).
  { eapply Forall_impl; [| exact Hb]. intros o [_ Ho]. lia. }
  destruct (skipn (e0 - col_of user e0) user) as [| b r] eqn:Hsk.
  - destruct (locate_multi_line_at_end_holds pre user fname s0 e0 Hpre Huser Hse Hel Hsk) as [_ Hshow].
    eexists. split; [exact Hshow |].
    exists s0, (map (echo_of user s0 e0) (removelast (span_line_offsets user s0 e0))).
    split; [lia |]. split.
    + apply echoes_user_lines. apply Forall_forall. intros o Hin.
      rewrite Forall_forall in Hb'. apply Hb'. apply in_removelast. exact Hin.
    + rewrite flat_map_concat_map. reflexivity.
  - assert (Hne : ~ on_final_empty_line user e0).
    { unfold on_final_empty_line. rewrite Hsk. discriminate. }
    eexists. split; [apply (locate_multi_line_holds pre user fname s0 e0 Hpre Huser Hse Hel Hne) |].
    exists s0, (map (echo_of user s0 e0) (span_line_offsets user s0 e0)).
    split; [lia |]. split.
    + apply echoes_user_lines. exact Hb'.
    + unfold multi_line_region. rewrite flat_map_concat_map. reflexivity.
Qed.

(* ---- FileContents::{filename, line, file_and_line, range} ------------------------------------- *)

Theorem filename_tbl_total_holds : stmt_filename_tbl_total.
Proof.
  intros pre user fname index.
  unfold filename_tbl, search_index, fc_filenames, filename.
  cbn [new_from_data fc_plen fc_filename map fst snd last_le].
  change (0 <=? index)%nat with true. cbv iota.
  destruct (List.length pre <=? index)%nat; reflexivity.
Qed.

Theorem range_total_holds : stmt_range_total.
Proof.
  intros pre user fname s e.
  destruct (lnb_exists pre user fname s) as (n1 & k1 & nx1 & L1 & _).
  destruct (lnb_exists pre user fname e) as (n2 & k2 & nx2 & L2 & _).
  unfold range, file_and_line, line_of.
  rewrite !filename_tbl_total_holds, L1, L2.
  split; [discriminate |]. split; [discriminate |].
  destruct (k1 =? k2)%nat; discriminate.
Qed.

Theorem lnb_names_line_holds : stmt_lnb_names_line.
Proof.
  intros pre user fname o Ho.
  assert (Hk : count_lf (span user o o) = 0%nat).
  { unfold span. rewrite Nat.sub_diag. reflexivity. }
  destruct (decomp_exists 0 user o o (le_n o) Ho Hk) as (A & L & Ls & tail & HD & HLs).
  destruct Ls as [| M r]; [| discriminate HLs].
  destruct (span_facts user A L [] tail o o HD) as (Hn & Hc & _).
  destruct HD as (Hu & HA & HL & _ & Htok & Hlo & Hhi & _).
  cbn [joinl] in Hu.
  eexists. rewrite Hu at 1.
  rewrite (lnb_line pre A L tail fname (List.length pre + o)%nat HA HL Htok) by lia.
  unfold line_start. rewrite Hn, Hc.
  replace (o - (o - List.length A))%nat with (List.length A) by lia. reflexivity.
Qed.

(* two offsets s <= e of the text are on the same line iff their lines start at the same offset *)
Lemma same_line_same_start (user : list N) (s e : nat) :
  (s <= e)%nat -> (e <= List.length user)%nat ->
  (line_start user s =? line_start user e)%nat = (line_no user s =? line_no user e)%nat.
Proof.
  intros Hse He.
  destruct (decomp_exists _ user s e Hse He eq_refl) as (A & L & Ls & tail & HD & _).
  destruct (span_facts user A L Ls tail s e HD) as (Hns & Hcs & Hne & Hce & _).
  destruct HD as (_ & _ & _ & _ & _ & Hlo & _ & Helo & _).
  unfold line_start. rewrite Hns, Hcs, Hne, Hce.
  destruct Ls as [| M r].
  - cbn [init_part List.length]. rewrite !(proj2 (Nat.eqb_eq _ _)); [reflexivity | lia | lia].
  - cbn [init_part List.length] in *. rewrite app_length in *. cbn [List.length] in *.
    rewrite !(proj2 (Nat.eqb_neq _ _)); [reflexivity | lia | lia].
Qed.

Theorem range_names_offsets_holds : stmt_range_names_offsets.
Proof.
  intros pre user fname s e Hse He.
  assert (Hs : (s <= List.length user)%nat) by lia.
  destruct (lnb_names_line_holds pre user fname s Hs) as [nx1 L1].
  destruct (lnb_names_line_holds pre user fname e He) as [nx2 L2].
  unfold range, file_and_line, line_of.
  rewrite !filename_tbl_total_holds, L1, L2.
  assert (Hf : filename (new_from_data pre user fname) (List.length pre + s) = fname).
  { unfold filename. cbn [new_from_data fc_plen fc_filename].
    rewrite (proj2 (Nat.leb_le _ _)) by lia. reflexivity. }
  rewrite Hf. split; [reflexivity |].
  rewrite <- (same_line_same_start user s e Hse He).
  replace (List.length pre + line_start user s =? List.length pre + line_start user e)%nat
    with (line_start user s =? line_start user e)%nat.
  - destruct (line_start user s =? line_start user e)%nat; reflexivity.
  - destruct (line_start user s =? line_start user e)%nat eqn:Hc.
    + apply Nat.eqb_eq in Hc. symmetry. apply Nat.eqb_eq. lia.
    + apply Nat.eqb_neq in Hc. symmetry. apply Nat.eqb_neq. lia.
Qed.

(* pre = "\n\n", user = "ab\ncd", the offset 3 (the "c" on line 2): file_and_line prints F:5 *)
Theorem range_names_lines_refuted : ~ stmt_range_names_lines.
Proof.
  intros H.
  destruct (H [10; 10] [97; 98; 10; 99; 100] [70] 3%nat 4%nat) as [H1 _].
  - lia.
  - cbn [List.length]. lia.
  - vm_compute in H1. discriminate H1.
Qed.

(* ---- non-vacuity: concrete instances --------------------------------------------------------- *)

Definition ex_pre : list N := [10; 35; 112; 10].                                   (* "\n#p\n" *)
Definition ex_file : list N := [70; 46; 104; 99; 108].                             (* "F.hcl"  *)
(* "x = [\r\n  1 : 2;\r\n];\nyy" : the span [4, 18) is "[\r\n  1 : 2;\r\n]" *)
Definition ex_user : list N :=
  [120; 32; 61; 32; 91; 13; 10; 32; 32; 49; 32; 58; 32; 50; 59; 13; 10; 93; 59; 10; 121; 121].

(* three lines, CRLF line ends: the CR is neither echoed nor underlined *)
Example locate_multi_line_nonvacuous :
  wf_text ex_pre /\ wf_text ex_user /\ (4 <= 18)%nat /\ (18 <= List.length ex_user)%nat /\
  ~ on_final_empty_line ex_user 18 /\ count_lf (span ex_user 4 18) = 2%nat /\
  show_region (new_from_data ex_pre ex_user ex_file) (List.length ex_pre + 4) (List.length ex_pre + 18) =
  Some (multi_line_region ex_file ex_user 4 18) /\
  multi_line_region ex_file ex_user 4 18 =
    region_header ex_file 1 ++
    echoed_line 1 [120; 32; 61; 32; 91] 4 1 ++                            (* "x = ["    *)
    echoed_line 2 [32; 32; 49; 32; 58; 32; 50; 59] 0 8 ++                 (* "  1 : 2;" *)
    echoed_line 3 [93; 59] 0 1.                                           (* "];"       *)
Proof.
  assert (Hne : ~ on_final_empty_line ex_user 18) by (vm_compute; discriminate).
  assert (Hpre : wf_text ex_pre) by (apply wf_textb_ok; reflexivity).
  assert (Huser : wf_text ex_user) by (apply wf_textb_ok; reflexivity).
  assert (Hl : (18 <= List.length ex_user)%nat) by (vm_compute; lia).
  split; [exact Hpre |]. split; [exact Huser |]. split; [lia |]. split; [exact Hl |].
  split; [exact Hne |]. split; [reflexivity |].
  split; [apply locate_multi_line_holds; try assumption; lia | vm_compute; reflexivity].
Qed.

(* a line with a two-byte character ("a\195\169b" LF "cd", span [0, 6)): carets count bytes, so the
   first line gets 4 carets under 3 characters - the property promises exactness for ASCII only *)
Example locate_multi_line_multibyte :
  wf_text [97; 195; 169; 98; 10; 99; 100] /\
  show_region (new_from_data ex_pre [97; 195; 169; 98; 10; 99; 100] ex_file)
              (List.length ex_pre + 0) (List.length ex_pre + 6) =
  Some (region_header ex_file 1 ++
        echoed_line 1 [97; 195; 169; 98] 0 4 ++ echoed_line 2 [99; 100] 0 1).
Proof. split; [apply wf_textb_ok; reflexivity | vm_compute; reflexivity]. Qed.

(* the span ends just after an LF: the next line is echoed with an empty caret line *)
Example extra_line_after_lf :
  show_region (new_from_data ex_pre [97; 98; 10; 99; 100; 10] ex_file)
              (List.length ex_pre + 0) (List.length ex_pre + 3) =
  Some (region_header ex_file 1 ++ echoed_line 1 [97; 98] 0 2 ++ echoed_line 2 [99; 100] 0 0).
Proof. vm_compute. reflexivity. Qed.

(* "ab\ncd\n", span [1, 6): e is on the empty line 3 at the end of the text, which is not echoed *)
Example locate_multi_line_at_end_nonvacuous :
  wf_text [97; 98; 10; 99; 100; 10] /\ on_final_empty_line [97; 98; 10; 99; 100; 10] 6 /\
  show_region (new_from_data ex_pre [97; 98; 10; 99; 100; 10] ex_file)
              (List.length ex_pre + 1) (List.length ex_pre + 6) =
  Some (region_header ex_file 1 ++
        flat_map (echo_of [97; 98; 10; 99; 100; 10] 1 6)
                 (removelast (span_line_offsets [97; 98; 10; 99; 100; 10] 1 6))) /\
  flat_map (echo_of [97; 98; 10; 99; 100; 10] 1 6)
           (removelast (span_line_offsets [97; 98; 10; 99; 100; 10] 1 6)) =
  echoed_line 1 [97; 98] 1 1 ++ echoed_line 2 [99; 100] 0 2.
Proof.
  split; [apply wf_textb_ok; reflexivity |].
  split; [reflexivity |]. split; vm_compute; reflexivity.
Qed.

Example span_lines_numbered_nonvacuous :
  span_line_offsets ex_user 4 18 = [4; 7; 17]%nat /\
  map (line_no ex_user) (span_line_offsets ex_user 4 18) = [1; 2; 3]%nat /\
  count_lf (span ex_user 4 18) = 2%nat.
Proof. repeat split. Qed.

Example one_line_special_case_nonvacuous :
  count_lf (span ex_user 9 14) = 0%nat /\
  multi_line_region ex_file ex_user 9 14 =
  one_line_region ex_file (line_no ex_user 9) (line_text ex_user 9) (col_of ex_user 9) (14 - 9).
Proof. split; vm_compute; reflexivity. Qed.

Example strict_no_trailing_lf_nonvacuous :
  nth (18 - 1) ex_user 0 <> 10 /\ strict_region ex_file ex_user 4 18 = multi_line_region ex_file ex_user 4 18.
Proof. split; [vm_compute; discriminate | vm_compute; reflexivity]. Qed.

(* offsets far beyond the end of the data are clamped; still only the user's lines are shown *)
Example never_preamble_multi_nonvacuous :
  (List.length ex_pre <= 11)%nat /\ (List.length ex_pre <= 1000)%nat /\
  show_region (new_from_data ex_pre ex_user ex_file) 11 1000 =
  Some (region_header ex_file 2 ++
        echoed_line 2 [32; 32; 49; 32; 58; 32; 50; 59] 0 8 ++
        echoed_line 3 [93; 59] 0 2 ++
        echoed_line 4 [121; 121] 0 2).
Proof. split; [cbn [List.length ex_pre]; lia |]. split; [cbn [List.length ex_pre]; lia |]. vm_compute. reflexivity. Qed.

(* file_and_line / range print byte offsets: "F.hcl:11" for the offset 7 of ex_user (line 2, which
   starts at byte 4 + 7 of the data), "F.hcl:4-21" for the span [4, 18) (lines 1 to 3) *)
Example range_names_offsets_nonvacuous :
  file_and_line (new_from_data ex_pre ex_user ex_file) (List.length ex_pre + 7) =
    Some (ex_file ++ [58; 49; 49]) /\
  range (new_from_data ex_pre ex_user ex_file) (List.length ex_pre + 4) (List.length ex_pre + 18) =
    Some (ex_file ++ [58; 52; 45; 50; 49]) /\
  range (new_from_data ex_pre ex_user ex_file) (List.length ex_pre + 7) (List.length ex_pre + 9) =
    Some (ex_file ++ [58; 49; 49]) /\
  line_no ex_user 7 = 2%nat /\ line_no ex_user 18 = 3%nat.
Proof. repeat split. Qed.

Example lnb_names_line_nonvacuous :
  line_number_and_bounds (new_from_data ex_pre ex_user ex_file) (List.length ex_pre + 18) =
  Some (3%nat, (List.length ex_pre + 17)%nat, 24%nat) /\ line_no ex_user 18 = 3%nat /\
  line_start ex_user 18 = 17%nat.
Proof. repeat split. Qed.

Print Assumptions locate_multi_line_holds.
Print Assumptions locate_multi_line_at_end_holds.
Print Assumptions span_lines_numbered_holds.
Print Assumptions one_line_is_special_case_holds.
Print Assumptions locate_multi_line_strict_refuted.
Print Assumptions locate_multi_line_strict_no_trailing_lf_holds.
Print Assumptions never_preamble_multi_refuted.
Print Assumptions never_preamble_multi_partial_holds.
Print Assumptions filename_tbl_total_holds.
Print Assumptions range_total_holds.
Print Assumptions range_names_lines_refuted.
Print Assumptions range_names_offsets_holds.
Print Assumptions lnb_names_line_holds.
