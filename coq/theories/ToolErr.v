(* The whole `hclrs` command with STANDARD ERROR: Tool.v gives (exit status, standard output); this
   file adds the text main_real (src/main.rs) writes on standard error, so that the model of the
   command is

     tool_full program_name files args = (exit status, standard output, standard error)

   Definitions only; executable and extractable.  `tool_stderr` walks through main_real exactly as
   Tool.tool_outcome does and gives, at each `return Ok(false)`, the text written before it.

   The third component is an `option string`:  None = the text is not modelled, which happens
   - for a rejected HCL file when FullDiag.front_errors declines (the syntax error needs the error
     recovery of the LR parser, an internal error / panic of the front end);
   - when the simulation ends in an error other than DivisionByZero / RuntimeMismatchedWidths (a
     Panicked value: the Rust program panics, exit status 101 and a panic message; impossible when
     the HCL file is a text: FrontWfProofs);
   - in the two dead branches of Tool.tool_outcome (OPanic).

   NOT represented on standard error:
   - the operating system's text of an i/o error: `Error reading '<path>': ` and `error: ` are
     followed by the placeholder Diag.io_error_placeholder;
   - the panic messages of Rust panics (and RUST_BACKTRACE), the log lines of env_logger (RUST_LOG),
     e.g. the warning "input file .. is not valid UTF-8";
   - i/o errors while WRITING the diagnostics (`e.format_for_contents(..)?`);
   - which of several candidate names a "Did you mean" hint shows and the order of some diagnostics
     depend on HashMap iteration order in the Rust program: parameter [korder] (FullDiag.v). *)
From HclV Require Import Base Expr Machine Build Yo Region Lexer Parser Generated Cli CliArgs
                         Diag FullDiag Tool.
Open Scope string_scope.
Open Scope N_scope.

(* ---- getopts::Fail and its Display (crate getopts 0.2.24, src/lib.rs) ---------------------------- *)
(* ArgumentMissing and OptionMissing cannot arise: the nine options of main_real are optflags
   (hasarg == No, occur == Optional) *)
Inductive fail :=
| UnrecognizedOption (nm : string)
| OptionDuplicated (nm : string)
| UnexpectedArgument (nm : string).

Definition fail_text (f : fail) : string :=
  match f with
  | UnrecognizedOption nm => "Unrecognized option: '" ++ nm ++ "'"
  | OptionDuplicated nm => "Option '" ++ nm ++ "' given more than once"
  | UnexpectedArgument nm => "Option '" ++ nm ++ "' does not take an argument"
  end.

(* the character at the head of a UTF-8 string: its first byte and the continuation bytes after it
   (Short(ch).to_string() for the `ch` of cur.char_indices()) *)
Fixpoint take_continuation (s : string) : string :=
  match s with
  | EmptyString => EmptyString
  | String c r => if is_cont (N_of_ascii c) then String c (take_continuation r) else EmptyString
  end.
Definition head_char (s : string) : string :=
  match s with EmptyString => EmptyString | String c r => String c (take_continuation r) end.

(* the loop over the letters of -abc: the first one that is no short option *)
Fixpoint cluster_fail (s : string) : option fail :=
  match s with
  | EmptyString => None
  | String c r =>
      match short_flag c with
      | None => Some (UnrecognizedOption (head_char s))          (* UnrecognizedOption(opt.to_string()) *)
      | Some _ => cluster_fail r
      end
  end.

(* one iteration of `while let Some(cur) = args.next()`: the Err it returns, if any.
   Name::from_str(name).to_string() is `name` again, for a one-letter name too. *)
Definition arg_fail (a : string) : option fail :=
  match a with
  | String c0 (String c r as tail) =>
      if negb (Ascii.eqb c0 "-"%char) then None
      else if Ascii.eqb c "-"%char then
        match r with
        | EmptyString => None                                    (* "--" *)
        | _ =>
            let (name, value) := split_at_eq r in
            match long_flag name with
            | None => Some (UnrecognizedOption name)
            | Some _ => match value with
                        | Some _ => Some (UnexpectedArgument name)
                        | None => None
                        end
            end
        end
      else cluster_fail tail
  | _ => None
  end.

(* the whole loop: the first failing argument before any `--` *)
Fixpoint scan_fail (args : list string) : option fail :=
  match args with
  | [] => None
  | a :: rest =>
      match classify a with
      | Terminator => None
      | Bad => arg_fail a
      | _ => scan_fail rest
      end
  end.

(* the loop after the scan, `for (vals, opt) in vals.iter().zip(opts.iter())`: the first option of
   the TABLE (not of the command line) that was given more than once; its name is the long name *)
Fixpoint occurs_twice (f : flag) (fs : list flag) : bool :=
  match fs with
  | [] => false
  | g :: r => (flag_eqb f g && has_flag f r) || occurs_twice f r
  end.

Definition duplicate_fail (fs : list flag) : option fail :=
  match find (fun f => occurs_twice f fs) all_flags with
  | Some f => Some (OptionDuplicated (long_name f))
  | None => None
  end.

(* Options::parse(&args[1..]) = Err(f) *)
Definition getopts_fail (args : list string) : option fail :=
  match scan_fail args with
  | Some f => Some f
  | None => match collect args with
            | Some (fs, _) => duplicate_fail fs
            | None => None
            end
  end.

(* ---- the name FileContents gives the user's file (src/io.rs) -------------------------------------- *)
(* path.file_name().map(|x| x.to_string_lossy().into_owned()).unwrap_or("<unknown>"): the last
   component of the path when it is a normal one (Unix paths) *)
Fixpoint split_slash (s : string) : list string :=
  match s with
  | EmptyString => [EmptyString]
  | String c r =>
      if Ascii.eqb c "/"%char then EmptyString :: split_slash r
      else match split_slash r with
           | h :: t => String c h :: t
           | [] => [String c EmptyString]
           end
  end.

(* Components::next_back on the segments in reverse order: empty segments (repeated or trailing
   '/') and "." are skipped - except a "." that is the whole first segment of a relative path,
   which is the component CurDir; ".." is ParentDir; the root and the empty path give nothing *)
Fixpoint last_normal (rsegs : list string) : option string :=
  match rsegs with
  | [] => None
  | seg :: rest =>
      if String.eqb seg "" then last_normal rest
      else if String.eqb seg "." then match rest with [] => None | _ => last_normal rest end
      else if String.eqb seg ".." then None
      else Some seg
  end.

Definition path_file_name (path : string) : option string := last_normal (rev (split_slash path)).

Definition contents_name (path : string) : string :=
  match path_file_name path with Some n => n | None => "<unknown>" end.

(* read_y86_hcl: the FileContents of the user's file *)
Definition contents_of (path : string) (user : list N) : file_contents :=
  new_from_data (str_bytes gen_preamble) user (str_bytes (contents_name path)).

(* ---- the errors of run_y86 ---------------------------------------------------------------------- *)
(* Memory::load_from_y86: Err(UnparseableLine(line)) for the first line load_line_y86 rejects,
   Err(EmptyFile) when there is no line.  (Yo.load_from_y86 says which of the two; here with the line.) *)
Fixpoint first_unparseable (m : memory) (lines : list (list N)) : option (list N) :=
  match lines with
  | [] => None
  | l :: r => match load_line m l with
              | Some m1 => first_unparseable m1 r
              | None => Some l
              end
  end.

Definition load_error (m : memory) (data : list N) : option rerror :=
  match split_lines data [] with
  | [] => Some REmptyFile
  | lines => match first_unparseable m lines with
             | Some l => Some (RUnparseableLine (string_of_bytes l))
             | None => None
             end
  end.

(* the Error RunningProgram::run returns; None = the model's value stands for a Rust panic (or is
   one of the errors that carry fields the simulator's model does not keep) *)
Definition run_error (es : list err) : option rerror :=
  match es with
  | [e] => match ek e with
           | DivisionByZero => Some RDivisionByZero
           | RuntimeMismatchedWidths => Some RRuntimeMismatchedWidths
           | _ => None
           end
  | _ => None
  end.

(* e.format_for_contents(&mut stderr(), &file_contents) *)
Definition format_for_contents (fc : file_contents) (e : rerror) : option string :=
  render_all test_uclass fc [e].

(* match run_y86(..) { Err(e) => e.format_for_contents(..) } *)
Definition run_y86_stderr (files : file_system) (fc : file_contents) (prompt : string) (program : program)
           (s0 : mstate) (yo_filename : string) (run_options : options) : option string :=
  match files yo_filename with
  | None => format_for_contents fc RIoError                      (* File::open(yo_path)? *)
  | Some image =>
      match load_from_y86 (mem s0) image with
      | Err _ => match load_error (mem s0) image with
                 | Some e => format_for_contents fc e
                 | None => None                                   (* dead: ToolErrProofs.load_error_iff *)
                 end
      | Ok m =>
          match run_prompting prompt (N.to_nat (o_timeout run_options)) gen_features run_options program
                              (with_mem s0 m) with
          | Err es => match run_error es with
                      | Some e => format_for_contents fc e
                      | None => None
                      end
          | Ok (final, _) =>
              match dump_y86 run_options program final with
              | Ok _ => Some ""
              | Err _ => None                                     (* dead: Tool.OPanic *)
              end
          end
      end
  end.

(* ---- main_real ------------------------------------------------------------------------------------ *)
Definition front_stderr_of (korder : list string -> list string) (path : string) (user : list N)
  : option string :=
  match gen_tiers with
  | None => None
  | Some tiers =>
      front_stderr korder test_uclass tiers gen_features gen_fixed ascii_lower ascii_upper gen_preamble
                   (str_bytes (contents_name path)) user
  end.

Definition tool_stderr (korder : list string -> list string) (program_name : string)
           (files : file_system) (args : list string) : option string :=
  match parse_argv args with
  | None =>                                    (* writeln!(stderr(), "{}", f.to_string()) *)
      match getopts_fail args with
      | Some f => Some (fail_text f ++ nl)
      | None => None                           (* dead: ToolErrProofs.getopts_fail_iff *)
      end
  | Some (fs, free) =>
      if has_flag FHelp fs then Some ""                                   (* usage: standard output *)
      else if has_flag FVersion fs then Some ""
      else
        match free with
        | [] => Some ""                                                    (* usage *)
        | filename :: rest =>
            match files filename with
            | None =>                          (* "Error reading '{}': {}", path.display(), e *)
                Some ("Error reading '" ++ filename ++ "': " ++ io_error_placeholder ++ nl)
            | Some user =>
                if 3 <? N.of_nat (List.length free) then Some ""          (* usage *)
                else
                  match parse_y86_hcl (bytes_of gen_preamble ++ user)%list with
                  | FrontSyntaxError | FrontRejected _ =>                  (* e.format_for_contents *)
                      front_stderr_of korder filename user
                  | FrontAccepted program =>
                      match initial_state program with
                      | Err _ => None                                      (* dead: Tool.OPanic *)
                      | Ok s0 =>
                          if has_flag FCheck fs then Some ""
                          else
                            match rest with
                            | [] => Some ""                                (* usage *)
                            | yo_filename :: rest2 =>
                                if negb (ends_with ".yo" yo_filename)
                                then Some ("'" ++ yo_filename ++ "' does not have the extension .yo" ++ nl)
                                else
                                  match rest2 with
                                  | [] =>
                                      run_y86_stderr files (contents_of filename user) (prompt_of fs) program s0
                                        yo_filename (set_timeout (run_options_of fs) default_timeout)
                                  | t :: _ =>
                                      match parse_u32 t with
                                      | None => Some ("timeout " ++ t ++ " is not a valid number" ++ nl)
                                      | Some timeout =>
                                          run_y86_stderr files (contents_of filename user) (prompt_of fs) program s0
                                            yo_filename (set_timeout (run_options_of fs) timeout)
                                      end
                                  end
                            end
                      end
                  end
            end
        end
  end.

Definition tool_full_with (korder : list string -> list string) (program_name : string)
           (files : file_system) (args : list string) : N * string * option string :=
  (tool_main_as program_name files args, tool_stderr korder program_name files args).

(* the iteration order of the insertion-ordered tables of the model, as in FullDiag's examples *)
Definition tool_full (program_name : string) (files : file_system) (args : list string)
  : N * string * option string :=
  tool_full_with (fun l => l) program_name files args.
