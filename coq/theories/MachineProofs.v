(* Proofs of the statements of MachineSpec.v about the simulator model Machine.v. *)
From HclV Require Import Base Expr Disasm Machine MachineSpec.
From Coq Require Import ZifyN ZifyBool ZifyNat.
Open Scope string_scope.
Open Scope N_scope.

(* ---- association lists ------------------------------------------------------------------- *)
Section AlistLemmas.
  Context {V : Type}.

  Lemma lookup_upd (m : list (string * V)) k v k' :
    lookup (upd m k v) k' = if String.eqb k' k then Some v else lookup m k'.
  Proof.
    induction m as [|[k0 v0] r IH]; cbn [upd lookup].
    - reflexivity.
    - destruct (String.eqb k k0) eqn:E.
      + apply String.eqb_eq in E. subst k0. cbn [lookup].
        destruct (String.eqb k' k); reflexivity.
      + cbn [lookup]. rewrite IH.
        destruct (String.eqb k' k0) eqn:E2; [|reflexivity].
        apply String.eqb_eq in E2. subst k0.
        destruct (String.eqb k' k) eqn:E3; [|reflexivity].
        apply String.eqb_eq in E3. subst k'. rewrite String.eqb_refl in E. discriminate E.
  Qed.

  Lemma lookup_upd_same (m : list (string * V)) k v : lookup (upd m k v) k = Some v.
  Proof. rewrite lookup_upd, String.eqb_refl. reflexivity. Qed.

  Lemma lookup_upd_ne (m : list (string * V)) k v k' :
    k' <> k -> lookup (upd m k v) k' = lookup m k'.
  Proof.
    intros Hne. rewrite lookup_upd.
    destruct (String.eqb k' k) eqn:E; [|reflexivity].
    apply String.eqb_eq in E. contradiction.
  Qed.

  Lemma has_true (m : list (string * V)) k : has m k = true -> exists v, lookup m k = Some v.
  Proof. unfold has. destruct (lookup m k) as [v|]; [eauto | discriminate]. Qed.
End AlistLemmas.

(* ---- result plumbing ----------------------------------------------------------------------- *)
Lemma get_value_ok vals n v : get_value vals n = Ok v -> lookup vals n = Some v.
Proof.
  unfold get_value. destruct (lookup vals n) as [x|]; unfold err1; intros H;
    [injection H as ->; reflexivity | discriminate H].
Qed.

Lemma get_value_some vals n v : lookup vals n = Some v -> get_value vals n = Ok v.
Proof. unfold get_value. intros ->. reflexivity. Qed.

(* walk through the binds / ifs at the head of an hypothesis [H : ... = Ok _] *)
Ltac step_hyp H :=
  lazymatch type of H with
  | bind ?r _ = Ok _ =>
      let E := fresh "E" in destruct r eqn:E; cbn [bind] in H; [|discriminate H]
  | (if ?b then _ else _) = Ok _ => let E := fresh "E" in destruct b eqn:E
  | err1 _ _ = Ok _ => unfold err1 in H; discriminate H
  | Err _ = Ok _ => discriminate H
  end.

Ltac walk H := repeat step_hyp H.

(* ---- frame facts ---------------------------------------------------------------------------- *)
Theorem values_frame_ok : stmt_values_frame.
Proof.
  intros f o a s s' t k H Hw.
  destruct a; unfold exec_action in H; cbn [written] in Hw; walk H;
    injection H as Hs Ht; subst s' t; cbn [set_values values];
    try (rewrite lookup_upd_ne by congruence); reflexivity.
Qed.

Theorem state_frame_ok : stmt_state_frame.
Proof.
  intros f o a s s' t H.
  destruct a; unfold exec_action in H; walk H;
    injection H as Hs Ht; subst s' t;
    cbn [set_values values mem regs last_status cycle is_effect];
    (split; [reflexivity | split; intros Hx; try discriminate Hx; repeat split; reflexivity]).
Qed.

Lemma exec_actions_cons_inv f o a r s s' t :
  exec_actions f o (a :: r) s = Ok (s', t) ->
  exists s1 t1 t2, exec_action f o a s = Ok (s1, t1) /\ exec_actions f o r s1 = Ok (s', t2).
Proof.
  cbn [exec_actions]. intros H.
  destruct (exec_action f o a s) as [[s1 t1]|e1] eqn:E1; cbn [bind fst snd] in H; [|discriminate H].
  destruct (exec_actions f o r s1) as [[s2 t2]|e2] eqn:E2; cbn [bind fst snd] in H; [|discriminate H].
  injection H as Hs Ht. subst s'. exists s1, t1, t2. split; [reflexivity | assumption].
Qed.

Theorem actions_frame_ok : stmt_actions_frame.
Proof.
  intros f o acts. induction acts as [|a r IH]; intros s s' t H.
  - cbn [exec_actions] in H. injection H as Hs Ht. subst s'.
    split; [reflexivity | split; [intros; reflexivity | intros; repeat split; reflexivity]].
  - apply exec_actions_cons_inv in H. destruct H as (s1 & t1 & t2 & H1 & H2).
    apply IH in H2. destruct H2 as (Hc & Hv & Hm).
    pose proof (state_frame_ok f o a s s1 t1 H1) as (Hc1 & Hm1 & _).
    split; [congruence | split].
    + intros k Hk. rewrite Hv by (intros a' Ha'; apply Hk; right; exact Ha').
      apply (values_frame_ok f o a s s1 t1 k H1). apply Hk. left. reflexivity.
    + intros He.
      destruct Hm as (Ha & Hb & Hd); [intros a' Ha'; apply He; right; exact Ha'|].
      destruct Hm1 as (Ha1 & Hb1 & Hd1); [apply He; left; reflexivity|].
      repeat split; congruence.
Qed.

(* ---- the register file ---------------------------------------------------------------------- *)
Lemma set_nth_length l i v : List.length (set_nth l i v) = List.length l.
Proof.
  revert i. induction l as [|x r IH]; intros i; [reflexivity|].
  destruct i as [|i]; cbn [set_nth List.length]; [reflexivity | rewrite IH; reflexivity].
Qed.

Lemma nth_set_nth_same l i v d : (i < List.length l)%nat -> nth i (set_nth l i v) d = v.
Proof.
  revert i. induction l as [|x r IH]; intros i Hi; cbn [List.length] in Hi; [lia|].
  destruct i as [|i]; cbn [set_nth nth]; [reflexivity | apply IH; lia].
Qed.

Lemma nth_set_nth_other l i j v d : i <> j -> nth j (set_nth l i v) d = nth j l d.
Proof.
  revert i j. induction l as [|x r IH]; intros i j Hij; [reflexivity|].
  destruct i as [|i]; destruct j as [|j]; cbn [set_nth nth]; try reflexivity; try congruence.
  apply IH. congruence.
Qed.

Theorem read_reg_ok : stmt_read_reg.
Proof.
  intros f o num outp s nv Hn.
  unfold exec_action. rewrite (get_value_some _ _ _ Hn). cbn [bind]. unfold rf_read.
  destruct (bits nv mod two64 <? N.of_nat (List.length (regs s))) eqn:E; eexists; reflexivity.
Qed.

Theorem write_reg_ok : stmt_write_reg.
Proof.
  intros f o num inp s nv iv Hn Hi.
  unfold exec_action. rewrite (get_value_some _ _ _ Hn). cbn [bind]. unfold rf_write, zero_register.
  destruct ((bits nv mod two64 <? N.of_nat (List.length (regs s))) && negb (bits nv mod two64 =? 15)) eqn:E.
  - rewrite (get_value_some _ _ _ Hi). cbn [bind]. eexists; reflexivity.
  - destruct s as [vs ms rs ls cs]. cbn [values mem regs last_status cycle]. eexists; reflexivity.
Qed.

Theorem rf_laws_ok : stmt_rf_laws.
Proof.
  intros rf n v k L.
  split; [|split; [|split; [|split]]].
  - unfold rf_write.
    destruct ((n <? N.of_nat (List.length rf)) && negb (n =? 15)) eqn:E;
      rewrite ?set_nth_length; exact L.
  - intros Hn. unfold rf_write.
    replace ((n <? N.of_nat (List.length rf)) && negb (n =? 15)) with true by lia.
    unfold rf_read. rewrite set_nth_length.
    replace (n <? N.of_nat (List.length rf)) with true by lia.
    apply nth_set_nth_same. lia.
  - intros Hk. unfold rf_write.
    destruct ((n <? N.of_nat (List.length rf)) && negb (n =? 15)) eqn:E; [|reflexivity].
    unfold rf_read. rewrite set_nth_length.
    destruct (k <? N.of_nat (List.length rf)) eqn:E2; [|reflexivity].
    apply nth_set_nth_other. lia.
  - unfold rf_write. rewrite N.eqb_refl. cbn [negb]. rewrite andb_false_r. reflexivity.
  - intros Hk. unfold rf_read.
    destruct (k <? N.of_nat (List.length rf)) eqn:E; [lia | reflexivity].
Qed.

Theorem M_wins_ok : stmt_M_wins.
Proof.
  intros rf e m vE vM L Hm.
  pose proof (rf_laws_ok rf e vE 0 L) as (L' & _).
  pose proof (rf_laws_ok (rf_write rf e vE) m vM 0 L') as (_ & H2 & _).
  apply H2. exact Hm.
Qed.

Theorem reg15_zero_ok : stmt_reg15_zero.
Proof.
  split; [vm_compute; reflexivity|].
  intros rf n v L H15.
  destruct (N.eq_dec n 15) as [->|Hne].
  - pose proof (rf_laws_ok rf 15 v 15 L) as (_ & _ & _ & H4 & _). rewrite H4. exact H15.
  - pose proof (rf_laws_ok rf n v 15 L) as (_ & _ & H3 & _). rewrite H3 by congruence. exact H15.
Qed.

(* ---- register banks: the clock edge ------------------------------------------------------- *)
Lemma NoDup_app_inv {A} (l l' : list A) :
  NoDup (l ++ l') -> NoDup l /\ NoDup l' /\ (forall x, In x l -> ~ In x l').
Proof.
  induction l as [|a l IH]; cbn [app]; intros H.
  - split; [constructor | split; [exact H | intros x []]].
  - apply NoDup_cons_iff in H. destruct H as (Ha & Hl).
    apply IH in Hl. destruct Hl as (N1 & N2 & N3).
    split; [|split].
    + apply NoDup_cons_iff. split; [|exact N1].
      intros Hin. apply Ha. apply in_or_app. left. exact Hin.
    + exact N2.
    + intros x [Hx|Hx].
      * subst x. intros Hin. apply Ha. apply in_or_app. right. exact Hin.
      * apply N3. exact Hx.
Qed.

Definition sig_outs (sigs : list (string * string * width)) : list string :=
  map (fun x => snd (fst x)) sigs.
Definition sig_ins (sigs : list (string * string * width)) : list string :=
  map (fun x => fst (fst x)) sigs.

Lemma in_sig_outs i o w sigs : In (i, o, w) sigs -> In o (sig_outs sigs).
Proof. intros H. exact (in_map (fun x => snd (fst x)) sigs (i, o, w) H). Qed.

Lemma in_sig_ins i o w sigs : In (i, o, w) sigs -> In i (sig_ins sigs).
Proof. intros H. exact (in_map (fun x => fst (fst x)) sigs (i, o, w) H). Qed.

Lemma in_all_outs banks b x : In b banks -> In x (bank_outs b) -> In x (all_outs banks).
Proof. intros Hb Hx. unfold all_outs. apply in_flat_map. exists b. split; assumption. Qed.

Lemma in_all_ins banks b x : In b banks -> In x (bank_ins b) -> In x (all_ins banks).
Proof. intros Hb Hx. unfold all_ins. apply in_flat_map. exists b. split; assumption. Qed.

Lemma all_outs_cons b r : all_outs (b :: r) = (bank_outs b ++ all_outs r)%list.
Proof. reflexivity. Qed.

Lemma all_ins_cons b r : all_ins (b :: r) = (bank_ins b ++ all_ins r)%list.
Proof. reflexivity. Qed.

Lemma banks_wf_tail b r : banks_wf (b :: r) -> banks_wf r.
Proof.
  intros (ND & Hoi & Hb).
  rewrite all_outs_cons in ND. apply NoDup_app_inv in ND. destruct ND as (_ & ND & _).
  split; [exact ND | split].
  - intros x Hx Hi. apply (Hoi x).
    + rewrite all_outs_cons. apply in_or_app. right. exact Hx.
    + rewrite all_ins_cons. apply in_or_app. right. exact Hi.
  - intros b' Hb'. destruct (Hb b' (or_intror Hb')) as (H1 & H2 & H3 & H4 & H5 & H6).
    rewrite all_outs_cons in H1, H2. rewrite all_ins_cons in H3, H4.
    repeat split.
    + intros Hin. apply H1. apply in_or_app. right. exact Hin.
    + intros Hin. apply H2. apply in_or_app. right. exact Hin.
    + intros Hin. apply H3. apply in_or_app. right. exact Hin.
    + intros Hin. apply H4. apply in_or_app. right. exact Hin.
    + exact H5.
    + apply H6.
    + apply H6.
Qed.

(* facts about the head bank of a well-formed list *)
Lemma banks_wf_head b r :
  banks_wf (b :: r) ->
  NoDup (bank_outs b) /\
  (forall x, In x (bank_outs b) -> ~ In x (all_outs r)) /\
  (forall x, In x (bank_outs b) -> ~ In x (bank_ins b)) /\
  NoDup (map fst (b_defaults b)) /\
  (forall x, In x (bank_outs b) <-> In x (map fst (b_defaults b))).
Proof.
  intros (ND & Hoi & Hb).
  rewrite all_outs_cons in ND. apply NoDup_app_inv in ND. destruct ND as (ND1 & _ & ND3).
  destruct (Hb b (or_introl eq_refl)) as (_ & _ & _ & _ & H5 & H6).
  split; [exact ND1 | split; [exact ND3 | split; [|split; [exact H5 | exact H6]]]].
  intros x Hx Hi. apply (Hoi x).
  - rewrite all_outs_cons. apply in_or_app. left. exact Hx.
  - rewrite all_ins_cons. apply in_or_app. left. exact Hi.
Qed.

Lemma set_defaults_spec defaults : forall vals vals',
  NoDup (map fst defaults) -> set_defaults vals defaults = Ok vals' ->
  (forall k, In k (map fst defaults) -> lookup vals' k = lookup defaults k) /\
  (forall k, ~ In k (map fst defaults) -> lookup vals' k = lookup vals k).
Proof.
  induction defaults as [|[k0 v0] r IH]; intros vals vals' ND H.
  - cbn [set_defaults] in H. injection H as ->.
    split; [intros k [] | intros; reflexivity].
  - cbn [set_defaults] in H. cbn [map fst] in ND.
    apply NoDup_cons_iff in ND. destruct ND as (Hk0 & ND).
    destruct (has vals k0) eqn:Eh; [|unfold err1 in H; discriminate H].
    apply IH in H; [|exact ND]. destruct H as (H1 & H2).
    cbn [map fst]. split.
    + intros k [Hk|Hk].
      * subst k. cbn [lookup]. rewrite String.eqb_refl.
        rewrite H2 by exact Hk0. apply lookup_upd_same.
      * cbn [lookup]. destruct (String.eqb k k0) eqn:E.
        -- apply String.eqb_eq in E. subst k. contradiction.
        -- apply H1. exact Hk.
    + intros k Hk. rewrite H2.
      * apply lookup_upd_ne. intros ->. apply Hk. left. reflexivity.
      * intros Hin. apply Hk. right. exact Hin.
Qed.

Lemma copy_signals_spec sigs : forall vals vals',
  NoDup (sig_outs sigs) -> (forall x, In x (sig_outs sigs) -> ~ In x (sig_ins sigs)) ->
  copy_signals vals sigs = Ok vals' ->
  (forall i o w, In (i, o, w) sigs -> lookup vals' o = lookup vals i) /\
  (forall k, ~ In k (sig_outs sigs) -> lookup vals' k = lookup vals k).
Proof.
  induction sigs as [|[[i0 o0] w0] r IH]; intros vals vals' ND Hoi H.
  - cbn [copy_signals] in H. injection H as ->.
    split; [intros i o w [] | intros; reflexivity].
  - cbn [copy_signals] in H.
    destruct (get_value vals i0) as [nv|e] eqn:Eg; cbn [bind] in H; [|discriminate H].
    destruct (has vals o0) eqn:Eh; [|unfold err1 in H; discriminate H].
    apply get_value_ok in Eg.
    unfold sig_outs in ND. cbn [map fst snd] in ND. fold (sig_outs r) in ND.
    apply NoDup_cons_iff in ND. destruct ND as (Ho0 & ND).
    assert (Hoi' : forall x, In x (sig_outs r) -> ~ In x (sig_ins r)).
    { intros x Hx Hi. apply (Hoi x); [right; exact Hx | right; exact Hi]. }
    apply IH in H; [|exact ND|exact Hoi']. destruct H as (H1 & H2).
    split.
    + intros i o w [Hin|Hin].
      * injection Hin as <- <- <-. rewrite H2 by exact Ho0. rewrite lookup_upd_same.
        symmetry. exact Eg.
      * rewrite (H1 i o w Hin). apply lookup_upd_ne.
        intros ->. apply (Hoi o0); [left; reflexivity | right; apply (in_sig_ins _ _ _ _ Hin)].
    + intros k Hk. rewrite H2.
      * apply lookup_upd_ne. intros ->. apply Hk. left. reflexivity.
      * intros Hin. apply Hk. right. exact Hin.
Qed.

(* the effect of the head bank's clock edge *)
Lemma bank_edge b vals st bu v1 :
  NoDup (bank_outs b) -> (forall x, In x (bank_outs b) -> ~ In x (bank_ins b)) ->
  NoDup (map fst (b_defaults b)) ->
  (forall x, In x (bank_outs b) <-> In x (map fst (b_defaults b))) ->
  (if is_true bu then set_defaults vals (b_defaults b)
   else if negb (is_true st) then copy_signals vals (b_signals b) else Ok vals) = Ok v1 ->
  (forall i o w, In (i, o, w) (b_signals b) ->
     lookup v1 o = if is_true bu then lookup (b_defaults b) o
                   else if is_true st then lookup vals o else lookup vals i) /\
  (forall k, ~ In k (bank_outs b) -> lookup v1 k = lookup vals k).
Proof.
  intros ND Hoi NDd Hiff H.
  destruct (is_true bu) eqn:Ebu.
  - apply set_defaults_spec in H; [|exact NDd]. destruct H as (H1 & H2). split.
    + intros i o w Hin. apply H1. apply Hiff. exact (in_sig_outs _ _ _ _ Hin).
    + intros k Hk. apply H2. intros Hin. apply Hk. apply Hiff. exact Hin.
  - destruct (is_true st) eqn:Est; cbn [negb] in H.
    + injection H as <-. split; intros; reflexivity.
    + apply copy_signals_spec in H; [|exact ND|exact Hoi]. exact H.
Qed.

Theorem clock_edge_ok : stmt_clock_edge.
Proof.
  intros banks. induction banks as [|b r IH]; intros vals vals' WF H.
  - cbn [process_banks] in H. injection H as <-.
    split; [intros b i o w [] | intros; reflexivity].
  - cbn [process_banks] in H.
    destruct (get_value vals (b_stall b)) as [st|e] eqn:Est; cbn [bind] in H; [|discriminate H].
    destruct (get_value vals (b_bubble b)) as [bu|e] eqn:Ebu; cbn [bind] in H; [|discriminate H].
    match type of H with bind ?x _ = _ => destruct x as [v1|e] eqn:E1 end;
      cbn [bind] in H; [|discriminate H].
    apply get_value_ok in Est. apply get_value_ok in Ebu.
    pose proof (banks_wf_head b r WF) as (ND & Hdis & Hoi & NDd & Hiff).
    pose proof (bank_edge b vals st bu v1 ND Hoi NDd Hiff E1) as (A & B).
    pose proof (IH v1 vals' (banks_wf_tail b r WF) H) as (IH1 & IH2).
    destruct WF as (NDall & Hoiall & Hball).
    split.
    + intros b' i o w [Hb|Hb] Hs.
      * subst b'. exists st, bu. split; [exact Est | split; [exact Ebu|]].
        rewrite IH2 by (apply Hdis; exact (in_sig_outs _ _ _ _ Hs)).
        apply (A i o w Hs).
      * destruct (IH1 b' i o w Hb Hs) as (st' & bu' & Hst' & Hbu' & Hv).
        destruct (Hball b' (or_intror Hb)) as (N1 & N2 & _).
        assert (Ho : In o (all_outs r)) by (apply (in_all_outs r b' o Hb), (in_sig_outs _ _ _ _ Hs)).
        assert (Hi : In i (all_ins (b :: r))).
        { rewrite all_ins_cons. apply in_or_app. right.
          apply (in_all_ins r b' i Hb), (in_sig_ins _ _ _ _ Hs). }
        assert (Bst : ~ In (b_stall b') (bank_outs b)).
        { intros Hin. apply N1. rewrite all_outs_cons. apply in_or_app. left. exact Hin. }
        assert (Bbu : ~ In (b_bubble b') (bank_outs b)).
        { intros Hin. apply N2. rewrite all_outs_cons. apply in_or_app. left. exact Hin. }
        assert (Bo : ~ In o (bank_outs b)).
        { intros Hin. apply (Hdis o Hin). exact Ho. }
        assert (Bi : ~ In i (bank_outs b)).
        { intros Hin. apply (Hoiall i); [|exact Hi].
          rewrite all_outs_cons. apply in_or_app. left. exact Hin. }
        exists st', bu'.
        rewrite <- (B _ Bst), <- (B _ Bbu), <- (B _ Bo), <- (B _ Bi).
        split; [exact Hst' | split; [exact Hbu' | exact Hv]].
    + intros k Hk. rewrite all_outs_cons in Hk.
      rewrite IH2 by (intros Hin; apply Hk; apply in_or_app; right; exact Hin).
      apply B. intros Hin. apply Hk. apply in_or_app. left. exact Hin.
Qed.

(* ---- register banks: the initial state ----------------------------------------------------- *)
Lemma init_signals_spec defaults sigs : forall vals vals',
  NoDup (sig_outs sigs) -> (forall x, In x (sig_outs sigs) -> ~ In x (sig_ins sigs)) ->
  init_signals vals defaults sigs = Ok vals' ->
  (forall i o w, In (i, o, w) sigs -> lookup vals' o = lookup defaults o) /\
  (forall k, ~ In k (sig_outs sigs) -> ~ In k (sig_ins sigs) -> lookup vals' k = lookup vals k).
Proof.
  induction sigs as [|[[i0 o0] w0] r IH]; intros vals vals' ND Hoi H.
  - cbn [init_signals] in H. injection H as ->.
    split; [intros i o w [] | intros; reflexivity].
  - cbn [init_signals] in H.
    destruct (lookup defaults o0) as [d|] eqn:Ed; [|unfold err1 in H; discriminate H].
    unfold sig_outs in ND. cbn [map fst snd] in ND. fold (sig_outs r) in ND.
    apply NoDup_cons_iff in ND. destruct ND as (Ho0 & ND).
    assert (Hoi' : forall x, In x (sig_outs r) -> ~ In x (sig_ins r)).
    { intros x Hx Hi. apply (Hoi x); [right; exact Hx | right; exact Hi]. }
    assert (Ho0i : ~ In o0 (sig_ins r)).
    { intros Hin. apply (Hoi o0); [left; reflexivity | right; exact Hin]. }
    apply IH in H; [|exact ND|exact Hoi']. destruct H as (H1 & H2).
    split.
    + intros i o w [Hin|Hin].
      * injection Hin as <- <- <-. rewrite (H2 o0 Ho0 Ho0i). rewrite lookup_upd_same.
        symmetry. exact Ed.
      * apply (H1 i o w Hin).
    + intros k Hko Hki. rewrite H2.
      * rewrite lookup_upd_ne by (intros ->; apply Hko; left; reflexivity).
        apply lookup_upd_ne. intros ->. apply Hki. left. reflexivity.
      * intros Hin. apply Hko. right. exact Hin.
      * intros Hin. apply Hki. right. exact Hin.
Qed.

Lemma init_banks_spec banks : forall vals vals',
  banks_wf banks -> init_banks vals banks = Ok vals' ->
  (forall b i o w, In b banks -> In (i, o, w) (b_signals b) ->
     lookup vals' o = lookup (b_defaults b) o) /\
  (forall b, In b banks ->
     lookup vals' (b_stall b) = Some false_value /\ lookup vals' (b_bubble b) = Some false_value) /\
  (forall k, ~ In k (all_outs banks) -> ~ In k (all_ins banks) ->
     (forall b, In b banks -> k <> b_stall b /\ k <> b_bubble b) -> lookup vals' k = lookup vals k) /\
  (forall k, ~ In k (all_outs banks) -> ~ In k (all_ins banks) ->
     lookup vals k = Some false_value -> lookup vals' k = Some false_value).
Proof.
  induction banks as [|b r IH]; intros vals vals' WF H.
  - cbn [init_banks] in H. injection H as <-.
    split; [intros b i o w [] | split; [intros b [] | split; [intros; reflexivity | intros; assumption]]].
  - cbn [init_banks] in H.
    destruct (init_signals vals (b_defaults b) (b_signals b)) as [v1|e] eqn:E1;
      cbn [bind] in H; [|discriminate H].
    pose proof (banks_wf_head b r WF) as (ND & Hdis & Hoi & NDd & Hiff).
    pose proof (init_signals_spec _ _ _ _ ND Hoi E1) as (S1 & S2).
    fold (bank_outs b) in S2. fold (bank_ins b) in S2.
    pose proof (IH _ vals' (banks_wf_tail b r WF) H) as (I1 & I2 & I3 & I4).
    destruct WF as (NDall & Hoiall & Hball).
    destruct (Hball b (or_introl eq_refl)) as (Nst & Nbu & Nsti & Nbui & _).
    rewrite all_outs_cons in Nst, Nbu. rewrite all_ins_cons in Nsti, Nbui.
    set (v2 := upd (upd v1 (b_bubble b) false_value) (b_stall b) false_value) in *.
    assert (V2st : lookup v2 (b_stall b) = Some false_value) by apply lookup_upd_same.
    assert (V2bu : lookup v2 (b_bubble b) = Some false_value).
    { unfold v2. rewrite lookup_upd.
      destruct (String.eqb (b_bubble b) (b_stall b)); [reflexivity | apply lookup_upd_same]. }
    assert (V2false : forall k, lookup v1 k = Some false_value -> lookup v2 k = Some false_value).
    { intros k Hk. unfold v2. rewrite !lookup_upd.
      destruct (String.eqb k (b_stall b)); [reflexivity|].
      destruct (String.eqb k (b_bubble b)); [reflexivity | exact Hk]. }
    split; [|split; [|split]].
    + intros b' i o w [Hb|Hb] Hs; [subst b'|exact (I1 b' i o w Hb Hs)].
      assert (Ho : In o (bank_outs b)) by exact (in_sig_outs _ _ _ _ Hs).
      assert (Hoall : In o (all_outs (b :: r))).
      { rewrite all_outs_cons. apply in_or_app. left. exact Ho. }
      rewrite I3.
      * unfold v2.
        rewrite lookup_upd_ne by (intros ->; apply Nst; apply in_or_app; left; exact Ho).
        rewrite lookup_upd_ne by (intros ->; apply Nbu; apply in_or_app; left; exact Ho).
        exact (S1 i o w Hs).
      * apply Hdis. exact Ho.
      * intros Hin. apply (Hoiall o Hoall). rewrite all_ins_cons. apply in_or_app. right. exact Hin.
      * intros b'' Hb''. destruct (Hball b'' (or_intror Hb'')) as (M1 & M2 & _).
        split; intros ->; [apply M1 | apply M2]; exact Hoall.
    + intros b' [Hb|Hb]; [subst b'|exact (I2 b' Hb)].
      split; apply I4; try assumption.
      * intros Hin. apply Nst. apply in_or_app. right. exact Hin.
      * intros Hin. apply Nsti. apply in_or_app. right. exact Hin.
      * intros Hin. apply Nbu. apply in_or_app. right. exact Hin.
      * intros Hin. apply Nbui. apply in_or_app. right. exact Hin.
    + intros k Hko Hki Hsb. rewrite all_outs_cons in Hko. rewrite all_ins_cons in Hki.
      destruct (Hsb b (or_introl eq_refl)) as (K1 & K2).
      rewrite I3.
      * unfold v2. rewrite lookup_upd_ne by exact K1. rewrite lookup_upd_ne by exact K2.
        apply S2; intros Hin; [apply Hko | apply Hki]; apply in_or_app; left; exact Hin.
      * intros Hin. apply Hko. apply in_or_app. right. exact Hin.
      * intros Hin. apply Hki. apply in_or_app. right. exact Hin.
      * intros b' Hb'. apply Hsb. right. exact Hb'.
    + intros k Hko Hki Hk. rewrite all_outs_cons in Hko. rewrite all_ins_cons in Hki.
      apply I4.
      * intros Hin. apply Hko. apply in_or_app. right. exact Hin.
      * intros Hin. apply Hki. apply in_or_app. right. exact Hin.
      * apply V2false. rewrite S2; [exact Hk| |]; intros Hin; [apply Hko | apply Hki];
          apply in_or_app; left; exact Hin.
Qed.

Theorem initial_state_ok : stmt_initial_state.
Proof.
  intros p s WF H. unfold initial_state in H.
  destruct (init_banks (p_consts p) (p_banks p)) as [v|e] eqn:E; cbn [bind] in H; [|discriminate H].
  injection H as <-. cbn [cycle mem regs last_status values].
  pose proof (init_banks_spec _ _ _ WF E) as (I1 & I2 & _ & _).
  repeat (split; [reflexivity|]).
  split; [exact I1 | exact I2].
Qed.

(* ---- the run loop --------------------------------------------------------------------------- *)
Lemma step_inv f o p s s' t :
  step f o p s = Ok (s', t) ->
  exists s1 t1 v2,
    exec_actions f o (p_actions p) s = Ok (s1, t1) /\
    process_banks (values s1) (p_banks p) = Ok v2 /\
    s' = mkState v2 (mem s1) (regs s1) (last_status s1) (cycle s1 + 1).
Proof.
  unfold step. intros H.
  destruct (exec_actions f o (p_actions p) s) as [[s1 t1]|e] eqn:Ea; cbn [bind fst snd] in H;
    [|discriminate H].
  destruct (if o_show_wire_values o then dump_values o p (values s1) else Ok "") as [tbl|e] eqn:Et;
    cbn [bind] in H; [|discriminate H].
  destruct (process_banks (values s1) (p_banks p)) as [v2|e] eqn:Ep; cbn [bind] in H;
    [|discriminate H].
  injection H as Hs Ht. exists s1, t1, v2. split; [reflexivity | split; [exact Ep | symmetry; exact Hs]].
Qed.

Theorem step_cycle_ok : stmt_step_cycle.
Proof.
  intros f o p s s' t H. apply step_inv in H. destruct H as (s1 & t1 & v2 & Ha & _ & ->).
  cbn [cycle]. apply actions_frame_ok in Ha. destruct Ha as (Hc & _). rewrite Hc. reflexivity.
Qed.

Lemma run_unfold fuel f o p s :
  run fuel f o p s =
  if done o s then Ok (s, "")
  else match fuel with
       | O => err1 OutOfFuel []
       | S fu =>
           do d <- (if o_show_regs_mem o then dump_y86 o p s else Ok "");
           do x <- step f o p s;
           do y <- run fu f o p (fst x);
           Ok (fst y, d ++ snd x ++ snd y)
       end.
Proof. destruct fuel; reflexivity. Qed.

Lemma run_done fuel f o p s : done o s = true -> run fuel f o p s = Ok (s, "").
Proof. intros D. rewrite run_unfold, D. reflexivity. Qed.

Lemma run_O_not_done f o p s : done o s = false -> run O f o p s = err1 OutOfFuel [].
Proof. intros D. rewrite run_unfold, D. reflexivity. Qed.

Lemma run_S_ok fu f o p s s' t :
  done o s = false -> run (S fu) f o p s = Ok (s', t) ->
  exists s1 t1 t2, step f o p s = Ok (s1, t1) /\ run fu f o p s1 = Ok (s', t2).
Proof.
  intros D H. rewrite run_unfold, D in H.
  destruct (if o_show_regs_mem o then dump_y86 o p s else Ok "") as [d|e] eqn:Ed;
    cbn [bind] in H; [|discriminate H].
  destruct (step f o p s) as [[s1 t1]|e] eqn:Es; cbn [bind fst snd] in H; [|discriminate H].
  destruct (run fu f o p s1) as [[s2 t2]|e] eqn:Er; cbn [bind fst snd] in H; [|discriminate H].
  injection H as Hs Ht. subst s'. exists s1, t1, t2. split; [reflexivity | exact Er].
Qed.

Lemma run_S_err fu f o p s es :
  done o s = false -> run (S fu) f o p s = Err es ->
  (o_show_regs_mem o = true /\ dump_y86 o p s = Err es) \/
  step f o p s = Err es \/
  exists s1 t1, step f o p s = Ok (s1, t1) /\ run fu f o p s1 = Err es.
Proof.
  intros D H. rewrite run_unfold, D in H.
  destruct (o_show_regs_mem o) eqn:Eo.
  - destruct (dump_y86 o p s) as [d|e] eqn:Ed; cbn [bind] in H.
    + right.
      destruct (step f o p s) as [[s1 t1]|e] eqn:Es; cbn [bind fst snd] in H.
      * right. exists s1, t1. split; [reflexivity|].
        destruct (run fu f o p s1) as [[s2 t2]|e] eqn:Er; cbn [bind fst snd] in H;
          [discriminate H | exact H].
      * left. exact H.
    + left. split; [reflexivity | injection H as ->; reflexivity].
  - cbn [bind] in H. right.
    destruct (step f o p s) as [[s1 t1]|e] eqn:Es; cbn [bind fst snd] in H.
    + right. exists s1, t1. split; [reflexivity|].
      destruct (run fu f o p s1) as [[s2 t2]|e] eqn:Er; cbn [bind fst snd] in H;
        [discriminate H | exact H].
    + left. exact H.
Qed.

Lemma done_false_lt o s : done o s = false -> cycle s < o_timeout o.
Proof. unfold done, timed_out. intros H. lia. Qed.

Lemma timed_out_done o s : o_timeout o <= cycle s -> done o s = true.
Proof. unfold done, timed_out. intros H. lia. Qed.

Theorem run_stops_exactly_ok : stmt_run_stops_exactly.
Proof.
  intros fuel f o p. induction fuel as [|fu IH]; intros s s' t H.
  - destruct (done o s) eqn:D.
    + rewrite (run_done _ _ _ _ _ D) in H. injection H as Hs Ht. subst s'.
      exists O. cbn [iter_step]. split; [reflexivity | split; [exact D | split; [lia|]]].
      intros j Hj. lia.
    + rewrite (run_O_not_done _ _ _ _ D) in H. unfold err1 in H. discriminate H.
  - destruct (done o s) eqn:D.
    + rewrite (run_done _ _ _ _ _ D) in H. injection H as Hs Ht. subst s'.
      exists O. cbn [iter_step]. split; [reflexivity | split; [exact D | split; [lia|]]].
      intros j Hj. lia.
    + apply (run_S_ok _ _ _ _ _ _ _ D) in H. destruct H as (s1 & t1 & t2 & Hs & Hr).
      apply IH in Hr. destruct Hr as (k & Hk & Hd & Hc & Hj).
      pose proof (step_cycle_ok _ _ _ _ _ _ Hs) as Hc1.
      exists (S k). cbn [iter_step]. rewrite Hs. cbn [bind fst].
      split; [exact Hk | split; [exact Hd | split; [lia|]]].
      intros j Hlt. destruct j as [|j].
      * exists s. split; [reflexivity | exact D].
      * cbn [iter_step]. rewrite Hs. cbn [bind fst]. apply Hj. lia.
Qed.

Theorem run_fuel_suffices_ok : stmt_run_fuel_suffices.
Proof.
  intros fuel f o p. induction fuel as [|fu IH]; intros s es Hf H.
  - destruct (done o s) eqn:D.
    + rewrite (run_done _ _ _ _ _ D) in H. discriminate H.
    + apply done_false_lt in D. lia.
  - destruct (done o s) eqn:D.
    + rewrite (run_done _ _ _ _ _ D) in H. discriminate H.
    + apply (run_S_err _ _ _ _ _ _ D) in H.
      destruct H as [(Ho & Hd) | [Hs | (s1 & t1 & Hs & Hr)]].
      * exists O, s. cbn [iter_step]. split; [reflexivity | split; [exact D|]].
        right. split; assumption.
      * exists O, s. cbn [iter_step]. split; [reflexivity | split; [exact D|]].
        left. exact Hs.
      * pose proof (step_cycle_ok _ _ _ _ _ _ Hs) as Hc1.
        apply done_false_lt in D.
        apply IH in Hr; [|lia]. destruct Hr as (k & sk & Hk & Hd & He).
        exists (S k), sk. cbn [iter_step]. rewrite Hs. cbn [bind fst].
        split; [exact Hk | split; [exact Hd | exact He]].
Qed.

Theorem run_within_timeout_ok : stmt_run_within_timeout.
Proof.
  split.
  - intros fuel f o p. induction fuel as [|fu IH]; intros s s' t H Hc.
    + destruct (done o s) eqn:D.
      * rewrite (run_done _ _ _ _ _ D) in H. injection H as Hs Ht. subst s'. exact Hc.
      * rewrite (run_O_not_done _ _ _ _ D) in H. unfold err1 in H. discriminate H.
    + destruct (done o s) eqn:D.
      * rewrite (run_done _ _ _ _ _ D) in H. injection H as Hs Ht. subst s'. exact Hc.
      * apply (run_S_ok _ _ _ _ _ _ _ D) in H. destruct H as (s1 & t1 & t2 & Hs & Hr).
        pose proof (step_cycle_ok _ _ _ _ _ _ Hs) as Hc1.
        apply done_false_lt in D.
        apply (IH _ _ _ Hr). lia.
  - intros fuel f o p s Hc. apply run_done. apply timed_out_done. exact Hc.
Qed.

(* ---- the report ----------------------------------------------------------------------------- *)
Theorem report_spec_ok : stmt_report_spec.
Proof.
  intros o s.
  unfold report, spec_report, stat_of, halted, done, timed_out, status_or_default.
  destruct (lookup (values s) "Stat") as [v|].
  - generalize (bits v mod 256). intros x.
    destruct (o_timeout o <=? cycle s) eqn:ET;
      destruct x as [|[[q|q|]|[q|q|]|]]; reflexivity.
  - destruct (o_timeout o <=? cycle s) eqn:ET; reflexivity.
Qed.

Theorem done_spec_ok : stmt_done_spec.
Proof.
  intros o s.
  unfold report, halted, done, timed_out, status_or_default.
  destruct (lookup (values s) "Stat") as [v|].
  - generalize (bits v mod 256). intros x.
    destruct (o_timeout o <=? cycle s) eqn:ET;
      destruct x as [|[[q|q|]|[q|q|]|]]; reflexivity.
  - destruct (o_timeout o <=? cycle s) eqn:ET; reflexivity.
Qed.

Lemma halted_done o s : halted s = true -> done o s = true.
Proof. unfold halted, done. intros H. lia. Qed.

Theorem dump_report_ok : stmt_dump_report.
Proof.
  intros o p s text H. unfold dump_y86 in H.
  destruct (if o_show_banks o then dump_custom_registers (values s) (p_banks p) else Ok "")
    as [banks|e] eqn:Eb; cbn [bind] in H; [|discriminate H].
  injection H as <-. exists banks. split.
  - unfold report.
    destruct (halted s) eqn:Eh.
    + rewrite (halted_done o s Eh). cbn [header_of footer_of tail_of andb negb].
      destruct (timed_out o s) eqn:Et; cbn [negb]; reflexivity.
    + destruct (timed_out o s) eqn:Et.
      * cbn [header_of footer_of tail_of negb]. rewrite andb_false_r. reflexivity.
      * destruct (done o s) eqn:Ed; cbn [header_of footer_of tail_of andb negb];
          unfold name_status; reflexivity.
  - intros Ho. rewrite Ho in Eb. injection Eb as <-. reflexivity.
Qed.

(* ---- options never steer ------------------------------------------------------------------ *)
Ltac head_step :=
  lazymatch goal with
  | |- match ?X with _ => _ end =>
      lazymatch X with
      | bind ?r _ => let E := fresh "E" in destruct r eqn:E; cbn [bind]
      | if ?b then _ else _ => let E := fresh "E" in destruct b eqn:E; cbn [bind]
      | err1 _ _ => unfold err1; cbn [bind]
      end
  end.

Lemma exec_action_options f o o' a s :
  match exec_action f o a s, exec_action f o' a s with
  | Ok (s1, _), Ok (s2, _) => s1 = s2
  | Err e1, Err e2 => e1 = e2
  | _, _ => False
  end.
Proof.
  destruct a; unfold exec_action; repeat head_step; reflexivity.
Qed.

Theorem exec_options_ok : stmt_exec_options.
Proof.
  intros f o o' acts. induction acts as [|a r IH]; intros s.
  - cbn [exec_actions]. reflexivity.
  - cbn [exec_actions].
    pose proof (exec_action_options f o o' a s) as Ha.
    destruct (exec_action f o a s) as [[s1 t1]|e1];
      destruct (exec_action f o' a s) as [[s2 t2]|e2]; try contradiction; cbn [bind fst snd].
    + subst s2. specialize (IH s1).
      destruct (exec_actions f o r s1) as [[s3 t3]|e3];
        destruct (exec_actions f o' r s1) as [[s4 t4]|e4]; try contradiction; cbn [bind fst snd];
        exact IH.
    + exact Ha.
Qed.

Theorem step_options_ok : stmt_step_options.
Proof.
  intros f o o' p s s1 t1 s2 t2 H1 H2.
  apply step_inv in H1. destruct H1 as (a1 & u1 & v1 & Ha1 & Hp1 & ->).
  apply step_inv in H2. destruct H2 as (a2 & u2 & v2 & Ha2 & Hp2 & ->).
  pose proof (exec_options_ok f o o' (p_actions p) s) as He.
  rewrite Ha1, Ha2 in He. subst a2. rewrite Hp1 in Hp2. injection Hp2 as <-. reflexivity.
Qed.

Lemma done_timeout_eq o o' s : o_timeout o = o_timeout o' -> done o' s = done o s.
Proof. unfold done, timed_out. intros ->. reflexivity. Qed.

Theorem run_options_ok : stmt_run_options.
Proof.
  intros fuel f o o' p. induction fuel as [|fu IH]; intros s s1 t1 s2 t2 HT H1 H2.
  - destruct (done o s) eqn:D.
    + rewrite (run_done _ _ _ _ _ D) in H1.
      rewrite <- (done_timeout_eq o o' s HT) in D. rewrite (run_done _ _ _ _ _ D) in H2.
      congruence.
    + rewrite (run_O_not_done _ _ _ _ D) in H1. unfold err1 in H1. discriminate H1.
  - destruct (done o s) eqn:D.
    + rewrite (run_done _ _ _ _ _ D) in H1.
      rewrite <- (done_timeout_eq o o' s HT) in D. rewrite (run_done _ _ _ _ _ D) in H2.
      congruence.
    + apply (run_S_ok _ _ _ _ _ _ _ D) in H1. destruct H1 as (a1 & u1 & w1 & Hs1 & Hr1).
      rewrite <- (done_timeout_eq o o' s HT) in D.
      apply (run_S_ok _ _ _ _ _ _ _ D) in H2. destruct H2 as (a2 & u2 & w2 & Hs2 & Hr2).
      pose proof (step_options_ok _ _ _ _ _ _ _ _ _ Hs1 Hs2) as Heq. subst a2.
      exact (IH _ _ _ _ _ HT Hr1 Hr2).
Qed.

(* ---- axiom audit ---------------------------------------------------------------------------- *)
Print Assumptions values_frame_ok.
Print Assumptions state_frame_ok.
Print Assumptions actions_frame_ok.
Print Assumptions read_reg_ok.
Print Assumptions write_reg_ok.
Print Assumptions rf_laws_ok.
Print Assumptions M_wins_ok.
Print Assumptions reg15_zero_ok.
Print Assumptions clock_edge_ok.
Print Assumptions initial_state_ok.
Print Assumptions step_cycle_ok.
Print Assumptions run_stops_exactly_ok.
Print Assumptions run_fuel_suffices_ok.
Print Assumptions run_within_timeout_ok.
Print Assumptions report_spec_ok.
Print Assumptions done_spec_ok.
Print Assumptions dump_report_ok.
Print Assumptions exec_options_ok.
Print Assumptions step_options_ok.
Print Assumptions run_options_ok.
