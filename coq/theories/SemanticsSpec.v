(* C01 + C02 together: the MEANING of one simulated cycle, as a fixed-point statement over the
   SOURCE program (the statement list), not over the compiled action list.

   A wire map [v : string -> N] is a SOLUTION of the cycle that starts in machine state [s] when
   every wire the program defines holds exactly the value its definition yields from the values
   [v] itself gives to the wires the definition reads:
     - constants and register-bank outputs hold their start-of-cycle values; a bank's stall_X /
       bubble_X that the program leaves unassigned is 0;
     - for every assignment  n = e  of the program text:  v n = the denotation of e under v
       (ExprSpec.den: plain arithmetic at the width the checker assigns to e), truncated to the
       declared width of n;
     - for every built-in component all of whose inputs the program assigns: its output is the
       content of the register file / the memory AS THEY ARE AT THE START OF THE CYCLE, selected
       by the input values in v.
   Nothing else is constrained.  The definition never mentions an evaluation order, an action
   list or the scheduler.

   The theorems (proofs in SemanticsProofs.v): what the simulator computes in a cycle IS a
   solution; the solution is UNIQUE (acyclicity), so it does not depend on the order in which the
   statements appear or are evaluated; a solution exists for EVERY accepted program and state
   (ExprSpec.den reads x / 0 as 0), and the simulator's cycle succeeds exactly when no division the
   lazy evaluator reaches under that solution has divisor 0 - otherwise it stops with the
   explicit report; the next machine state is a function of the solution. *)
From Coq Require Import List NArith String Permutation.
From HclV Require Import Base Expr ExprSpec Machine MachineSpec MemSpec SchedSpec Build BuildSpec
     Generated CompleteSpec HistorySpec.
Open Scope string_scope.
Open Scope list_scope.
Open Scope N_scope.

(* ---- vocabulary ----------------------------------------------------------------------------- *)
(* the number every wire shows *)
Definition wire_map := string -> N.

(* ExprSpec.den reads the environment through [bits] only *)
Definition env_of (v : wire_map) : string -> option wval := fun n => Some (mkV (v n) Unl).

(* a wire map with the declared widths attached: what the evaluator would see *)
Definition typed_env (G : string -> option width) (v : wire_map) : string -> option wval :=
  fun n => match G n with Some w => Some (mkV (v n) w) | None => None end.

(* a built-in component is in use when the program assigns all its inputs *)
Definition uses (stmts : list stmt) (ins : list string) : bool :=
  forallb (fun i => mem_str i (assigned_names stmts)) ins.

(* the program registers: fifteen of them; number 15 (REG_NONE) reads 0 *)
Definition reg_content (r : list N) (n : N) : N := if n <? 15 then nth (N.to_nat n) r 0 else 0.

(* the built-in components with an output, as the solution below lists them: inputs and output.
   [stmt_ports_are_the_table]: these are exactly the components of the compiled implementation *)
Definition ports_with_output : list (list string * string) :=
  [(["pc"], "i10bytes"); (["mem_addr"; "mem_readbit"], "mem_output");
   (["reg_srcA"], "reg_outputA"); (["reg_srcB"], "reg_outputB")].
Definition ports_without_output : list (list string) :=
  [["Stat"]; ["mem_addr"; "mem_input"; "mem_writebit"]; ["reg_dstE"; "reg_inputE"]; ["reg_dstM"; "reg_inputM"]].

Definition stmt_ports_are_the_table : Prop :=
  flat_map (fun c => match ff_out c with Some (o, _) => [(fixed_in_names c, o)] | None => [] end) gen_fixed
    = ports_with_output /\
  flat_map (fun c => match ff_out c with Some _ => [] | None => [fixed_in_names c] end) gen_fixed
    = ports_without_output /\
  map ff_action gen_fixed = table_actions.

(* ---- 1. the solution of a cycle ---------------------------------------------------------------- *)
(* [f]: the language options; [G]: the declared width of every name; [stmts]: the program text;
   [s]: the machine state at the start of the cycle (registers, memory, and - in [values s] - the
   constants and the register-bank outputs) *)
Record cycle_solution (f : features) (G : string -> option width) (stmts : list stmt)
       (s : mstate) (v : wire_map) : Prop := {
  (* constants and register-bank outputs: their start-of-cycle values *)
  sol_const : forall n, In n (const_names stmts) -> v n = wire s n;
  sol_bank_output : forall n, In n (bank_outputs stmts) -> v n = wire s n;
  (* a stall_X / bubble_X the program does not assign *)
  sol_unassigned_control : forall n, defaulted stmts n -> v n = 0;
  (* every assignment n = e: the value HCL defines for e from the values in v, at the width the
     checker assigns to e, truncated to the declared width of n *)
  sol_assign : forall n e w, In (n, e) (assign_exprs stmts) -> G n = Some w ->
      v n = den f G (env_of v) e mod 2 ^ nbits w;
  (* the register file read ports: the content at the start of the cycle *)
  sol_reg_outputA : uses stmts ["reg_srcA"] = true ->
      v "reg_outputA" = reg_content (regs s) (v "reg_srcA");
  sol_reg_outputB : uses stmts ["reg_srcB"] = true ->
      v "reg_outputB" = reg_content (regs s) (v "reg_srcB");
  (* the data memory read port: the 8 bytes at mem_addr, little-endian, as they are at the start
     of the cycle; 0 when mem_readbit is 0 *)
  sol_mem_output : uses stmts ["mem_addr"; "mem_readbit"] = true ->
      v "mem_output" = if v "mem_readbit" =? 0 then 0
                       else le_bytes (byte_at (mem s)) (v "mem_addr") 8;
  (* the instruction memory: the 10 bytes at pc *)
  sol_i10bytes : uses stmts ["pc"] = true ->
      v "i10bytes" = le_bytes (byte_at (mem s)) (v "pc") 10
}.

(* the wires a solution constrains: constants, register-bank signals (outputs, inputs - which are
   always assigned -, stall_X / bubble_X), assigned names, outputs of components in use *)
Definition constrained (stmts : list stmt) (k : string) : Prop :=
  In k (const_names stmts) \/ In k (bank_outputs stmts) \/ In k (bank_specials stmts) \/
  In k (assigned_names stmts) \/
  exists ins, In (ins, k) ports_with_output /\ uses stmts ins = true.

(* ---- the programs and states the theorems speak about ------------------------------------------ *)
(* [fault_free_with f gen_fixed il iu cv G stmts] (CompleteSpec.v) is the declarative description
   of an accepted program: cv = the values of its constants, G = the declared widths.  Every
   accepted program has them, and is well typed for exactly this G *)
Definition stmt_accepted_has_declared_widths : Prop :=
  forall f il iu stmts p,
    Forall wf_stmt stmts -> build_program f gen_fixed il iu stmts = Ok p ->
    exists cv G, fault_free_with f gen_fixed il iu cv G stmts /\ program_ok f G p.

Definition stmt_declared_widths_type_the_program : Prop :=
  forall f il iu stmts p cv G,
    Forall wf_stmt stmts -> build_program f gen_fixed il iu stmts = Ok p ->
    fault_free_with f gen_fixed il iu cv G stmts -> program_ok f G p.

(* what a state reached by the simulator satisfies beyond SchedSpec.state_ok: the control signals
   the program leaves unassigned show 0, register 15 holds 0, constants show their values *)
Definition cycle_start (stmts : list stmt) (cv : string -> option wval) (s : mstate) : Prop :=
  (forall x, defaulted stmts x -> wire s x = 0) /\
  nth 15 (regs s) 0 = 0 /\
  (forall n c, cv n = Some c -> lookup (values s) n = Some c).

(* it holds initially (on any memory image) and is preserved by every cycle *)
Definition stmt_cycle_start_invariant : Prop :=
  forall f il iu o stmts p cv G,
    Forall wf_stmt stmts -> build_program f gen_fixed il iu stmts = Ok p ->
    fault_free_with f gen_fixed il iu cv G stmts ->
    (forall s0 img, initial_state p = Ok s0 -> wf_mem img ->
       state_ok G p (load_image s0 img) /\ cycle_start stmts cv (load_image s0 img)) /\
    (forall s s' t, state_ok G p s -> cycle_start stmts cv s -> step f o p s = Ok (s', t) ->
       state_ok G p s' /\ cycle_start stmts cv s').

(* ---- 2. what the simulator computes is a solution ------------------------------------------------ *)
(* the wire values after the actions of the cycle (values s1; the clock edge that follows rewrites
   register-bank outputs only) are a solution of the cycle *)
Definition stmt_cycle_solution_exists_and_is_computed : Prop :=
  forall f il iu o stmts p cv G s s' t,
    Forall wf_stmt stmts -> build_program f gen_fixed il iu stmts = Ok p ->
    fault_free_with f gen_fixed il iu cv G stmts ->
    state_ok G p s -> cycle_start stmts cv s ->
    step f o p s = Ok (s', t) ->
    exists s1 t1,
      exec_actions f o (p_actions p) s = Ok (s1, t1) /\
      cycle_solution f G stmts s (wire s1) /\
      (forall k, ~ In k (bank_outputs stmts) -> lookup (values s') k = lookup (values s1) k) /\
      (* every constrained wire holds a value of exactly its declared width *)
      (forall k, constrained stmts k ->
         exists x w, lookup (values s1) k = Some x /\ G k = Some w /\ wd x = w /\ bits x < 2 ^ nbits w).

(* ---- 3. the solution is unique ------------------------------------------------------------------- *)
(* purely declarative: no simulator, no compiled program *)
Definition stmt_cycle_solution_unique : Prop :=
  forall f il iu stmts cv G s v1 v2,
    fault_free_with f gen_fixed il iu cv G stmts ->
    cycle_solution f G stmts s v1 -> cycle_solution f G stmts s v2 ->
    forall k, constrained stmts k -> v1 k = v2 k.

(* hence: whatever order the statements are written in, and whatever order the simulator evaluates
   them in, the values it computes are THE solution of the cycle *)
Definition stmt_computed_is_the_solution : Prop :=
  forall f il iu o stmts p cv G s s1 t1 v,
    Forall wf_stmt stmts -> build_program f gen_fixed il iu stmts = Ok p ->
    fault_free_with f gen_fixed il iu cv G stmts ->
    state_ok G p s -> cycle_start stmts cv s ->
    exec_actions f o (p_actions p) s = Ok (s1, t1) ->
    cycle_solution f G stmts s v ->
    forall k, constrained stmts k -> wire s1 k = v k.

(* being a solution does not depend on the order of the statements *)
Definition stmt_solution_order_free : Prop :=
  forall f G stmts stmts' s v, Permutation stmts stmts' ->
    (cycle_solution f G stmts s v <-> cycle_solution f G stmts' s v).

(* ... so two accepted programs whose texts are permutations of each other, run under any output
   options from the same state, compute the same value for every constrained wire *)
Definition stmt_reordered_program_same_cycle_values : Prop :=
  forall f il iu o o' stmts stmts' p p' cv G s s1 t1 s1' t1',
    Forall wf_stmt stmts -> Permutation stmts stmts' ->
    build_program f gen_fixed il iu stmts = Ok p -> build_program f gen_fixed il iu stmts' = Ok p' ->
    fault_free_with f gen_fixed il iu cv G stmts ->
    state_ok G p s -> state_ok G p' s -> cycle_start stmts cv s ->
    exec_actions f o (p_actions p) s = Ok (s1, t1) -> exec_actions f o' (p_actions p') s = Ok (s1', t1') ->
    forall k, constrained stmts k -> wire s1 k = wire s1' k.

(* DRAFT of 2 as first written - any SchedSpec.state_ok state, without [cycle_start] - is FALSE
   (SemanticsProofs.v: cycle_solution_computed_draft_refuted): state_ok does not say that an
   unassigned stall_X / bubble_X shows 0 (nor that register 15 holds 0); a state that shows 1 there
   is well typed, the simulator happily uses the 1, and the result is not a solution in the sense
   above.  States reached by the simulator do satisfy [cycle_start] (stmt_cycle_start_invariant) *)
Definition stmt_cycle_solution_computed_draft : Prop :=
  forall f il iu o stmts p cv G s s' t,
    Forall wf_stmt stmts -> build_program f gen_fixed il iu stmts = Ok p ->
    fault_free_with f gen_fixed il iu cv G stmts ->
    state_ok G p s -> step f o p s = Ok (s', t) ->
    exists s1 t1,
      exec_actions f o (p_actions p) s = Ok (s1, t1) /\ cycle_solution f G stmts s (wire s1).

(* ---- 4. the next state is a function of the solution ---------------------------------------------- *)
Definition next_regs (stmts : list stmt) (v : wire_map) (r : list N) : list N :=
  let r1 := if uses stmts ["reg_dstE"; "reg_inputE"]
            then rf_write r (v "reg_dstE") (v "reg_inputE") else r in
  if uses stmts ["reg_dstM"; "reg_inputM"] then rf_write r1 (v "reg_dstM") (v "reg_inputM") else r1.

Definition next_mem (stmts : list stmt) (v : wire_map) (m : memory) : memory :=
  if uses stmts ["mem_addr"; "mem_input"; "mem_writebit"] && negb (v "mem_writebit" =? 0)
  then mem_write m (v "mem_addr") (v "mem_input") 8 else m.

Definition stmt_next_state_from_solution : Prop :=
  forall f il iu o stmts p cv G s s' t v,
    Forall wf_stmt stmts -> build_program f gen_fixed il iu stmts = Ok p ->
    fault_free_with f gen_fixed il iu cv G stmts ->
    state_ok G p s -> cycle_start stmts cv s ->
    step f o p s = Ok (s', t) ->
    cycle_solution f G stmts s v ->
    (* register file: E port, then M port; memory: the write port; status; cycle count *)
    regs s' = next_regs stmts v (regs s) /\
    mem s' = next_mem stmts v (mem s) /\
    last_status s' = Some (v "Stat") /\
    cycle s' = cycle s + 1 /\
    (* every register of every bank  register iO { name : w = init; }  *)
    (forall b i o0 name w init,
       In b (bank_decls stmts) -> bank_letters (fst b) = Some (i, o0) -> In (name, w, init) (snd b) ->
       exists d, eval f cv init = Ok d /\
         wire s' (o0 ++ "_" ++ name)%string =
           if negb (v ("bubble_" ++ o0)%string =? 0) then bits d mod 2 ^ nbits w
           else if negb (v ("stall_" ++ o0)%string =? 0) then wire s (o0 ++ "_" ++ name)%string
           else v (i ++ "_" ++ name)%string) /\
    (* every other constrained wire still shows its solution value after the clock edge *)
    (forall k, constrained stmts k -> ~ In k (bank_outputs stmts) -> wire s' k = v k).

(* ---- 5. division by zero ------------------------------------------------------------------------- *)
(* ExprSpec.den is total: x / 0 is read as 0.  So a solution exists for every accepted program in
   every state ... *)
Definition stmt_den_division_by_zero_is_zero : Prop :=
  forall f G rho l r, den f G rho r = 0 -> den f G rho (EBin Div l r) = 0.

Definition stmt_cycle_solution_always_exists : Prop :=
  forall f il iu stmts cv G s,
    fault_free_with f gen_fixed il iu cv G stmts ->
    exists v, cycle_solution f G stmts s v.

(* ... and the simulated cycle succeeds exactly when evaluating no assignment on the solution's
   values (the lazy evaluator of the implementation: only the selected arm of a case expression
   is evaluated) divides by zero; when it fails, it fails with the explicit report and nothing
   else *)
Definition divides_by_zero (f : features) (G : string -> option width) (stmts : list stmt)
           (v : wire_map) : Prop :=
  exists n e, In (n, e) (assign_exprs stmts) /\ eval f (typed_env G v) e = Err [mkErr DivisionByZero []].

Definition stmt_step_fails_iff_division_by_zero : Prop :=
  forall f il iu o stmts p cv G s v,
    Forall wf_stmt stmts -> build_program f gen_fixed il iu stmts = Ok p ->
    fault_free_with f gen_fixed il iu cv G stmts ->
    state_ok G p s -> cycle_start stmts cv s ->
    cycle_solution f G stmts s v ->
    match step f o p s with
    | Ok _ => ~ divides_by_zero f G stmts v
    | Err es => es = [mkErr DivisionByZero []] /\ divides_by_zero f G stmts v
    end.
