(* C18: "The options -q, -d, -t, --ungroup-debug-wires and --trace-assignments only add or remove
   output" - the OUTPUT half, as statements about the text the simulator model prints
   (Machine.exec_action / exec_actions / step / run / dump_y86).  The "same final state, cycle
   count and exit status" half is MachineSpec.stmt_exec_options / stmt_step_options /
   stmt_run_options; here the states are shown equal again, together with the texts.

   Vocabulary: a text is read the way a script reads it, as the list of its lines
   (DumpParse.lines: defined when every line is terminated by a newline).  "Option set o prints
   less than option set o'" = the lines printed under o are a SUB-SEQUENCE of the lines printed
   under o': the text under o is obtained from the text under o' by deleting whole lines, nothing
   is added, changed or reordered.

   Statements only; proofs and examples are in OutputProofs.v. *)
From Coq Require Import Permutation.
From HclV Require Import Base Expr Disasm Machine MachineSpec SchedSpec TableSpec DumpParse TraceSpec.
Open Scope string_scope.
Open Scope N_scope.

(* ================================================================================== *)
(* 0. lines and sub-sequences                                                         *)
(* ================================================================================== *)
(* l is l' with some elements deleted *)
Inductive subseq {A : Type} : list A -> list A -> Prop :=
| subseq_nil : subseq [] []
| subseq_keep : forall x l l', subseq l l' -> subseq (x :: l) (x :: l')
| subseq_drop : forall x l l', subseq l l' -> subseq l (x :: l').

(* the text consists of complete lines: it is empty or ends with a newline *)
Definition whole_lines (t : string) : Prop := exists l, lines t = Some l.

(* both texts consist of complete lines and t is t' with some of its lines deleted *)
Definition fewer_lines (t t' : string) : Prop :=
  exists l l', lines t = Some l /\ lines t' = Some l' /\ subseq l l'.

(* an executable test for examples *)
Fixpoint subseqb (l l' : list string) : bool :=
  match l, l' with
  | [], _ => true
  | _ :: _, [] => false
  | x :: r, y :: r' => if String.eqb x y then subseqb r r' else subseqb l r'
  end.
Definition fewer_linesb (t t' : string) : bool :=
  match lines t, lines t' with
  | Some l, Some l' => subseqb l l'
  | _, _ => false
  end.
Definition stmt_fewer_linesb_correct : Prop :=
  forall t t', fewer_linesb t t' = true <-> fewer_lines t t'.

(* ================================================================================== *)
(* 1. the order on option records; the command-line flags                             *)
(* ================================================================================== *)
Definition on_implies (a b : bool) : Prop := a = true -> b = true.

(* the three switches the actions of a cycle look at *)
Definition trace_le (o o' : options) : Prop :=
  on_implies (o_trace_assignments o) (o_trace_assignments o') /\
  on_implies (o_trace_fixed o) (o_trace_fixed o') /\
  on_implies (o_show_disassembly o) (o_show_disassembly o').

(* every output switch that is on in o is on in o'.  o_group_wire_values (the FORM of the table)
   and o_timeout are not output switches. *)
Definition opts_le (o o' : options) : Prop :=
  trace_le o o' /\
  on_implies (o_show_wire_values o) (o_show_wire_values o') /\
  on_implies (o_show_regs_mem o) (o_show_regs_mem o') /\
  on_implies (o_show_banks o) (o_show_banks o').

(* when o prints the table at all, both print it in the same form *)
Definition same_table_form (o o' : options) : Prop :=
  o_show_wire_values o = true -> o_group_wire_values o = o_group_wire_values o'.

(* it is a pre-order, and only the six switches matter *)
Definition stmt_opts_le_preorder : Prop :=
  (forall o, opts_le o o) /\
  (forall o1 o2 o3, opts_le o1 o2 -> opts_le o2 o3 -> opts_le o1 o3).

(* the RunOptions::set_* functions, whatever the record they are applied to:
   -q and -t lower it, -d and --trace-assignments raise it, --ungroup-debug-wires and the
   timeout leave every output switch alone *)
Definition stmt_setters_order : Prop :=
  forall o,
    opts_le (set_quiet o) o /\ opts_le o (set_debug o) /\ opts_le (set_test o) o /\
    opts_le o (set_trace_assignments o) /\
    (opts_le o (set_no_group o) /\ opts_le (set_no_group o) o) /\
    (forall T, opts_le o (set_timeout o T) /\ opts_le (set_timeout o T) o).

(* -q -d: set_quiet and set_debug both write show_wire_values, so they do not commute *)
Definition stmt_quiet_debug_do_not_commute : Prop :=
  set_debug (set_quiet default_options) <> set_quiet (set_debug default_options) /\
  o_show_wire_values (set_debug (set_quiet default_options)) = true /\
  o_show_wire_values (set_quiet (set_debug default_options)) = false.

(* main.rs: the flags present on the command line, in whatever order and however often, are
   applied to RunOptions::default() in this fixed order: -q, -d, -t, (-i: no RunOptions switch of
   the model), --ungroup-debug-wires, --trace-assignments, and last set_timeout(TIMEOUT argument,
   9999 when absent) *)
Record flags := mkFlags {
  fl_quiet : bool;                (* -q / --quiet *)
  fl_debug : bool;                (* -d / --debug *)
  fl_test : bool;                 (* -t / --testing *)
  fl_ungroup : bool;              (* --ungroup-debug-wires *)
  fl_trace_assignments : bool     (* --trace-assignments *)
}.
Definition no_flags : flags := mkFlags false false false false false.
Definition when (b : bool) (g : options -> options) (o : options) : options := if b then g o else o.
Definition opts_of_flags (fl : flags) (timeout : N) : options :=
  set_timeout
    (when (fl_trace_assignments fl) set_trace_assignments
      (when (fl_ungroup fl) set_no_group
        (when (fl_test fl) set_test
          (when (fl_debug fl) set_debug
            (when (fl_quiet fl) set_quiet default_options)))))
    timeout.

(* the record this produces: every switch is decided by exactly one flag.  In particular
   `-q -d` = traces and tables of -d, but no per-cycle state dumps and no disassembly lines. *)
Definition stmt_opts_of_flags_fields : Prop :=
  forall fl T,
    opts_of_flags fl T =
    mkOpts (fl_trace_assignments fl) (fl_debug fl) (fl_debug fl) (negb (fl_ungroup fl))
           (negb (fl_test fl)) (negb (fl_quiet fl)) (negb (fl_quiet fl)) T.

(* fl asks for no more output than fl' *)
Definition flags_le (fl fl' : flags) : Prop :=
  on_implies (fl_quiet fl') (fl_quiet fl) /\ on_implies (fl_debug fl) (fl_debug fl') /\
  on_implies (fl_test fl') (fl_test fl) /\
  on_implies (fl_trace_assignments fl) (fl_trace_assignments fl').
Definition flags_same_form (fl fl' : flags) : Prop :=
  fl_debug fl = true -> fl_ungroup fl = fl_ungroup fl'.

Definition stmt_flags_order : Prop :=
  forall fl fl' T T',
    (opts_le (opts_of_flags fl T) (opts_of_flags fl' T') <-> flags_le fl fl') /\
    (same_table_form (opts_of_flags fl T) (opts_of_flags fl' T') <-> flags_same_form fl fl').

(* ================================================================================== *)
(* 2. one action, the actions of a cycle, a cycle, a run                              *)
(* ================================================================================== *)
(* one action under two option sets: the same failure, or the same new state and fewer lines *)
Definition stmt_action_output_monotone : Prop :=
  forall f o o' a s,
    trace_le o o' ->
    match exec_action f o a s, exec_action f o' a s with
    | Ok (s1, t), Ok (s2, t') => s1 = s2 /\ fewer_lines t t'
    | Err e1, Err e2 => e1 = e2
    | _, _ => False
    end.

Definition stmt_actions_output_monotone : Prop :=
  forall f o o' acts s,
    trace_le o o' ->
    match exec_actions f o acts s, exec_actions f o' acts s with
    | Ok (s1, t), Ok (s2, t') => s1 = s2 /\ fewer_lines t t'
    | Err e1, Err e2 => e1 = e2
    | _, _ => False
    end.

(* a whole cycle (the action lines followed by the table when it is shown) *)
Definition stmt_step_output_monotone : Prop :=
  forall f o o' p s,
    opts_le o o' -> same_table_form o o' ->
    match step f o p s, step f o' p s with
    | Ok (s1, t), Ok (s2, t') => s1 = s2 /\ fewer_lines t t'
    | Err e1, Err e2 => e1 = e2
    | _, _ => False
    end.

(* a run, from ANY state of ANY program: if it succeeds with the larger output it succeeds with
   the smaller one, in the same final state (so: same cycle count, same status), and the smaller
   output is the larger one with lines deleted *)
Definition stmt_run_output_monotone : Prop :=
  forall fuel f o o' p s s' t',
    opts_le o o' -> same_table_form o o' -> o_timeout o = o_timeout o' ->
    run fuel f o' p s = Ok (s', t') ->
    exists t, run fuel f o p s = Ok (s', t) /\ fewer_lines t t'.

(* the converse direction, and "the same failure", do NOT hold from arbitrary states: the state
   dump that only the larger output contains can panic on a bank signal without a value
   (refuted in OutputProofs.v on a state no accepted program reaches) *)
Definition stmt_run_output_monotone_match_draft : Prop :=
  forall fuel f o o' p s,
    opts_le o o' -> same_table_form o o' -> o_timeout o = o_timeout o' ->
    match run fuel f o p s, run fuel f o' p s with
    | Ok (s1, t), Ok (s2, t') => s1 = s2 /\ fewer_lines t t'
    | Err e1, Err e2 => e1 = e2
    | _, _ => False
    end.

(* ... they do hold for a well-typed compiled program run from a well-formed state (SchedSpec:
   what Program::new builds and every state it reaches) *)
Definition stmt_run_output_monotone_typed : Prop :=
  forall fuel f o o' G p s,
    program_ok f G p -> state_ok G p s ->
    opts_le o o' -> same_table_form o o' -> o_timeout o = o_timeout o' ->
    match run fuel f o p s, run fuel f o' p s with
    | Ok (s1, t), Ok (s2, t') => s1 = s2 /\ fewer_lines t t'
    | Err e1, Err e2 => e1 = e2
    | _, _ => False
    end.

(* main.rs run_y86 (after the memory image is loaded): the run, then the final state dump,
   printed under every option set, -q included *)
Definition session (fuel : nat) (f : features) (o : options) (p : program) (s : mstate)
  : result (mstate * string) :=
  do x <- run fuel f o p s;
  do d <- dump_y86 o p (fst x);
  Ok (fst x, snd x ++ d).

Definition stmt_session_output_monotone : Prop :=
  forall fuel f o o' p s s' t',
    opts_le o o' -> same_table_form o o' -> o_timeout o = o_timeout o' ->
    session fuel f o' p s = Ok (s', t') ->
    exists t, session fuel f o p s = Ok (s', t) /\ fewer_lines t t'.

(* in terms of the command line *)
Definition stmt_session_flags_monotone : Prop :=
  forall fuel f fl fl' T p s s' t',
    flags_le fl fl' -> flags_same_form fl fl' ->
    session fuel f (opts_of_flags fl' T) p s = Ok (s', t') ->
    exists t, session fuel f (opts_of_flags fl T) p s = Ok (s', t) /\ fewer_lines t t'.

(* ---- cycle by cycle ---------------------------------------------------------------------- *)
(* the cycles of a run: for each executed cycle the state dump printed before it ("" when
   show_registers_and_memory is off) and the text of the cycle *)
Inductive run_cycles (f : features) (o : options) (p : program)
  : mstate -> list (string * string) -> mstate -> Prop :=
| rc_done : forall s, done o s = true -> run_cycles f o p s [] s
| rc_cycle : forall s d s1 t cs s',
    done o s = false ->
    (if o_show_regs_mem o then dump_y86 o p s = Ok d else d = "") ->
    step f o p s = Ok (s1, t) ->
    run_cycles f o p s1 cs s' ->
    run_cycles f o p s ((d, t) :: cs) s'.

Definition cycles_text (cs : list (string * string)) : string :=
  concat_strings (map (fun c => fst c ++ snd c) cs).

(* the output of a run is, cycle after cycle, the dump before the cycle and the cycle's text *)
Definition stmt_run_text_by_cycle : Prop :=
  forall fuel f o p s s' t,
    run fuel f o p s = Ok (s', t) ->
    exists cs, run_cycles f o p s cs s' /\ t = cycles_text cs.

(* under two comparable option sets the cycles correspond one to one: as many cycles, and in
   each the smaller dump / cycle text is the larger one with lines deleted *)
Definition stmt_run_cycles_aligned : Prop :=
  forall f o o' p s cs' s',
    opts_le o o' -> same_table_form o o' -> o_timeout o = o_timeout o' ->
    run_cycles f o' p s cs' s' ->
    exists cs, run_cycles f o p s cs s' /\
      Forall2 (fun c c' => fewer_lines (fst c) (fst c') /\ fewer_lines (snd c) (snd c')) cs cs'.

(* -q against the same options without -q: no dump before any cycle (where the other run printed
   one before EVERY cycle when show_registers_and_memory was on), no table, no disassembly line *)
Definition stmt_quiet_cycles : Prop :=
  forall f o p s cs' s',
    run_cycles f o p s cs' s' ->
    exists cs, run_cycles f (set_quiet o) p s cs s' /\
      Forall2 (fun c c' => fst c = "" /\
                           (o_show_regs_mem o = true -> exists l, lines (fst c') = Some l /\ (8 <= List.length l)%nat) /\
                           fewer_lines (snd c) (snd c')) cs cs'.

(* ================================================================================== *)
(* 3. the state dump                                                                  *)
(* ================================================================================== *)
(* the dump under a smaller option set (same timeout): lines deleted *)
Definition stmt_dump_output_monotone : Prop :=
  forall o o' p s t',
    on_implies (o_show_banks o) (o_show_banks o') -> o_timeout o = o_timeout o' ->
    dump_y86 o' p s = Ok t' ->
    exists t, dump_y86 o p s = Ok t /\ fewer_lines t t'.

(* -t: exactly the lines of the register-bank section are deleted - the heading and the five
   program-register lines before it and everything from the memory heading on are kept *)
Definition stmt_test_dump_lines : Prop :=
  forall o p s t',
    o_show_banks o = true ->
    dump_y86 o p s = Ok t' ->
    exists t bank_text before banks after,
      dump_y86 (set_test o) p s = Ok t /\
      dump_custom_registers (values s) (p_banks p) = Ok bank_text /\
      lines bank_text = Some banks /\
      lines t' = Some (before ++ banks ++ memory_header_line :: after)%list /\
      lines t = Some (before ++ memory_header_line :: after)%list /\
      List.length before = 6%nat.

(* and when -t is given anyway, or there are no banks, nothing changes *)
Definition stmt_test_dump_same : Prop :=
  forall o p s, o_show_banks o = false \/ p_banks p = [] ->
    dump_y86 (set_test o) p s = dump_y86 o p s.

(* ================================================================================== *)
(* 4. everything printed consists of complete lines                                   *)
(* ================================================================================== *)
Definition stmt_output_is_lines : Prop :=
  (forall f o a s s' t, exec_action f o a s = Ok (s', t) -> whole_lines t) /\
  (forall f o acts s s' t, exec_actions f o acts s = Ok (s', t) -> whole_lines t) /\
  (forall o p vals t, dump_values o p vals = Ok t -> whole_lines t) /\
  (forall f o p s s' t, step f o p s = Ok (s', t) -> whole_lines t) /\
  (forall o p s t, dump_y86 o p s = Ok t -> whole_lines t) /\
  (forall fuel f o p s s' t, run fuel f o p s = Ok (s', t) -> whole_lines t) /\
  (forall fuel f o p s s' t, session fuel f o p s = Ok (s', t) -> whole_lines t).

(* "complete lines" means what it says *)
Definition stmt_whole_lines_char : Prop :=
  forall t, whole_lines t <-> (t = "" \/ exists a, t = a ++ nl).

(* ================================================================================== *)
(* 5. --ungroup-debug-wires: another form of the table, not a sub-sequence            *)
(* ================================================================================== *)
(* draft: one of the two tables is the other with lines deleted - FALSE (the headings differ) *)
Definition stmt_ungroup_fewer_lines_draft : Prop :=
  forall f o p s s1 t1 s2 t2,
    step f o p s = Ok (s1, t1) -> step f (set_no_group o) p s = Ok (s2, t2) ->
    fewer_lines t2 t1 \/ fewer_lines t1 t2.

(* what a (sub-)table is, line by line: heading, optional column header, one row per listed wire,
   an empty line; nothing at all when no wire is listed *)
Definition row_line (vals : list (string * wval)) (mn mv : N) (k : string) : string :=
  let v := val_of vals k in
  let vl := value_width_len v in
  k ++ spaces (mn - clen k) ++ "  " ++ repeat_char " "%char (N.to_nat (mv - vl)) ++
  "0x" ++ pad_left "0"%char (vl - 2) (hex (bits v)).
Definition column_header (mn mv : N) : string :=
  pad_right " "%char mn "Wire" ++ "  " ++ pad_left " "%char mv "Value".
Definition block (label : string) (header : option string) (rows : list string) : list string :=
  match rows with
  | [] => []
  | _ => label :: (match header with Some h => [h] | None => [] end) ++ rows ++ [""]
  end%list.

(* TraceSpec.no_newline k: the name k contains no newline character *)

(* both forms list the same wires (TableSpec: each candidate wire that is not a constant, once),
   the rows of each (sub-)table padded to that (sub-)table's own column widths *)
Definition stmt_table_forms_lines : Prop :=
  forall p vals tg tu,
    NoDup (map fst vals) -> (forall k, In k (map fst vals) -> no_newline k = true) ->
    types_mark_consts p ->
    dump_values_grouped p vals = Ok tg -> dump_values_ungrouped p vals = Ok tu ->
    exists ks k1 k2 k3 k4,
      Permutation ks (k1 ++ k2 ++ k3 ++ k4) /\
      rows_exactly (fun k => candidate p vals k /\ has (p_consts p) k = false) ks /\
      lines tu = Some (block "Values of wires:" (Some (column_header (name_col ks) (value_col vals ks)))
                             (map (row_line vals (name_col ks) (value_col vals ks)) ks)) /\
      let sub label k := block label None (map (row_line vals (name_col k) (value_col vals k)) k) in
      lines tg = Some ("" :: sub "Values of inputs to built-in components:" k1 ++
                             sub "Values of outputs of built-in components:" k2 ++
                             sub "Values of register bank signals:" k3 ++
                             sub "Values of other wires:" k4)%list.

(* when no name is longer than 15 bytes and no value wider than 80 bits (the minimum column
   widths suffice) the two forms have the SAME row lines, under different headings *)
Definition stmt_table_forms_same_rows : Prop :=
  forall p vals tg tu,
    NoDup (map fst vals) -> (forall k, In k (map fst vals) -> no_newline k = true) ->
    types_mark_consts p ->
    (forall k v, In (k, v) vals -> slen k <= 15 /\ value_width_len v <= 22) ->
    dump_values_grouped p vals = Ok tg -> dump_values_ungrouped p vals = Ok tu ->
    exists rows r1 r2 r3 r4,
      Permutation rows (r1 ++ r2 ++ r3 ++ r4) /\
      lines tu = Some (block "Values of wires:" (Some (column_header 15 22)) rows) /\
      lines tg = Some ("" :: block "Values of inputs to built-in components:" None r1 ++
                             block "Values of outputs of built-in components:" None r2 ++
                             block "Values of register bank signals:" None r3 ++
                             block "Values of other wires:" None r4)%list.

(* draft: the same without the bound on the names - FALSE: a long name widens the name column of
   the whole ungrouped table but only of its own sub-table in the grouped form *)
Definition stmt_table_forms_same_rows_draft : Prop :=
  forall p vals tg tu,
    NoDup (map fst vals) -> (forall k, In k (map fst vals) -> no_newline k = true) ->
    types_mark_consts p ->
    dump_values_grouped p vals = Ok tg -> dump_values_ungrouped p vals = Ok tu ->
    exists cu rows r1 r2 r3 r4,
      Permutation rows (r1 ++ r2 ++ r3 ++ r4) /\
      lines tu = Some (block "Values of wires:" (Some cu) rows) /\
      lines tg = Some ("" :: block "Values of inputs to built-in components:" None r1 ++
                             block "Values of outputs of built-in components:" None r2 ++
                             block "Values of register bank signals:" None r3 ++
                             block "Values of other wires:" None r4)%list.
