(* Proofs of the statements of LexParseSpec.v about Lexer.lex and Parser.parse_expr. *)
From HclV Require Import Base Expr Build Lexer Parser LexParseSpec.
Open Scope list_scope.
Open Scope N_scope.

(* ====================================================================================== *)
(* Part 1: one-step unfolding equations of the six mutual parsing functions               *)
(* ====================================================================================== *)
Section Unfold.
  Variable tiers : list tier.

  Lemma parse_tiers_0 ts toks : parse_tiers tiers O ts toks = None.
  Proof. reflexivity. Qed.
  Lemma left_loop_0 rest ops l toks : left_loop tiers O rest ops l toks = None.
  Proof. reflexivity. Qed.
  Lemma parse_term_0 toks : parse_term tiers O toks = None.
  Proof. reflexivity. Qed.
  Lemma parse_simple_0 toks : parse_simple tiers O toks = None.
  Proof. reflexivity. Qed.
  Lemma parse_mux_options_0 toks : parse_mux_options tiers O toks = None.
  Proof. reflexivity. Qed.
  Lemma parse_commas_exprs_0 toks : parse_commas_exprs tiers O toks = None.
  Proof. reflexivity. Qed.

  Lemma parse_tiers_S f ts toks :
    parse_tiers tiers (S f) ts toks =
    match ts with
    | [] => parse_term tiers f toks
    | (KLeft, ops) :: rest =>
        match parse_tiers tiers f rest toks with
        | Some (l, toks1) => left_loop tiers f rest ops l toks1
        | None => None
        end
    | (KNonAssoc, ops) :: rest =>
        match parse_tiers tiers f rest toks with
        | Some (l, t :: toks1) =>
            match op_of_token ops (tk t) with
            | Some op =>
                match parse_tiers tiers f rest toks1 with
                | Some (r, toks2) => Some (EBin op l r, toks2)
                | None => None
                end
            | None => Some (l, t :: toks1)
            end
        | other => other
        end
    | (KIn, _) :: rest =>
        match parse_tiers tiers f rest toks with
        | Some (l, t :: toks1) =>
            if token_eqb (tk t) TIn then
              match toks1 with
              | t2 :: toks2 =>
                  if token_eqb (tk t2) TOpenBrace then
                    match parse_commas_exprs tiers f toks2 with
                    | Some (items, t3 :: toks3) =>
                        if token_eqb (tk t3) TCloseBrace then Some (EIn l items, toks3) else None
                    | _ => None
                    end
                  else None
              | [] => None
              end
            else Some (l, t :: toks1)
        | other => other
        end
    | (KBad, _) :: _ => None
    end.
  Proof. reflexivity. Qed.

  Lemma left_loop_S f rest ops l toks :
    left_loop tiers (S f) rest ops l toks =
    match toks with
    | t :: toks1 =>
        match op_of_token ops (tk t) with
        | Some op =>
            match parse_tiers tiers f rest toks1 with
            | Some (r, toks2) => left_loop tiers f rest ops (EBin op l r) toks2
            | None => None
            end
        | None => Some (l, toks)
        end
    | [] => Some (l, toks)
    end.
  Proof. reflexivity. Qed.

  Lemma parse_term_S f toks :
    parse_term tiers (S f) toks =
    match toks with
    | t :: toks1 =>
        match unop_of_token (tk t) with
        | Some u =>
            match parse_simple tiers f toks1 with
            | Some (e, toks2) => Some (EUn u e, toks2)
            | None => None
            end
        | None =>
            match parse_simple tiers f toks with
            | Some (e, t1 :: t2 :: t3 :: t4 :: t5 :: toks2) =>
                if token_eqb (tk t1) TOpenBracket then
                  match small_constant (tk t2), small_constant (tk t4) with
                  | Some lo, Some hi =>
                      if token_eqb (tk t3) TDotDot && token_eqb (tk t5) TCloseBracket
                      then Some (ESlice e lo hi, toks2) else None
                  | _, _ => None
                  end
                else Some (e, t1 :: t2 :: t3 :: t4 :: t5 :: toks2)
            | Some (e, t1 :: toks2) =>
                if token_eqb (tk t1) TOpenBracket then None else Some (e, t1 :: toks2)
            | other => other
            end
        end
    | [] => None
    end.
  Proof. reflexivity. Qed.

  Lemma parse_simple_S f toks :
    parse_simple tiers (S f) toks =
    match toks with
    | t :: toks1 =>
        match tk t with
        | TLit v => Some (EConst v, toks1)
        | TIdentifier name => Some (EWire (string_of_name name), toks1)
        | TOpenParen =>
            match parse_tiers tiers f tiers toks1 with
            | Some (e, t2 :: toks2) =>
                if token_eqb (tk t2) TCloseParen then Some (e, toks2)
                else if token_eqb (tk t2) TDotDot then
                  match parse_tiers tiers f tiers toks2 with
                  | Some (r, t3 :: toks3) =>
                      if token_eqb (tk t3) TCloseParen then Some (ECat e r, toks3) else None
                  | _ => None
                  end
                else None
            | _ => None
            end
        | TOpenBracket =>
            match parse_mux_options tiers f toks1 with
            | Some (a, t2 :: toks2) =>
                if token_eqb (tk t2) TCloseBracket then Some (EMux a, toks2) else None
            | _ => None
            end
        | _ => None
        end
    | [] => None
    end.
  Proof. reflexivity. Qed.

  Lemma parse_mux_options_S f toks :
    parse_mux_options tiers (S f) toks =
    match toks with
    | t :: _ =>
        if token_eqb (tk t) TCloseBracket then Some (ANil, toks)
        else
          match parse_tiers tiers f tiers toks with
          | Some (c, t1 :: toks1) =>
              if token_eqb (tk t1) TColon then
                match parse_tiers tiers f tiers toks1 with
                | Some (v, t2 :: toks2) =>
                    if token_eqb (tk t2) TSemicolon then
                      match parse_mux_options tiers f toks2 with
                      | Some (rest, toks3) => Some (ACons c v rest, toks3)
                      | None => None
                      end
                    else Some (ACons c v ANil, t2 :: toks2)
                | Some (v, []) => Some (ACons c v ANil, [])
                | None => None
                end
              else None
          | _ => None
          end
    | [] => Some (ANil, toks)
    end.
  Proof. reflexivity. Qed.

  Lemma parse_commas_exprs_S f toks :
    parse_commas_exprs tiers (S f) toks =
    match toks with
    | t :: _ =>
        if token_eqb (tk t) TCloseBrace then Some (XNil, toks)
        else
          match parse_tiers tiers f tiers toks with
          | Some (e, t1 :: toks1) =>
              if token_eqb (tk t1) TComma then
                match parse_commas_exprs tiers f toks1 with
                | Some (rest, toks2) => Some (XCons e rest, toks2)
                | None => None
                end
              else Some (XCons e XNil, t1 :: toks1)
          | Some (e, []) => Some (XCons e XNil, [])
          | None => None
          end
    | [] => Some (XNil, toks)
    end.
  Proof. reflexivity. Qed.
End Unfold.

(* ====================================================================================== *)
(* Part 2: more fuel never changes a successful result                                    *)
(* ====================================================================================== *)
Section Mono.
  Variable tiers : list tier.

  Definition mono_at (f : nat) : Prop :=
    (forall ts toks r, parse_tiers tiers f ts toks = Some r ->
        forall f', (f <= f')%nat -> parse_tiers tiers f' ts toks = Some r) /\
    (forall rest ops l toks r, left_loop tiers f rest ops l toks = Some r ->
        forall f', (f <= f')%nat -> left_loop tiers f' rest ops l toks = Some r) /\
    (forall toks r, parse_term tiers f toks = Some r ->
        forall f', (f <= f')%nat -> parse_term tiers f' toks = Some r) /\
    (forall toks r, parse_simple tiers f toks = Some r ->
        forall f', (f <= f')%nat -> parse_simple tiers f' toks = Some r) /\
    (forall toks r, parse_mux_options tiers f toks = Some r ->
        forall f', (f <= f')%nat -> parse_mux_options tiers f' toks = Some r) /\
    (forall toks r, parse_commas_exprs tiers f toks = Some r ->
        forall f', (f <= f')%nat -> parse_commas_exprs tiers f' toks = Some r).

  Ltac mono_step IH1 IH2 IH3 IH4 IH5 IH6 Hle :=
    match goal with
    | H : None = Some _ |- _ => discriminate H
    | H : ?x = Some _ |- ?x = Some _ => exact H
    | H : parse_tiers _ _ _ _ = Some _ |- _ => exact (IH1 _ _ _ H _ Hle)
    | H : left_loop _ _ _ _ _ _ = Some _ |- _ => exact (IH2 _ _ _ _ _ H _ Hle)
    | H : parse_term _ _ _ = Some _ |- _ => exact (IH3 _ _ H _ Hle)
    | H : parse_simple _ _ _ = Some _ |- _ => exact (IH4 _ _ H _ Hle)
    | H : parse_mux_options _ _ _ = Some _ |- _ => exact (IH5 _ _ H _ Hle)
    | H : parse_commas_exprs _ _ _ = Some _ |- _ => exact (IH6 _ _ H _ Hle)
    | H : context [match parse_tiers ?t ?f ?ts ?toks with _ => _ end] |- _ =>
        let E := fresh "E" in
        destruct (parse_tiers t f ts toks) as [[? ?]|] eqn:E;
        [ rewrite (IH1 _ _ _ E _ Hle) | ]
    | H : context [match parse_simple ?t ?f ?toks with _ => _ end] |- _ =>
        let E := fresh "E" in
        destruct (parse_simple t f toks) as [[? ?]|] eqn:E;
        [ rewrite (IH4 _ _ E _ Hle) | ]
    | H : context [match parse_mux_options ?t ?f ?toks with _ => _ end] |- _ =>
        let E := fresh "E" in
        destruct (parse_mux_options t f toks) as [[? ?]|] eqn:E;
        [ rewrite (IH5 _ _ E _ Hle) | ]
    | H : context [match parse_commas_exprs ?t ?f ?toks with _ => _ end] |- _ =>
        let E := fresh "E" in
        destruct (parse_commas_exprs t f toks) as [[? ?]|] eqn:E;
        [ rewrite (IH6 _ _ E _ Hle) | ]
    | H : context [match op_of_token ?o ?t with _ => _ end] |- _ => destruct (op_of_token o t)
    | H : context [match unop_of_token ?t with _ => _ end] |- _ => destruct (unop_of_token t)
    | H : context [match small_constant ?t with _ => _ end] |- _ => destruct (small_constant t)
    | H : context [if ?b then _ else _] |- _ => destruct b
    | H : context [match tk ?t with _ => _ end] |- _ => destruct (tk t)
    | H : context [match ?l with [] => _ | _ :: _ => _ end] |- _ => destruct l
    end.

  Lemma mono_all : forall f, mono_at f.
  Proof.
    induction f as [|f IH].
    - unfold mono_at. repeat split; intros; discriminate.
    - destruct IH as (IH1 & IH2 & IH3 & IH4 & IH5 & IH6).
      unfold mono_at. repeat split.
      + intros ts toks r H f' Hle0. destruct f' as [|f']; [lia|].
        assert (Hle : (f <= f')%nat) by lia. clear Hle0.
        rewrite parse_tiers_S in H |- *.
        destruct ts as [|[[| | |] ops] rest];
          repeat mono_step IH1 IH2 IH3 IH4 IH5 IH6 Hle.
      + intros rest ops l toks r H f' Hle0. destruct f' as [|f']; [lia|].
        assert (Hle : (f <= f')%nat) by lia. clear Hle0.
        rewrite left_loop_S in H |- *.
        repeat mono_step IH1 IH2 IH3 IH4 IH5 IH6 Hle.
      + intros toks r H f' Hle0. destruct f' as [|f']; [lia|].
        assert (Hle : (f <= f')%nat) by lia. clear Hle0.
        rewrite parse_term_S in H |- *.
        repeat mono_step IH1 IH2 IH3 IH4 IH5 IH6 Hle.
      + intros toks r H f' Hle0. destruct f' as [|f']; [lia|].
        assert (Hle : (f <= f')%nat) by lia. clear Hle0.
        rewrite parse_simple_S in H |- *.
        repeat mono_step IH1 IH2 IH3 IH4 IH5 IH6 Hle.
      + intros toks r H f' Hle0. destruct f' as [|f']; [lia|].
        assert (Hle : (f <= f')%nat) by lia. clear Hle0.
        rewrite parse_mux_options_S in H |- *.
        repeat mono_step IH1 IH2 IH3 IH4 IH5 IH6 Hle.
      + intros toks r H f' Hle0. destruct f' as [|f']; [lia|].
        assert (Hle : (f <= f')%nat) by lia. clear Hle0.
        rewrite parse_commas_exprs_S in H |- *.
        repeat mono_step IH1 IH2 IH3 IH4 IH5 IH6 Hle.
  Qed.
End Mono.

(* ====================================================================================== *)
(* Part 3: a fuel-free, relational view of the parser ("some fuel suffices")              *)
(* ====================================================================================== *)
Section Rel.
  Variable tiers : list tier.

  Definition PT (ts : list tier) (toks : list tok) (r : expr * list tok) : Prop :=
    exists f, parse_tiers tiers f ts toks = Some r.
  Definition LL (rest : list tier) (ops : list binop) (l : expr) (toks : list tok) (r : expr * list tok) : Prop :=
    exists f, left_loop tiers f rest ops l toks = Some r.
  Definition PTm (toks : list tok) (r : expr * list tok) : Prop :=
    exists f, parse_term tiers f toks = Some r.
  Definition PS (toks : list tok) (r : expr * list tok) : Prop :=
    exists f, parse_simple tiers f toks = Some r.
  Definition PM (toks : list tok) (r : arms * list tok) : Prop :=
    exists f, parse_mux_options tiers f toks = Some r.
  Definition PC (toks : list tok) (r : exprs * list tok) : Prop :=
    exists f, parse_commas_exprs tiers f toks = Some r.

  Lemma pt_mono f ts toks r f' :
    parse_tiers tiers f ts toks = Some r -> (f <= f')%nat -> parse_tiers tiers f' ts toks = Some r.
  Proof. intros H Hle. exact (proj1 (mono_all tiers f) ts toks r H f' Hle). Qed.
  Lemma ll_mono f rest ops l toks r f' :
    left_loop tiers f rest ops l toks = Some r -> (f <= f')%nat -> left_loop tiers f' rest ops l toks = Some r.
  Proof. intros H Hle. exact (proj1 (proj2 (mono_all tiers f)) rest ops l toks r H f' Hle). Qed.
  Lemma ptm_mono f toks r f' :
    parse_term tiers f toks = Some r -> (f <= f')%nat -> parse_term tiers f' toks = Some r.
  Proof. intros H Hle. exact (proj1 (proj2 (proj2 (mono_all tiers f))) toks r H f' Hle). Qed.
  Lemma ps_mono f toks r f' :
    parse_simple tiers f toks = Some r -> (f <= f')%nat -> parse_simple tiers f' toks = Some r.
  Proof. intros H Hle. exact (proj1 (proj2 (proj2 (proj2 (mono_all tiers f)))) toks r H f' Hle). Qed.
  Lemma pm_mono f toks r f' :
    parse_mux_options tiers f toks = Some r -> (f <= f')%nat -> parse_mux_options tiers f' toks = Some r.
  Proof. intros H Hle. exact (proj1 (proj2 (proj2 (proj2 (proj2 (mono_all tiers f))))) toks r H f' Hle). Qed.
  Lemma pc_mono f toks r f' :
    parse_commas_exprs tiers f toks = Some r -> (f <= f')%nat -> parse_commas_exprs tiers f' toks = Some r.
  Proof. intros H Hle. exact (proj2 (proj2 (proj2 (proj2 (proj2 (mono_all tiers f))))) toks r H f' Hle). Qed.

  (* the head token of the remaining input *)
  Definition hd_tok (rest : list tok) : option token :=
    match rest with [] => None | t :: _ => Some (tk t) end.

  Definition no_op (ops : list binop) (o : option token) : bool :=
    match o with
    | None => true
    | Some t => match op_of_token ops t with None => true | Some _ => false end
    end.
  Definition not_tok (x : token) (o : option token) : bool :=
    match o with None => true | Some t => negb (token_eqb t x) end.

  (* ---- parse_tiers ---- *)
  Lemma PT_nil toks r : PTm toks r -> PT [] toks r.
  Proof. intros [f H]. exists (S f). rewrite parse_tiers_S. exact H. Qed.

  Lemma PT_left ops ts toks l toks1 r :
    PT ts toks (l, toks1) -> LL ts ops l toks1 r -> PT ((KLeft, ops) :: ts) toks r.
  Proof.
    intros [f1 H1] [f2 H2]. exists (S (Nat.max f1 f2)). rewrite parse_tiers_S.
    rewrite (pt_mono _ _ _ _ (Nat.max f1 f2) H1) by lia.
    apply (ll_mono _ _ _ _ _ _ _ H2). lia.
  Qed.

  Lemma PT_na_stop ops ts toks l toks1 :
    PT ts toks (l, toks1) -> no_op ops (hd_tok toks1) = true -> PT ((KNonAssoc, ops) :: ts) toks (l, toks1).
  Proof.
    intros [f1 H1] Hno. exists (S f1). rewrite parse_tiers_S, H1.
    destruct toks1 as [|t toks1]; [reflexivity|].
    cbn [hd_tok no_op] in Hno. destruct (op_of_token ops (tk t)); [discriminate|reflexivity].
  Qed.

  Lemma PT_na_op ops ts toks l t toks1 op r toks2 :
    PT ts toks (l, t :: toks1) -> op_of_token ops (tk t) = Some op -> PT ts toks1 (r, toks2) ->
    PT ((KNonAssoc, ops) :: ts) toks (EBin op l r, toks2).
  Proof.
    intros [f1 H1] Hop [f2 H2]. exists (S (Nat.max f1 f2)). rewrite parse_tiers_S.
    rewrite (pt_mono _ _ _ _ (Nat.max f1 f2) H1) by lia. rewrite Hop.
    rewrite (pt_mono _ _ _ _ (Nat.max f1 f2) H2) by lia. reflexivity.
  Qed.

  Lemma PT_in_stop x ts toks l toks1 :
    PT ts toks (l, toks1) -> not_tok TIn (hd_tok toks1) = true -> PT ((KIn, x) :: ts) toks (l, toks1).
  Proof.
    intros [f1 H1] Hno. exists (S f1). rewrite parse_tiers_S, H1.
    destruct toks1 as [|t toks1]; [reflexivity|].
    cbn [hd_tok not_tok] in Hno. destruct (token_eqb (tk t) TIn); [discriminate|reflexivity].
  Qed.

  Lemma PT_in x ts toks l t t2 toks2 items t3 toks3 :
    PT ts toks (l, t :: t2 :: toks2) -> tk t = TIn -> tk t2 = TOpenBrace ->
    PC toks2 (items, t3 :: toks3) -> tk t3 = TCloseBrace ->
    PT ((KIn, x) :: ts) toks (EIn l items, toks3).
  Proof.
    intros [f1 H1] Ht Ht2 [f2 H2] Ht3. exists (S (Nat.max f1 f2)). rewrite parse_tiers_S.
    rewrite (pt_mono _ _ _ _ (Nat.max f1 f2) H1) by lia. rewrite Ht, Ht2. cbn [token_eqb].
    rewrite (pc_mono _ _ _ (Nat.max f1 f2) H2) by lia. rewrite Ht3. reflexivity.
  Qed.

  (* ---- left_loop ---- *)
  Lemma LL_stop ts ops l toks : no_op ops (hd_tok toks) = true -> LL ts ops l toks (l, toks).
  Proof.
    intros Hno. exists 1%nat. rewrite left_loop_S.
    destruct toks as [|t toks1]; [reflexivity|].
    cbn [hd_tok no_op] in Hno. destruct (op_of_token ops (tk t)); [discriminate|reflexivity].
  Qed.

  Lemma LL_step ts ops l t toks1 op r toks2 res :
    op_of_token ops (tk t) = Some op -> PT ts toks1 (r, toks2) -> LL ts ops (EBin op l r) toks2 res ->
    LL ts ops l (t :: toks1) res.
  Proof.
    intros Hop [f1 H1] [f2 H2]. exists (S (Nat.max f1 f2)). rewrite left_loop_S, Hop.
    rewrite (pt_mono _ _ _ _ (Nat.max f1 f2) H1) by lia.
    apply (ll_mono _ _ _ _ _ _ _ H2). lia.
  Qed.

  (* ---- parse_simple ---- *)
  Lemma PS_lit t toks1 v : tk t = TLit v -> PS (t :: toks1) (EConst v, toks1).
  Proof. intros Ht. exists 1%nat. rewrite parse_simple_S, Ht. reflexivity. Qed.

  Lemma PS_id t toks1 name : tk t = TIdentifier name -> PS (t :: toks1) (EWire (string_of_name name), toks1).
  Proof. intros Ht. exists 1%nat. rewrite parse_simple_S, Ht. reflexivity. Qed.

  Lemma PS_paren t toks1 e t2 toks2 :
    tk t = TOpenParen -> PT tiers toks1 (e, t2 :: toks2) -> tk t2 = TCloseParen ->
    PS (t :: toks1) (e, toks2).
  Proof.
    intros Ht [f1 H1] Ht2. exists (S f1). rewrite parse_simple_S, Ht, H1, Ht2. reflexivity.
  Qed.

  Lemma PS_cat t toks1 e t2 toks2 r t3 toks3 :
    tk t = TOpenParen -> PT tiers toks1 (e, t2 :: toks2) -> tk t2 = TDotDot ->
    PT tiers toks2 (r, t3 :: toks3) -> tk t3 = TCloseParen ->
    PS (t :: toks1) (ECat e r, toks3).
  Proof.
    intros Ht [f1 H1] Ht2 [f2 H2] Ht3. exists (S (Nat.max f1 f2)). rewrite parse_simple_S, Ht.
    rewrite (pt_mono _ _ _ _ (Nat.max f1 f2) H1) by lia. rewrite Ht2. cbn [token_eqb].
    rewrite (pt_mono _ _ _ _ (Nat.max f1 f2) H2) by lia. rewrite Ht3. reflexivity.
  Qed.

  Lemma PS_mux t toks1 a t2 toks2 :
    tk t = TOpenBracket -> PM toks1 (a, t2 :: toks2) -> tk t2 = TCloseBracket ->
    PS (t :: toks1) (EMux a, toks2).
  Proof.
    intros Ht [f1 H1] Ht2. exists (S f1). rewrite parse_simple_S, Ht, H1, Ht2. reflexivity.
  Qed.

  (* a successful SimpleTerm starts with a token that is not a unary operator *)
  Lemma PS_start toks r : PS toks r -> exists t toks1, toks = t :: toks1 /\ unop_of_token (tk t) = None.
  Proof.
    intros [f H]. destruct f as [|f]; [discriminate|]. rewrite parse_simple_S in H.
    destruct toks as [|t toks1]; [discriminate|]. exists t, toks1. split; [reflexivity|].
    destruct (tk t); try discriminate; reflexivity.
  Qed.

  (* ---- parse_term ---- *)
  Lemma PTm_un t toks1 u e toks2 :
    unop_of_token (tk t) = Some u -> PS toks1 (e, toks2) -> PTm (t :: toks1) (EUn u e, toks2).
  Proof.
    intros Hu [f1 H1]. exists (S f1). rewrite parse_term_S, Hu, H1. reflexivity.
  Qed.

  Lemma PTm_simple toks e rest :
    PS toks (e, rest) -> not_tok TOpenBracket (hd_tok rest) = true -> PTm toks (e, rest).
  Proof.
    intros HS Hnb. destruct (PS_start _ _ HS) as (t & toks1 & -> & Hu).
    destruct HS as [f1 H1]. exists (S f1). rewrite parse_term_S, Hu, H1.
    destruct rest as [|t1 rest]; [reflexivity|].
    cbn [hd_tok not_tok] in Hnb. destruct (token_eqb (tk t1) TOpenBracket); [discriminate|].
    destruct rest as [|t2 [|t3 [|t4 [|t5 rest]]]]; reflexivity.
  Qed.

  Lemma PTm_slice toks e t1 t2 t3 t4 t5 toks2 lo hi :
    PS toks (e, t1 :: t2 :: t3 :: t4 :: t5 :: toks2) ->
    tk t1 = TOpenBracket -> small_constant (tk t2) = Some lo -> tk t3 = TDotDot ->
    small_constant (tk t4) = Some hi -> tk t5 = TCloseBracket ->
    PTm toks (ESlice e lo hi, toks2).
  Proof.
    intros HS H1 H2 H3 H4 H5. destruct (PS_start _ _ HS) as (t & toks1 & -> & Hu).
    destruct HS as [f1 HS]. exists (S f1). rewrite parse_term_S, Hu, HS, H1, H2, H3, H4, H5. reflexivity.
  Qed.

  (* ---- a successful expression parse starts with a token that opens a term ---- *)
  Definition opens_term (toks : list tok) : Prop :=
    match toks with
    | [] => False
    | t :: _ => token_eqb (tk t) TCloseBracket = false /\ token_eqb (tk t) TCloseBrace = false
    end.

  Lemma parse_tiers_opens f : forall ts toks r, parse_tiers tiers f ts toks = Some r -> opens_term toks.
  Proof.
    induction f as [|f IH]; intros ts toks r H; [discriminate|].
    rewrite parse_tiers_S in H.
    destruct ts as [|[[| | |] ops] ts].
    - destruct f as [|f]; [discriminate|]. rewrite parse_term_S in H.
      destruct toks as [|t toks1]; [discriminate|]. cbn [opens_term].
      destruct (unop_of_token (tk t)) eqn:Hu.
      + destruct (tk t); try discriminate; split; reflexivity.
      + destruct f as [|f]; [discriminate|]. rewrite parse_simple_S in H.
        destruct (tk t); try discriminate; split; reflexivity.
    - destruct (parse_tiers tiers f ts toks) as [[l toks1]|] eqn:E; [|discriminate]. exact (IH _ _ _ E).
    - destruct (parse_tiers tiers f ts toks) as [[l toks1]|] eqn:E; [|discriminate]. exact (IH _ _ _ E).
    - destruct (parse_tiers tiers f ts toks) as [[l toks1]|] eqn:E; [|discriminate]. exact (IH _ _ _ E).
    - discriminate.
  Qed.

  Lemma PT_opens ts toks r : PT ts toks r -> opens_term toks.
  Proof. intros [f H]. exact (parse_tiers_opens f _ _ _ H). Qed.

  (* ---- parse_mux_options ---- *)
  Lemma PM_nil t toks : tk t = TCloseBracket -> PM (t :: toks) (ANil, t :: toks).
  Proof. intros Ht. exists 1%nat. rewrite parse_mux_options_S, Ht. reflexivity. Qed.

  Lemma PM_cons toks c t1 toks1 v t2 toks2 rest toks3 :
    PT tiers toks (c, t1 :: toks1) -> tk t1 = TColon ->
    PT tiers toks1 (v, t2 :: toks2) -> tk t2 = TSemicolon ->
    PM toks2 (rest, toks3) ->
    PM toks (ACons c v rest, toks3).
  Proof.
    intros H1 Ht1 [f2 H2] Ht2 [f3 H3]. pose proof (PT_opens _ _ _ H1) as Hop. destruct H1 as [f1 H1].
    set (m := Nat.max f1 (Nat.max f2 f3)).
    exists (S m). rewrite parse_mux_options_S.
    destruct toks as [|t toks0]; [contradiction|]. cbn [opens_term] in Hop. destruct Hop as [Hb _]. rewrite Hb.
    rewrite (pt_mono _ _ _ _ m H1) by lia. rewrite Ht1. cbn [token_eqb].
    rewrite (pt_mono _ _ _ _ m H2) by lia. rewrite Ht2. cbn [token_eqb].
    rewrite (pm_mono _ _ _ m H3) by lia. reflexivity.
  Qed.

  (* ---- parse_commas_exprs ---- *)
  Lemma PC_nil t toks : tk t = TCloseBrace -> PC (t :: toks) (XNil, t :: toks).
  Proof. intros Ht. exists 1%nat. rewrite parse_commas_exprs_S, Ht. reflexivity. Qed.

  Lemma PC_cons toks e t1 toks1 rest toks2 :
    PT tiers toks (e, t1 :: toks1) -> tk t1 = TComma ->
    PC toks1 (rest, toks2) ->
    PC toks (XCons e rest, toks2).
  Proof.
    intros H1 Ht1 [f2 H2]. pose proof (PT_opens _ _ _ H1) as Hop. destruct H1 as [f1 H1].
    set (m := Nat.max f1 f2).
    exists (S m). rewrite parse_commas_exprs_S.
    destruct toks as [|t toks0]; [contradiction|]. cbn [opens_term] in Hop. destruct Hop as [_ Hb]. rewrite Hb.
    rewrite (pt_mono _ _ _ _ m H1) by lia. rewrite Ht1. cbn [token_eqb].
    rewrite (pc_mono _ _ _ m H2) by lia. reflexivity.
  Qed.

  (* from "some fuel" to "all large enough fuel" *)
  Lemma PT_all_fuel ts toks r :
    PT ts toks r -> exists fuel0, forall fuel, (fuel0 <= fuel)%nat -> parse_tiers tiers fuel ts toks = Some r.
  Proof. intros [f H]. exists f. intros fuel Hle. exact (pt_mono _ _ _ _ _ H Hle). Qed.
End Rel.

(* the same rules for tokens built with at_pos *)
Section RelAt.
  Variable tiers : list tier.

  Lemma PS_paren' toks1 e toks2 :
    PT tiers tiers toks1 (e, at_pos TCloseParen :: toks2) -> PS tiers (at_pos TOpenParen :: toks1) (e, toks2).
  Proof. intros H. eapply PS_paren; [reflexivity|exact H|reflexivity]. Qed.

  Lemma PS_cat' toks1 e toks2 r toks3 :
    PT tiers tiers toks1 (e, at_pos TDotDot :: toks2) ->
    PT tiers tiers toks2 (r, at_pos TCloseParen :: toks3) ->
    PS tiers (at_pos TOpenParen :: toks1) (ECat e r, toks3).
  Proof. intros H1 H2. eapply PS_cat; [reflexivity|exact H1|reflexivity|exact H2|reflexivity]. Qed.

  Lemma PS_mux' toks1 a toks2 :
    PM tiers toks1 (a, at_pos TCloseBracket :: toks2) -> PS tiers (at_pos TOpenBracket :: toks1) (EMux a, toks2).
  Proof. intros H. eapply PS_mux; [reflexivity|exact H|reflexivity]. Qed.

  Lemma PT_in' x ts toks l toks2 items toks3 :
    PT tiers ts toks (l, at_pos TIn :: at_pos TOpenBrace :: toks2) ->
    PC tiers toks2 (items, at_pos TCloseBrace :: toks3) ->
    PT tiers ((KIn, x) :: ts) toks (EIn l items, toks3).
  Proof. intros H1 H2. eapply PT_in; [exact H1|reflexivity|reflexivity|exact H2|reflexivity]. Qed.

  Lemma PM_cons' toks c toks1 v toks2 rest toks3 :
    PT tiers tiers toks (c, at_pos TColon :: toks1) ->
    PT tiers tiers toks1 (v, at_pos TSemicolon :: toks2) ->
    PM tiers toks2 (rest, toks3) ->
    PM tiers toks (ACons c v rest, toks3).
  Proof. intros H1 H2 H3. eapply PM_cons; [exact H1|reflexivity|exact H2|reflexivity|exact H3]. Qed.

  Lemma PC_cons' toks e toks1 rest toks2 :
    PT tiers tiers toks (e, at_pos TComma :: toks1) ->
    PC tiers toks1 (rest, toks2) ->
    PC tiers toks (XCons e rest, toks2).
  Proof. intros H1 H2. eapply PC_cons; [exact H1|reflexivity|exact H2]. Qed.

  Lemma PTm_slice' toks e lo hi toks2 :
    lo <= 128 -> hi <= 128 ->
    PS tiers toks (e, at_pos TOpenBracket :: at_pos (num lo) :: at_pos TDotDot :: at_pos (num hi)
                       :: at_pos TCloseBracket :: toks2) ->
    PTm tiers toks (ESlice e lo hi, toks2).
  Proof.
    intros Hlo Hhi H.
    assert (Hs : forall n, n <= 128 -> small_constant (tk (at_pos (num n))) = Some n).
    { intros n Hn. unfold num, at_pos, tk. cbn [fst snd small_constant bits].
      destruct (N.leb_spec n 128) as [_|Hc]; [reflexivity|lia]. }
    eapply PTm_slice; [exact H|reflexivity|apply Hs; exact Hlo|reflexivity|apply Hs; exact Hhi|reflexivity].
  Qed.
End RelAt.

(* ====================================================================================== *)
(* Part 4: tiers that do not consume the next token pass an operand through               *)
(* ====================================================================================== *)
Definition tier_ok (o : option token) (tr : tier) : bool :=
  match tr with
  | (KLeft, ops) => no_op ops o
  | (KNonAssoc, ops) => no_op ops o
  | (KIn, _) => not_tok TIn o
  | (KBad, _) => false
  end.

Definition passes (ts : list tier) (rest : list tok) : Prop :=
  forallb (tier_ok (hd_tok rest)) ts = true.

Lemma passes_app ts1 ts2 rest : passes (ts1 ++ ts2) rest <-> passes ts1 rest /\ passes ts2 rest.
Proof. unfold passes. rewrite forallb_app, andb_true_iff. tauto. Qed.

Lemma passes_firstn k ts rest : passes ts rest -> passes (firstn k ts) rest.
Proof. intros H. rewrite <- (firstn_skipn k ts) in H. apply passes_app in H. tauto. Qed.

Lemma passes_skipn k ts rest : passes ts rest -> passes (skipn k ts) rest.
Proof. intros H. rewrite <- (firstn_skipn k ts) in H. apply passes_app in H. tauto. Qed.

Lemma skipn_skipn' {A} (a b : nat) (l : list A) : skipn a (skipn b l) = skipn (b + a) l.
Proof.
  revert l. induction b as [|b IH]; intros l; [reflexivity|].
  destruct l as [|x l]; [destruct a; reflexivity|]. cbn [skipn Nat.add]. apply IH.
Qed.

Lemma passes_cons tr ts rest : passes (tr :: ts) rest <-> tier_ok (hd_tok rest) tr = true /\ passes ts rest.
Proof. unfold passes. cbn [forallb]. rewrite andb_true_iff. tauto. Qed.

Lemma pass_through tiers pre ts0 toks e rest :
  passes pre rest -> PT tiers ts0 toks (e, rest) -> PT tiers (pre ++ ts0) toks (e, rest).
Proof.
  induction pre as [|[k ops] pre IH]; intros Hp H0; [exact H0|].
  apply passes_cons in Hp. destruct Hp as [Hk Hp]. specialize (IH Hp H0).
  cbn [app]. destruct k; cbn [tier_ok] in Hk.
  - eapply PT_left; [exact IH|]. apply LL_stop. exact Hk.
  - apply PT_na_stop; assumption.
  - apply PT_in_stop; assumption.
  - discriminate.
Qed.

(* ---- facts about the documented table ---- *)
Definition from (m : nat) : list tier := skipn m doc_tiers.

Definition kind_of (op : binop) : tier_kind := if is_nonassoc op then KNonAssoc else KLeft.
Definition ops_of (op : binop) : list binop :=
  match nth_error doc_tiers (level_of op) with Some (_, ops) => ops | None => [] end.

Lemma from_level op : from (level_of op) = (kind_of op, ops_of op) :: from (S (level_of op)).
Proof. destruct op; reflexivity. Qed.

Lemma ops_of_find op : op_of_token (ops_of op) (binop_token op) = Some op.
Proof. destruct op; reflexivity. Qed.

Lemma op_passes_tighter op rest : passes (from (S (level_of op))) (at_pos (binop_token op) :: rest).
Proof. destruct op; reflexivity. Qed.

Lemma op_not_bracket op rest : not_tok TOpenBracket (hd_tok (at_pos (binop_token op) :: rest)) = true.
Proof. destruct op; reflexivity. Qed.

Lemma from_0 : from 0 = doc_tiers.
Proof. reflexivity. Qed.

Lemma doc_split m : doc_tiers = firstn m doc_tiers ++ from m.
Proof. unfold from. symmetry. apply firstn_skipn. Qed.

Lemma passes_from m rest : passes doc_tiers rest -> passes (from m) rest.
Proof. apply passes_skipn. Qed.

Lemma from_le_passes m n rest : (m <= n)%nat -> passes (from m) rest -> passes (from n) rest.
Proof.
  intros Hle H. unfold from in *. replace n with (m + (n - m))%nat by lia.
  rewrite <- skipn_skipn'. apply passes_skipn. exact H.
Qed.

(* lifting a parse by the tiers of level >= n to one by the tiers of level >= m (m <= n) *)
Lemma PT_from_le m n toks e rest :
  (m <= n)%nat -> passes (from m) rest -> PT doc_tiers (from n) toks (e, rest) -> PT doc_tiers (from m) toks (e, rest).
Proof.
  intros Hle Hp H.
  assert (Hs : from m = firstn (n - m) (from m) ++ from n).
  { unfold from. replace n with (m + (n - m))%nat at 2 by lia.
    rewrite <- skipn_skipn'. symmetry. apply firstn_skipn. }
  rewrite Hs. apply pass_through; [|exact H]. apply passes_firstn. exact Hp.
Qed.

Lemma from_big m : (10 <= m)%nat -> from m = [].
Proof. intros H. unfold from. apply skipn_all2. cbn. exact H. Qed.

Lemma PTm_to_from m toks e rest :
  passes (from m) rest -> PTm doc_tiers toks (e, rest) -> PT doc_tiers (from m) toks (e, rest).
Proof.
  intros Hp H. rewrite <- (app_nil_r (from m)). apply pass_through; [exact Hp|]. apply PT_nil. exact H.
Qed.

(* the tier of [op] builds the node once both operands have been read by the tighter tiers *)
Lemma PT_binop op l r toks toks1 rest :
  PT doc_tiers (from (S (level_of op))) toks (l, at_pos (binop_token op) :: toks1) ->
  PT doc_tiers (from (S (level_of op))) toks1 (r, rest) ->
  no_op (ops_of op) (hd_tok rest) = true ->
  PT doc_tiers (from (level_of op)) toks (EBin op l r, rest).
Proof.
  intros Hl Hr Hno. rewrite from_level. unfold kind_of. destruct (is_nonassoc op).
  - eapply PT_na_op; [exact Hl | apply ops_of_find | exact Hr].
  - eapply PT_left; [exact Hl|].
    eapply LL_step; [apply ops_of_find | exact Hr |]. apply LL_stop. exact Hno.
Qed.

(* closing tokens are consumed by no tier *)
Definition closer (t : token) : bool :=
  match t with
  | TCloseParen | TCloseBrace | TCloseBracket | TDotDot | TColon | TSemicolon | TComma => true
  | _ => false
  end.

Lemma closer_passes t rest ts : closer t = true -> passes (skipn ts doc_tiers) (at_pos t :: rest).
Proof. intros H. apply passes_skipn. destruct t; try discriminate H; reflexivity. Qed.

Lemma closer_passes_all t rest : closer t = true -> passes doc_tiers (at_pos t :: rest).
Proof. intros H. destruct t; try discriminate H; reflexivity. Qed.

Lemma closer_not_bracket t rest : closer t = true -> not_tok TOpenBracket (hd_tok (at_pos t :: rest)) = true.
Proof. intros H. destruct t; try discriminate H; reflexivity. Qed.

Lemma stops_passes rest : stops rest -> passes doc_tiers rest /\ not_tok TOpenBracket (hd_tok rest) = true.
Proof.
  destruct rest as [|[[s t] e] rest]; [intros _; split; reflexivity|].
  unfold stops. change (tk (s, t, e)) with t. intros H.
  destruct t; try discriminate H; split; reflexivity.
Qed.

(* ====================================================================================== *)
(* Part 5: the fully parenthesised round trip                                             *)
(* ====================================================================================== *)
Local Notation T := (map at_pos).

Lemma string_of_bytes_of_string n : string_of_name (bytes_of_string n) = n.
Proof.
  unfold string_of_name. induction n as [|c n IH]; [reflexivity|].
  cbn [bytes_of_string string_of_bytes]. rewrite ascii_N_embedding, IH. reflexivity.
Qed.

Lemma T_app a b : T (a ++ b) = T a ++ T b.
Proof. apply map_app. Qed.

Ltac norm_toks := rewrite ?T_app, <- ?app_assoc; cbn [map app].

Definition full_expr (e : expr) : Prop :=
  printable e -> forall rest, not_tok TOpenBracket (hd_tok rest) = true ->
    PTm doc_tiers (T (toks_full e) ++ rest) (e, rest).
Definition full_arms (a : arms) : Prop :=
  printable_arms a -> forall rest,
    PM doc_tiers (T (toks_full_arms a) ++ at_pos TCloseBracket :: rest) (a, at_pos TCloseBracket :: rest).
Definition full_items (xs : exprs) : Prop :=
  printable_items xs -> forall rest,
    PC doc_tiers (T (toks_full_items xs) ++ at_pos TCloseBrace :: rest) (xs, at_pos TCloseBrace :: rest).

(* an expression followed by a closing token, read by the whole table *)
Lemma full_top e t rest :
  full_expr e -> printable e -> closer t = true ->
  PT doc_tiers doc_tiers (T (toks_full e) ++ at_pos t :: rest) (e, at_pos t :: rest).
Proof.
  intros He Hp Ht. rewrite <- from_0 at 2. apply PTm_to_from.
  - rewrite from_0. apply closer_passes_all. exact Ht.
  - apply He; [exact Hp|]. apply closer_not_bracket. exact Ht.
Qed.

Lemma full_ok : (forall e, full_expr e) /\ (forall a, full_arms a) /\ (forall xs, full_items xs).
Proof.
  apply expr_arms_exprs_ind.
  - (* EConst *)
    intros v _ rest Hnb. cbn [toks_full map app].
    apply PTm_simple; [|exact Hnb]. apply PS_lit. reflexivity.
  - (* EBin *)
    intros op l IHl r IHr [Hpl Hpr] rest Hnb.
    change (toks_full (EBin op l r))
      with ([TOpenParen] ++ toks_full l ++ [binop_token op] ++ toks_full r ++ [TCloseParen]).
    norm_toks.
    apply PTm_simple; [|exact Hnb].
    apply PS_paren'.
    rewrite (doc_split (level_of op)) at 2.
    apply pass_through.
    { apply passes_firstn. apply closer_passes_all. reflexivity. }
    eapply PT_binop.
    + apply PTm_to_from; [apply op_passes_tighter|].
      apply IHl; [exact Hpl|]. apply op_not_bracket.
    + apply PTm_to_from; [apply closer_passes; reflexivity|].
      apply IHr; [exact Hpr|]. reflexivity.
    + destruct op; reflexivity.
  - (* EUn *)
    intros u e IHe Hp rest Hnb.
    change (toks_full (EUn u e)) with ([unop_token u; TOpenParen] ++ toks_full e ++ [TCloseParen]).
    norm_toks.
    apply PTm_un; [destruct u; reflexivity|].
    apply PS_paren'.
    apply full_top; [exact IHe|exact Hp|reflexivity].
  - (* EMux *)
    intros a IHa Hp rest Hnb.
    change (toks_full (EMux a)) with ([TOpenBracket] ++ toks_full_arms a ++ [TCloseBracket]).
    norm_toks.
    apply PTm_simple; [|exact Hnb].
    apply PS_mux'.
    apply IHa. exact Hp.
  - (* EWire *)
    intros n _ rest Hnb. cbn [toks_full map app].
    apply PTm_simple; [|exact Hnb].
    rewrite <- (string_of_bytes_of_string n) at 2. apply PS_id. reflexivity.
  - (* ESlice *)
    intros e IHe lo hi (Hp & Hlo & Hhi) rest Hnb.
    change (toks_full (ESlice e lo hi))
      with ([TOpenParen] ++ toks_full e ++ [TCloseParen; TOpenBracket; num lo; TDotDot; num hi; TCloseBracket]).
    norm_toks.
    apply PTm_slice'; [exact Hlo|exact Hhi|].
    apply PS_paren'.
    apply full_top; [exact IHe|exact Hp|reflexivity].
  - (* ECat *)
    intros l IHl r IHr [Hpl Hpr] rest Hnb.
    change (toks_full (ECat l r))
      with ([TOpenParen] ++ toks_full l ++ [TDotDot] ++ toks_full r ++ [TCloseParen]).
    norm_toks.
    apply PTm_simple; [|exact Hnb].
    eapply PS_cat'.
    + apply full_top; [exact IHl|exact Hpl|reflexivity].
    + apply full_top; [exact IHr|exact Hpr|reflexivity].
  - (* EIn *)
    intros e IHe xs IHxs [Hp Hpx] rest Hnb.
    change (toks_full (EIn e xs))
      with ([TOpenParen] ++ toks_full e ++ [TIn; TOpenBrace] ++ toks_full_items xs ++ [TCloseBrace; TCloseParen]).
    norm_toks.
    apply PTm_simple; [|exact Hnb].
    apply PS_paren'.
    rewrite (doc_split in_level) at 2.
    apply pass_through.
    { apply passes_firstn. apply closer_passes_all. reflexivity. }
    change (from in_level) with ((KIn, @nil binop) :: from (S in_level)).
    eapply PT_in'.
    + apply PTm_to_from; [reflexivity|]. apply IHe; [exact Hp|reflexivity].
    + apply IHxs. exact Hpx.
  - (* ANil *)
    intros _ rest. cbn [toks_full_arms map app]. apply PM_nil. reflexivity.
  - (* ACons *)
    intros c IHc v IHv a IHa (Hpc & Hpv & Hpa) rest.
    change (toks_full_arms (ACons c v a))
      with (toks_full c ++ [TColon] ++ toks_full v ++ [TSemicolon] ++ toks_full_arms a).
    norm_toks.
    eapply PM_cons'.
    + apply full_top; [exact IHc|exact Hpc|reflexivity].
    + apply full_top; [exact IHv|exact Hpv|reflexivity].
    + apply IHa. exact Hpa.
  - (* XNil *)
    intros _ rest. cbn [toks_full_items map app]. apply PC_nil. reflexivity.
  - (* XCons *)
    intros e IHe xs IHxs [Hpe Hpx] rest.
    change (toks_full_items (XCons e xs)) with (toks_full e ++ [TComma] ++ toks_full_items xs).
    norm_toks.
    eapply PC_cons'.
    + apply full_top; [exact IHe|exact Hpe|reflexivity].
    + apply IHxs. exact Hpx.
Qed.

Theorem roundtrip_full_ok : stmt_roundtrip_full.
Proof.
  intros e Hp rest Hst. destruct (stops_passes rest Hst) as [Hpass Hnb].
  unfold parse_expr. apply PT_all_fuel.
  rewrite <- from_0 at 2. apply PTm_to_from; [exact Hpass|].
  apply (proj1 full_ok); assumption.
Qed.

(* ====================================================================================== *)
(* Part 6: literals                                                                       *)
(* ====================================================================================== *)

(* the (offset, character) pairs of an ASCII text *)
Fixpoint idx (pos : nat) (l : list N) : list (nat * N) :=
  match l with [] => [] | b :: r => (pos, b) :: idx (pos + 1) r end.

Lemma idx_length pos l : List.length (idx pos l) = List.length l.
Proof. revert pos. induction l as [|b l IH]; intros pos; [reflexivity|]. cbn [idx List.length]. now rewrite IH. Qed.

Lemma take_cont_0 l acc : take_cont l 0 acc = (acc, l).
Proof. destruct l; reflexivity. Qed.

Lemma char_indices_ascii l : forall fuel pos,
  (List.length l <= fuel)%nat -> forallb (fun b => b <? 128) l = true -> char_indices fuel l pos = idx pos l.
Proof.
  induction l as [|b l IH]; intros fuel pos Hlen Hall.
  - destruct fuel; reflexivity.
  - destruct fuel as [|fuel]; [cbn [List.length] in Hlen; lia|].
    cbn [List.length] in Hlen. cbn [forallb] in Hall. apply andb_true_iff in Hall. destruct Hall as [Hb Hall].
    cbn [char_indices idx]. unfold utf8_len. rewrite Hb. cbn [Nat.sub]. rewrite take_cont_0.
    f_equal. apply IH; [lia|exact Hall].
Qed.

Lemma forallb_impl {A} (p q : A -> bool) l :
  (forall x, p x = true -> q x = true) -> forallb p l = true -> forallb q l = true.
Proof.
  intros Hpq. induction l as [|x l IH]; [reflexivity|]. cbn [forallb]. rewrite !andb_true_iff.
  intros [Hx Hl]. split; [apply Hpq; exact Hx|apply IH; exact Hl].
Qed.

Lemma get_while_all p l : forall pos len, forallb p l = true -> get_while p (idx pos l) len = ([], len).
Proof.
  induction l as [|b l IH]; intros pos len Hall; [reflexivity|].
  cbn [forallb] in Hall. apply andb_true_iff in Hall. destruct Hall as [Hb Hall].
  cbn [idx get_while]. rewrite Hb. apply IH. exact Hall.
Qed.

Lemma dec_cases c : dec_digit c = true ->
  c = 48 \/ c = 49 \/ c = 50 \/ c = 51 \/ c = 52 \/ c = 53 \/ c = 54 \/ c = 55 \/ c = 56 \/ c = 57.
Proof. unfold dec_digit. rewrite andb_true_iff, !N.leb_le. lia. Qed.

Lemma dec_lt128 c : dec_digit c = true -> (c <? 128) = true.
Proof. unfold dec_digit. rewrite andb_true_iff, !N.leb_le, N.ltb_lt. lia. Qed.
Lemma hex_lt128 c : hex_digit c = true -> (c <? 128) = true.
Proof. unfold hex_digit, dec_digit. rewrite !orb_true_iff, !andb_true_iff, !N.leb_le, N.ltb_lt. lia. Qed.
Lemma bin_lt128 c : bin_digit c = true -> (c <? 128) = true.
Proof. unfold bin_digit. rewrite andb_true_iff, !N.leb_le, N.ltb_lt. lia. Qed.

(* ---- values ---- *)
Lemma digits_value_positional radix ds : forall acc,
  digits_value radix ds acc = acc * radix ^ N.of_nat (List.length ds) + positional radix ds.
Proof.
  induction ds as [|d ds IH]; intros acc.
  - cbn [digits_value positional List.length N.of_nat]. rewrite N.pow_0_r. lia.
  - cbn [digits_value positional List.length]. rewrite IH. fold (digit_value d).
    rewrite Nat2N.inj_succ, N.pow_succ_r'. lia.
Qed.

Lemma digits_value_0 radix ds : digits_value radix ds 0 = positional radix ds.
Proof. rewrite digits_value_positional. lia. Qed.

Lemma bin_positional_bound ds : forallb bin_digit ds = true -> positional 2 ds < 2 ^ N.of_nat (List.length ds).
Proof.
  induction ds as [|d ds IH]; intros Hall.
  - cbn. lia.
  - cbn [forallb] in Hall. apply andb_true_iff in Hall. destruct Hall as [Hd Hall].
    specialize (IH Hall). cbn [positional List.length]. rewrite Nat2N.inj_succ, N.pow_succ_r'.
    assert (Hv : digit_value d <= 1).
    { unfold bin_digit in Hd. apply andb_true_iff in Hd. rewrite !N.leb_le in Hd.
      unfold digit_value. destruct (N.leb_spec d 57); lia. }
    set (P := 2 ^ N.of_nat (List.length ds)) in *. nia.
Qed.

Lemma slice_all bytes : slice bytes 0 (List.length bytes) = bytes.
Proof. unfold slice. cbn [skipn]. rewrite Nat.sub_0_r. apply firstn_all. Qed.

Lemma slice_after2 a b ds : slice (a :: b :: ds) 2 (S (S (List.length ds))) = ds.
Proof. unfold slice. cbn [skipn Nat.sub]. rewrite Nat.sub_0_r. apply firstn_all. Qed.

(* ---- the constant scanner ---- *)
Lemma hc_dec_step bytes len i j c tl : dec_digit c = true ->
  handle_constant bytes len i ((j, c) :: tl) =
  let '(rest, last) := get_while is_decimal_char tl len in (constant_of bytes 10 i last i last None, rest).
Proof.
  intros H. destruct (dec_cases c H) as [->|[->|[->|[->|[->|[->|[->|[->|[->| ->]]]]]]]]]; reflexivity.
Qed.

Lemma hc_hex_step bytes len i j k c tl :
  handle_constant bytes len i ((j, 120) :: (k, c) :: tl) =
  if is_hexadecimal_char c then
    let '(rest, last) := get_while is_hexadecimal_char tl len in
    (constant_of bytes 16 (i + 2) last i last None, rest)
  else (inr (LexLexicalError k), tl).
Proof. reflexivity. Qed.

Lemma hc_bin_step bytes len i j k c tl :
  handle_constant bytes len i ((j, 98) :: (k, c) :: tl) =
  if is_binary_char c then
    let '(rest, last) := get_while is_binary_char tl len in
    match rest with
    | (k2, c2) :: rest2 =>
        if is_decimal_char c2 then (inr (LexLexicalError k2), rest2)
        else (constant_of bytes 2 (i + 2) last i last (Some (N.of_nat (last - (i + 2)))), rest)
    | [] => (constant_of bytes 2 (i + 2) last i last (Some (N.of_nat (last - (i + 2)))), rest)
    end
  else (inr (LexLexicalError k), tl).
Proof. reflexivity. Qed.

Section LexLit.
  Variable uc : N -> uclass.

  Lemma lex_next_digit f bytes len i c r : dec_digit c = true ->
    lex_next uc (S f) bytes len ((i, c) :: r) =
    match handle_constant bytes len i r with
    | (inl t, rest) => LexTok t rest
    | (inr e, rest) => LexErr e rest
    end.
  Proof.
    intros H. destruct (dec_cases c H) as [->|[->|[->|[->|[->|[->|[->|[->|[->| ->]]]]]]]]]; reflexivity.
  Qed.

  (* a text whose first character is a digit and whose constant scanner eats everything *)
  Lemma lex_one_constant d ds res :
    forallb (fun b => b <? 128) (d :: ds) = true -> dec_digit d = true ->
    handle_constant (d :: ds) (S (List.length ds)) 0 (idx 1 ds) = (res, []) ->
    lex uc (d :: ds) =
    match res with inl t => ([t], None) | inr e => ([], Some e) end.
  Proof.
    intros Hascii Hd Hhc. unfold lex.
    rewrite char_indices_ascii; [|lia|exact Hascii].
    cbn [List.length idx]. cbn [lex_loop].
    rewrite lex_next_digit by exact Hd. change (0 + 1)%nat with 1%nat. rewrite Hhc.
    destruct res as [t|e]; [|reflexivity].
    destruct (List.length ds) as [|n]; reflexivity.
  Qed.

End LexLit.

Lemma forallb_cons_true {A} (p : A -> bool) x l : forallb p (x :: l) = true -> p x = true /\ forallb p l = true.
Proof. cbn [forallb]. apply andb_true_iff. Qed.

Theorem lex_decimal_ok : stmt_lex_decimal.
Proof.
  intros uc ds Hne Hall. destruct ds as [|d ds]; [congruence|]. clear Hne.
  destruct (forallb_cons_true _ _ _ Hall) as [Hd Hds].
  set (len := S (List.length ds)).
  rewrite (lex_one_constant uc d ds (constant_of (d :: ds) 10 0 len 0 len None)).
  - unfold constant_of. subst len. change (S (List.length ds)) with (List.length (d :: ds)).
    rewrite (slice_all (d :: ds)), digits_value_0. destruct (positional 10 (d :: ds) <? two128); reflexivity.
  - revert Hall. apply forallb_impl. exact dec_lt128.
  - exact Hd.
  - destruct ds as [|c ds']; [reflexivity|].
    destruct (forallb_cons_true _ _ _ Hds) as [Hc Hds'].
    cbn [idx]. rewrite hc_dec_step by exact Hc.
    rewrite get_while_all by exact Hds'. reflexivity.
Qed.

Theorem lex_hex_ok : stmt_lex_hex.
Proof.
  intros uc ds Hne Hall. destruct ds as [|c ds']; [congruence|]. clear Hne.
  destruct (forallb_cons_true _ _ _ Hall) as [Hc Hds'].
  set (ds := c :: ds') in *.
  change ([48; 120] ++ ds) with (48 :: 120 :: ds).
  set (len := S (S (List.length ds))).
  rewrite (lex_one_constant uc 48 (120 :: ds) (constant_of (48 :: 120 :: ds) 16 2 len 0 len None)).
  - unfold constant_of. subst len. rewrite slice_after2, digits_value_0.
    change (2 + List.length ds)%nat with (S (S (List.length ds))).
    destruct (positional 16 ds <? two128); reflexivity.
  - change (forallb (fun b => b <? 128) ds = true). revert Hall. apply forallb_impl. exact hex_lt128.
  - reflexivity.
  - subst ds. cbn [idx]. rewrite hc_hex_step.
    change (is_hexadecimal_char c) with (hex_digit c). rewrite Hc.
    rewrite get_while_all by exact Hds'. reflexivity.
Qed.

Theorem lex_binary_ok : stmt_lex_binary.
Proof.
  intros uc ds Hne Hall. destruct ds as [|c ds']; [congruence|]. clear Hne.
  destruct (forallb_cons_true _ _ _ Hall) as [Hc Hds'].
  pose proof (bin_positional_bound _ Hall) as Hbound.
  set (ds := c :: ds') in *.
  change ([48; 98] ++ ds) with (48 :: 98 :: ds).
  set (len := S (S (List.length ds))).
  rewrite (lex_one_constant uc 48 (98 :: ds)
             (constant_of (48 :: 98 :: ds) 2 2 len 0 len (Some (N.of_nat (List.length ds))))).
  - unfold constant_of. subst len. rewrite slice_after2, digits_value_0.
    change (2 + List.length ds)%nat with (S (S (List.length ds))).
    destruct (Nat.leb_spec (List.length ds) 128) as [Hle|Hgt].
    + assert (Hlt : (positional 2 ds <? two128) = true).
      { apply N.ltb_lt. unfold two128. eapply N.lt_le_trans; [exact Hbound|].
        apply N.pow_le_mono_r; lia. }
      rewrite Hlt.
      assert (Hw : (N.of_nat (List.length ds) <=? 128) = true) by (apply N.leb_le; lia).
      rewrite Hw. reflexivity.
    + assert (Hw : (N.of_nat (List.length ds) <=? 128) = false) by (apply N.leb_gt; lia).
      rewrite Hw. destruct (positional 2 ds <? two128); reflexivity.
  - change (forallb (fun b => b <? 128) ds = true). revert Hall. apply forallb_impl. exact bin_lt128.
  - reflexivity.
  - subst ds. cbn [idx]. rewrite hc_bin_step.
    change (is_binary_char c) with (bin_digit c). rewrite Hc.
    rewrite get_while_all by exact Hds'.
    subst len. cbn [List.length Nat.add Nat.sub]. reflexivity.
Qed.

(* ====================================================================================== *)
(* Part 7: the minimally parenthesised round trip                                         *)
(* ====================================================================================== *)
(* the level of a node's own production (11: a SimpleTerm, never parenthesised) *)
Definition node_level (e : expr) : nat :=
  match e with
  | EBin op _ _ => level_of op
  | EUn _ _ | ESlice _ _ _ => term_level
  | EIn _ _ => in_level
  | EConst _ | EWire _ | EMux _ | ECat _ _ => S term_level
  end.

(* the tokens of a node without its own parentheses *)
Definition body (e : expr) : list token :=
  match e with
  | EConst v => [TLit v]
  | EWire n => [TIdentifier (bytes_of_string n)]
  | EBin op l r =>
      toks_min (if is_nonassoc op then S (level_of op) else level_of op) l ++ [binop_token op]
      ++ toks_min (S (level_of op)) r
  | EUn u e1 => [unop_token u] ++ toks_min (S term_level) e1
  | EMux a => [TOpenBracket] ++ toks_min_arms a ++ [TCloseBracket]
  | ESlice e1 lo hi => toks_min (S term_level) e1 ++ [TOpenBracket; num lo; TDotDot; num hi; TCloseBracket]
  | ECat l r => [TOpenParen] ++ toks_min 0 l ++ [TDotDot] ++ toks_min 0 r ++ [TCloseParen]
  | EIn e1 items => toks_min (S in_level) e1 ++ [TIn; TOpenBrace] ++ toks_min_items items ++ [TCloseBrace]
  end.

Lemma toks_min_body m e : (m <= 11)%nat ->
  toks_min m e = if (m <=? node_level e)%nat then body e else [TOpenParen] ++ body e ++ [TCloseParen].
Proof.
  intros Hm. destruct e; try reflexivity;
    cbn [node_level]; destruct (Nat.leb_spec m (S term_level)) as [_|Hc];
    try reflexivity; unfold term_level in Hc; lia.
Qed.

Lemma nth_skipn {A} (l : list A) : forall m x, nth_error l m = Some x -> skipn m l = x :: skipn (S m) l.
Proof.
  induction l as [|y l IH]; intros m x H; destruct m as [|m]; try discriminate.
  - cbn in H. injection H as ->. reflexivity.
  - cbn [nth_error] in H. change (skipn (S m) (y :: l)) with (skipn m l). rewrite (IH _ _ H). reflexivity.
Qed.

Lemma nth_from m tr : nth_error doc_tiers m = Some tr -> from m = tr :: from (S m).
Proof. apply nth_skipn. Qed.

Lemma nth_none_big m : nth_error doc_tiers m = None -> (10 <= m)%nat.
Proof. intros H. apply nth_error_None in H. exact H. Qed.

Lemma nth_level op : nth_error doc_tiers (level_of op) = Some (kind_of op, ops_of op).
Proof. destruct op; reflexivity. Qed.

Lemma closer_passes_from t rest m : closer t = true -> passes (from m) (at_pos t :: rest).
Proof. apply closer_passes. Qed.

(* what the tier of level m must do with an operand e followed by rest, where rest is not
   consumed by the tighter tiers: a left-associative tier continues its loop from e *)
Definition good (m : nat) (toks : list tok) (e : expr) (rest : list tok) : Prop :=
  match nth_error doc_tiers m with
  | Some (KLeft, ops) =>
      forall res, LL doc_tiers (from (S m)) ops e rest res -> PT doc_tiers (from m) toks res
  | Some tr => tier_ok (hd_tok rest) tr = true -> PT doc_tiers (from m) toks (e, rest)
  | None => PT doc_tiers (from m) toks (e, rest)
  end.

Lemma good_b m toks e rest :
  good m toks e rest -> passes (from m) rest -> PT doc_tiers (from m) toks (e, rest).
Proof.
  unfold good. intros Hg Hp. destruct (nth_error doc_tiers m) as [[k ops]|] eqn:E; [|exact Hg].
  rewrite (nth_from _ _ E) in Hp. apply passes_cons in Hp. destruct Hp as [Hk _].
  destruct k.
  - apply Hg. apply LL_stop. exact Hk.
  - apply Hg. exact Hk.
  - apply Hg. exact Hk.
  - apply Hg. exact Hk.
Qed.

Lemma good_of_tighter m toks e rest :
  PT doc_tiers (from (S m)) toks (e, rest) -> good m toks e rest.
Proof.
  unfold good. intros H. destruct (nth_error doc_tiers m) as [[k ops]|] eqn:E.
  - rewrite (nth_from _ _ E). destruct k.
    + intros res HLL. eapply PT_left; [exact H|exact HLL].
    + intros Hk. apply PT_na_stop; assumption.
    + intros Hk. apply PT_in_stop; assumption.
    + intros Hk. discriminate Hk.
  - apply nth_none_big in E. rewrite from_big in H |- * by lia. exact H.
Qed.

Lemma simple_good m toks e rest :
  PS doc_tiers toks (e, rest) -> not_tok TOpenBracket (hd_tok rest) = true -> passes (from (S m)) rest ->
  good m toks e rest.
Proof.
  intros HS Hnb Hp. apply good_of_tighter. apply PTm_to_from; [exact Hp|]. apply PTm_simple; assumption.
Qed.

Definition min_concl (e : expr) : Prop :=
  (forall m rest, (m <= 10)%nat -> not_tok TOpenBracket (hd_tok rest) = true -> passes (from (S m)) rest ->
      good m (T (toks_min m e) ++ rest) e rest)
  /\ (forall rest, PS doc_tiers (T (toks_min 11 e) ++ rest) (e, rest)).

Definition min_expr (e : expr) : Prop := printable e -> min_concl e.
Definition min_arms (a : arms) : Prop :=
  printable_arms a -> forall rest,
    PM doc_tiers (T (toks_min_arms a) ++ at_pos TCloseBracket :: rest) (a, at_pos TCloseBracket :: rest).
Definition min_items (xs : exprs) : Prop :=
  printable_items xs -> forall rest,
    PC doc_tiers (T (toks_min_items xs) ++ at_pos TCloseBrace :: rest) (xs, at_pos TCloseBrace :: rest).

(* reading e where a tier of level >= m is expected, followed by something no such tier consumes *)
Lemma min_b e m rest :
  min_concl e -> (m <= 10)%nat -> not_tok TOpenBracket (hd_tok rest) = true -> passes (from m) rest ->
  PT doc_tiers (from m) (T (toks_min m e) ++ rest) (e, rest).
Proof.
  intros [H1 _] Hm Hnb Hp. apply good_b; [|exact Hp].
  apply H1; [exact Hm|exact Hnb|]. eapply from_le_passes; [|exact Hp]. lia.
Qed.

Lemma min_top e t rest :
  min_concl e -> closer t = true ->
  PT doc_tiers doc_tiers (T (toks_min 0 e) ++ at_pos t :: rest) (e, at_pos t :: rest).
Proof.
  intros He Ht. rewrite <- from_0 at 2. apply min_b; [exact He|lia| |].
  - apply closer_not_bracket. exact Ht.
  - apply closer_passes_from. exact Ht.
Qed.

(* nodes that are SimpleTerms whatever the level *)
Lemma simple_to_min e :
  (forall m rest, PS doc_tiers (T (toks_min m e) ++ rest) (e, rest)) -> min_concl e.
Proof.
  intros H. split.
  - intros m rest Hm Hnb Hp. apply simple_good; [apply H|exact Hnb|exact Hp].
  - intros rest. apply H.
Qed.

(* nodes with a level of their own: it is enough to read the unparenthesised node at its own level *)
Lemma own_to_min e : (node_level e <= 10)%nat ->
  (forall rest, not_tok TOpenBracket (hd_tok rest) = true -> passes (from (S (node_level e))) rest ->
      good (node_level e) (T (body e) ++ rest) e rest) ->
  min_concl e.
Proof.
  intros Hlv Hown.
  assert (Hparen : forall rest,
             PS doc_tiers (at_pos TOpenParen :: T (body e) ++ at_pos TCloseParen :: rest) (e, rest)).
  { intros rest. apply PS_paren'. rewrite (doc_split (node_level e)) at 2. apply pass_through.
    - apply passes_firstn, closer_passes_all. reflexivity.
    - apply good_b; [|apply closer_passes_from; reflexivity].
      apply Hown; [reflexivity|apply closer_passes_from; reflexivity]. }
  split.
  - intros m rest Hm Hnb Hp. rewrite toks_min_body by lia.
    destruct (Nat.leb_spec m (node_level e)) as [Hle|Hgt].
    + destruct (Nat.eq_dec m (node_level e)) as [->|Hne].
      * apply Hown; assumption.
      * apply good_of_tighter. apply (PT_from_le (S m) (node_level e)); [lia|exact Hp|].
        assert (Hp' : passes (from (node_level e)) rest) by (eapply from_le_passes; [|exact Hp]; lia).
        apply good_b; [|exact Hp'].
        apply Hown; [exact Hnb|]. eapply from_le_passes; [|exact Hp']. lia.
    + norm_toks. apply simple_good; [apply Hparen|exact Hnb|exact Hp].
  - intros rest. rewrite toks_min_body by lia.
    destruct (Nat.leb_spec 11 (node_level e)) as [Hc|_]; [lia|].
    norm_toks. apply Hparen.
Qed.

Lemma min_ok : (forall e, min_expr e) /\ (forall a, min_arms a) /\ (forall xs, min_items xs).
Proof.
  apply expr_arms_exprs_ind.
  - (* EConst *)
    intros v _. apply simple_to_min. intros m rest. cbn [toks_min map app]. apply PS_lit. reflexivity.
  - (* EBin *)
    intros op l IHl r IHr [Hpl Hpr]. specialize (IHl Hpl). specialize (IHr Hpr).
    assert (Hlv : (level_of op <= 9)%nat) by (destruct op; cbn; lia).
    apply own_to_min; [cbn [node_level]; lia|].
    cbn [node_level body]. intros rest Hnb Hp. norm_toks.
    assert (Hr : PT doc_tiers (from (S (level_of op))) (T (toks_min (S (level_of op)) r) ++ rest) (r, rest)).
    { apply min_b; [exact IHr|lia|exact Hnb|exact Hp]. }
    unfold good. rewrite nth_level, from_level. unfold kind_of. destruct (is_nonassoc op) eqn:Hna.
    + intros _. eapply PT_na_op.
      * apply min_b; [exact IHl|lia|apply op_not_bracket|apply op_passes_tighter].
      * apply ops_of_find.
      * exact Hr.
    + intros res HLL. destruct IHl as [IHl1 _].
      specialize (IHl1 (level_of op)
                       (at_pos (binop_token op) :: T (toks_min (S (level_of op)) r) ++ rest)
                       ltac:(lia) (op_not_bracket _ _) (op_passes_tighter _ _)).
      unfold good in IHl1. rewrite nth_level, from_level in IHl1. unfold kind_of in IHl1.
      rewrite Hna in IHl1.
      apply IHl1. eapply LL_step; [apply ops_of_find|exact Hr|exact HLL].
  - (* EUn *)
    intros u e IHe Hp. specialize (IHe Hp).
    apply own_to_min; [cbn [node_level]; unfold term_level; lia|].
    cbn [node_level body]. intros rest Hnb _. norm_toks.
    unfold good. change (nth_error doc_tiers term_level) with (@None tier).
    change (from term_level) with (@nil tier).
    apply PT_nil. apply PTm_un; [destruct u; reflexivity|]. apply (proj2 IHe).
  - (* EMux *)
    intros a IHa Hp. apply simple_to_min. intros m rest.
    change (toks_min m (EMux a)) with ([TOpenBracket] ++ toks_min_arms a ++ [TCloseBracket]).
    norm_toks. apply PS_mux'. apply IHa. exact Hp.
  - (* EWire *)
    intros n _. apply simple_to_min. intros m rest. cbn [toks_min map app].
    rewrite <- (string_of_bytes_of_string n) at 2. apply PS_id. reflexivity.
  - (* ESlice *)
    intros e IHe lo hi (Hp & Hlo & Hhi). specialize (IHe Hp).
    apply own_to_min; [cbn [node_level]; unfold term_level; lia|].
    cbn [node_level body]. intros rest Hnb _. norm_toks.
    unfold good. change (nth_error doc_tiers term_level) with (@None tier).
    change (from term_level) with (@nil tier).
    apply PT_nil. apply PTm_slice'; [exact Hlo|exact Hhi|]. apply (proj2 IHe).
  - (* ECat *)
    intros l IHl r IHr [Hpl Hpr]. specialize (IHl Hpl). specialize (IHr Hpr).
    apply simple_to_min. intros m rest.
    change (toks_min m (ECat l r))
      with ([TOpenParen] ++ toks_min 0 l ++ [TDotDot] ++ toks_min 0 r ++ [TCloseParen]).
    norm_toks. eapply PS_cat'.
    + apply min_top; [exact IHl|reflexivity].
    + apply min_top; [exact IHr|reflexivity].
  - (* EIn *)
    intros e IHe xs IHxs [Hp Hpx]. specialize (IHe Hp). specialize (IHxs Hpx).
    apply own_to_min; [cbn [node_level]; unfold in_level; lia|].
    cbn [node_level body]. intros rest Hnb _. norm_toks.
    unfold good. change (nth_error doc_tiers in_level) with (Some (KIn, @nil binop)).
    change (from in_level) with ((KIn, @nil binop) :: from (S in_level)).
    intros _. eapply PT_in'.
    + apply min_b; [exact IHe|unfold in_level; lia|reflexivity|reflexivity].
    + apply IHxs.
  - (* ANil *)
    intros _ rest. cbn [toks_min_arms map app]. apply PM_nil. reflexivity.
  - (* ACons *)
    intros c IHc v IHv a IHa (Hpc & Hpv & Hpa) rest.
    change (toks_min_arms (ACons c v a))
      with (toks_min 0 c ++ [TColon] ++ toks_min 0 v ++ [TSemicolon] ++ toks_min_arms a).
    norm_toks. eapply PM_cons'.
    + apply min_top; [exact (IHc Hpc)|reflexivity].
    + apply min_top; [exact (IHv Hpv)|reflexivity].
    + apply IHa. exact Hpa.
  - (* XNil *)
    intros _ rest. cbn [toks_min_items map app]. apply PC_nil. reflexivity.
  - (* XCons *)
    intros e IHe xs IHxs [Hpe Hpx] rest.
    change (toks_min_items (XCons e xs)) with (toks_min 0 e ++ [TComma] ++ toks_min_items xs).
    norm_toks. eapply PC_cons'.
    + apply min_top; [exact (IHe Hpe)|reflexivity].
    + apply IHxs. exact Hpx.
Qed.

Theorem roundtrip_min_ok : stmt_roundtrip_min.
Proof.
  intros e Hp rest Hst. destruct (stops_passes rest Hst) as [Hpass Hnb].
  unfold parse_expr. apply PT_all_fuel.
  rewrite <- from_0 at 2. apply min_b; [|lia|exact Hnb|exact Hpass].
  apply (proj1 min_ok). exact Hp.
Qed.

Print Assumptions roundtrip_full_ok.
Print Assumptions lex_decimal_ok.
Print Assumptions lex_hex_ok.
Print Assumptions lex_binary_ok.
Print Assumptions roundtrip_min_ok.
