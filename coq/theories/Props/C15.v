(* C15 - loading a .yo listing puts exactly the listed bytes at the listed addresses.
   Property theorems only; proofs live in YoProofs.v. *)
From HclV Require Import Base Expr Machine Yo YoSpec YoProofs.
From HclV Require YoCodecSpec YoCodecProofs.
Open Scope N_scope.

(* a well-formed data line '0xAAA: <2k hex digits, either case> ... |...' loads exactly its k
   bytes at AAA, AAA+1, ... *)
Theorem C15_data_line :
  forall m ad bd filler rest,
    data_line_ok ad bd filler rest ->
    load_line m (data_line ad bd filler rest) = Some (put_bytes m (hex_value ad 0) (pair_values bd)).
Proof. exact load_data_line_ok. Qed.
Print Assumptions C15_data_line.

(* comment-only lines and lines without '|' contribute nothing *)
Theorem C15_ignored_lines :
  forall m l, (starts_with comment_prefix l = true \/ has_pipe l = false) -> load_line m l = Some m.
Proof. exact ignored_lines_ok. Qed.
Print Assumptions C15_ignored_lines.

(* every other line is refused: short lines, odd digit counts, non-hex or non-ASCII characters
   in a data position, '+' signs ... *)
Theorem C15_refuses_everything_else :
  forall m l m',
    load_line m l = Some m' ->
    (exists ad bd filler rest,
        l = data_line ad bd filler rest /\ List.length ad = 3%nat /\ forallb is_hex ad = true /\
        forallb is_hex bd = true /\ Nat.even (List.length bd) = true /\
        (List.length bd + List.length filler = 20)%nat /\ (filler = [] \/ exists t, filler = 32 :: t) /\
        m' = put_bytes m (hex_value ad 0) (pair_values bd)) \/
    (m' = m /\ (starts_with comment_prefix l = true \/ has_pipe l = false)).
Proof. exact accepts_only_ok. Qed.
Print Assumptions C15_refuses_everything_else.

(* a file: refused iff empty or containing a refused line; otherwise the effect of its lines in
   order - later lines win on overlap - and nothing else *)
Theorem C15_file :
  forall m data,
    load_from_y86 m data =
    match split_lines data [] with
    | [] => err1 EmptyFile []
    | lines => match apply_lines m lines with
               | Some m' => Ok m'
               | None => err1 UnparseableLine []
               end
    end.
Proof. exact load_file_ok. Qed.
Print Assumptions C15_file.

(* what 'exactly those bytes' means for the memory map *)
Theorem C15_bytes_land_at_consecutive_addresses :
  forall bs m a x,
    mem_get (put_bytes m a bs) x =
    (if (a <=? x) && (x <? a + N.of_nat (List.length bs))
     then Some (nth (N.to_nat (x - a)) bs 0) else mem_get m x).
Proof. exact put_bytes_get_ok. Qed.
Print Assumptions C15_bytes_land_at_consecutive_addresses.

(* the loader is total by construction: load_line returns an option, load_from_y86 a result;
   every slice is the checked get_range *)
Example C15_corner_cases :
  load_from_y86 [] [] = err1 EmptyFile [] /\
  load_from_y86 [] [48; 120] = Ok [] /\                                 (* "0x": no pipe, ignored *)
  load_from_y86 [] [48; 120; 48; 48; 48; 58; 32; 48; 48; 32; 124] = err1 UnparseableLine [] /\
  load_line [] (data_line [48; 49; 97] [51; 48; 70; 50] (repeat 32 16) [32; 120]) = Some [(26, 48); (27, 242)].
Proof. vm_compute. repeat split; reflexivity. Qed.

(* ---- the loader as a codec (YoCodecSpec.v / YoCodecProofs.v) ---------------------------------- *)
(* a listing written for a memory (lines at every gap and every 10 bytes; lower or upper case
   digits; LF or CR LF; with or without the final line end) loads to exactly that memory *)
Theorem C15_printed_listing_loads_back : YoCodecSpec.stmt_load_print /\ YoCodecSpec.stmt_load_print_styles /\ YoCodecSpec.stmt_load_print_unterminated.
Proof. split; [exact YoCodecProofs.load_print_holds | split; [exact YoCodecProofs.load_print_styles_holds | exact YoCodecProofs.load_print_unterminated_holds]]. Qed.
Print Assumptions C15_printed_listing_loads_back.
(* any accepted file: each byte is what the LAST line covering its address gives it, nothing else *)
Theorem C15_loaded_memory_is_a_function_of_the_lines : YoCodecSpec.stmt_load_is_a_function_of_bytes.
Proof. exact YoCodecProofs.load_is_a_function_of_bytes_holds. Qed.
Print Assumptions C15_loaded_memory_is_a_function_of_the_lines.
(* exactly which memories are images of some listing (three-digit address field) *)
Theorem C15_images_of_listings : YoCodecSpec.stmt_listing_images.
Proof. exact YoCodecProofs.listing_images_holds. Qed.
Print Assumptions C15_images_of_listings.
(* observation: a line with a four-digit address field is refused (not misread) *)
Theorem C15_four_digit_address_is_refused : YoCodecSpec.stmt_four_digit_address_refused.
Proof. exact YoCodecProofs.four_digit_address_refused_holds. Qed.
Print Assumptions C15_four_digit_address_is_refused.
(* C15 + C16: a listing, loaded, dumped and read back gives the listed bytes at the listed addresses *)
Theorem C15_load_dump_read_back : YoCodecSpec.stmt_load_dump_roundtrip /\ YoCodecSpec.stmt_file_dump_roundtrip.
Proof. split; [exact YoCodecProofs.load_dump_roundtrip_holds | exact YoCodecProofs.file_dump_roundtrip_holds]. Qed.
Print Assumptions C15_load_dump_read_back.
