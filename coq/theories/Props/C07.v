(* C07 - a program that passes checking never fails or misbehaves at run time.
   Expression level: type soundness of the checker with respect to the evaluator. *)
From HclV Require FrontSpec FrontWfSpec FrontWfProofs.
From HclV Require TextLevelSpec TextLevelProofs.
From HclV Require Import Base Expr ExprSpec ExprLemmas ExprProofs Machine MachineSpec SchedSpec SchedProofs Build BuildSpec Generated BuildProofs.
Open Scope N_scope.

(* an accepted expression never raises a width or undeclared-wire error: it yields a value of
   exactly the static width that fits in it, or the explicit division-by-zero report *)
Theorem C07_eval_sound :
  forall f G C rho e w,
    wf_expr e -> env_ok G rho -> check f G C e = Ok w ->
    match eval f rho e with
    | Ok v => wd v = w /\ bits v < 2 ^ nbits w
    | Err es => div_zero_only es
    end.
Proof. exact eval_sound. Qed.
Print Assumptions C07_eval_sound.

(* the two implementations of the width discipline agree on every accepted expression *)
Theorem C07_static_dynamic_agree :
  forall f G C rho e w,
    wf_expr e -> env_ok G rho -> check f G C e = Ok w ->
    dynw f rho e = w /\ sw f G e = w /\ wf_width w.
Proof. exact check_width. Qed.
Print Assumptions C07_static_dynamic_agree.

(* what is stored fits the declared width *)
Theorem C07_stored_value_fits :
  forall dw v, wf_width dw ->
    bits (as_width dw v) = bits v mod 2 ^ nbits dw /\ wd (as_width dw v) = dw.
Proof. exact assign_truncates. Qed.
Print Assumptions C07_stored_value_fits.

(* ---- machine level: a well-typed compiled program never fails -------------------------------- *)
(* program_ok: every action is typed by the width environment G (assignments by the checker),
   the schedule is valid, the banks are well formed; state_ok: every start wire has a value,
   every value has exactly its declared width and fits, 16 registers below 2^64, memory well
   formed.  (BuildProofs.v shows that accepted programs satisfy program_ok.) *)

(* one cycle: a well-typed state again, or the explicit division-by-zero report - never a panic
   (no failing unwrap, assert or slice), a width error or an undeclared wire; in particular every
   wire holds a value that fits its declared width in every cycle; the debug table (-d) and the
   option-guarded output never fail either *)
Theorem C07_step_safe :
  forall f o G p s,
    program_ok f G p -> state_ok G p s ->
    match step f o p s with
    | Ok (s', _) => state_ok G p s'
    | Err es => div_zero_only es
    end.
Proof. exact step_safe_ok. Qed.
Print Assumptions C07_step_safe.

Theorem C07_initial_state :
  forall f G p, program_ok f G p -> exists s, initial_state p = Ok s /\ state_ok G p s.
Proof. exact initial_state_safe_ok. Qed.
Print Assumptions C07_initial_state.

(* any number of cycles from any well-typed state - hence on any memory image, which only has to
   satisfy the memory invariant - including the state dumps printed between cycles *)
Theorem C07_run_safe :
  forall fuel f o G p s,
    program_ok f G p -> state_ok G p s ->
    (N.to_nat (o_timeout o - cycle s) <= fuel)%nat ->
    match run fuel f o p s with
    | Ok (s', _) => state_ok G p s'
    | Err es => div_zero_only es
    end.
Proof. exact run_safe_ok. Qed.
Print Assumptions C07_run_safe.

(* ---- end to end: accepted => never fails ------------------------------------------------------ *)
(* every program Program::new accepts (model: Build.build_program with the built-in table of the
   compiled implementation, any feature set, any hash order of the sorter) is well typed in the
   sense above: some width environment G makes it program_ok.  Together with C07_initial_state and
   C07_run_safe: an accepted program, run for any number of cycles on any image, never aborts with
   a width or undeclared-wire error and never panics; every wire always fits its declared width.
   (wf_stmt: what the grammar guarantees - literal widths, declared widths and slice bounds <= 128.) *)
Theorem C07_accepted_programs_are_well_typed :
  forall f is_lower is_upper stmts p,
    Forall wf_stmt stmts ->
    build_program f gen_fixed is_lower is_upper stmts = Ok p ->
    exists G, program_ok f G p.
Proof.
  intros f il iu stmts p Hwf Hb.
  exact (accept_program_ok_gen f il iu gen_fixed_ok gen_fixed_widths_ok stmts p Hwf Hb).
Qed.
Print Assumptions C07_accepted_programs_are_well_typed.

(* ---- from program TEXT (FrontWfSpec.v / FrontWfProofs.v): the hypothesis "grammar-well-formed
   statements" of the theorems above is what lexer and parser guarantee, so the property holds of
   every text the front end accepts -------------------------------------------------------------- *)
(* every statement the model front end produces from a (valid UTF-8) text is well formed: literals
   fit their widths; literal, declared and slice widths are at most 128 *)
Theorem C07_front_end_statements_are_well_formed :
  FrontSpec.stmt_parse_wf /\ FrontWfSpec.stmt_lex_tokens_wf_utf8 /\ FrontWfSpec.stmt_text_stmts_wf /\
  FrontWfSpec.stmt_parse_text_sp_wf.
Proof.
  split; [exact FrontWfProofs.parse_wf_holds |].
  split; [exact FrontWfProofs.lex_tokens_wf_utf8_holds |].
  split; [exact FrontWfProofs.text_stmts_wf_holds | exact FrontWfProofs.parse_text_sp_wf_holds].
Qed.
Print Assumptions C07_front_end_statements_are_well_formed.
(* ANY text that lexer, parser and program builder accept - whatever the options, the Unicode
   classification and the hash order - is a well-typed program; its initial state exists; every
   state reachable by loading an image and stepping is well typed; step and run never fail except
   by a division by zero (never a panic of the Rust code, never out of fuel) *)
Theorem C07_any_accepted_text_runs_safely : FrontWfSpec.stmt_text_accepted_program_ok_and_runs.
Proof. exact FrontWfProofs.text_accepted_program_ok_and_runs_holds. Qed.
Print Assumptions C07_any_accepted_text_runs_safely.
Theorem C07_any_accepted_text_is_well_typed : FrontWfSpec.stmt_text_to_program_ok_utf8.
Proof. exact FrontWfProofs.text_to_program_ok_utf8_holds. Qed.
Print Assumptions C07_any_accepted_text_is_well_typed.
(* the first drafts, for arbitrary BYTES, are false of the model: its decoder accepts over-long
   UTF-8 (C0 B0 read as '0'), which no Rust &str can contain *)
Theorem C07_drafts_for_arbitrary_bytes_refuted :
  ~ FrontSpec.stmt_lex_tokens_wf /\ ~ FrontSpec.stmt_text_to_program_ok.
Proof. split; [exact FrontWfProofs.lex_tokens_wf_refuted | exact FrontWfProofs.text_to_program_ok_refuted]. Qed.
Print Assumptions C07_drafts_for_arbitrary_bytes_refuted.

(* ---- END TO END, from the program TEXT (TextLevelSpec.v / TextLevelProofs.v): the user's file (valid
   UTF-8) after the compiled preamble, lexed with any Unicode classification, parsed with the compiled
   tier table, built with the compiled component table; states = those reachable by loading an
   image and stepping.  No hypothesis a user cannot check by reading the file. ------------------- *)
Theorem C07_text_level : TextLevelSpec.stmt_text_statements_wf /\ TextLevelSpec.stmt_text_never_misbehaves.
Proof. split; [exact TextLevelProofs.text_statements_wf_holds | exact TextLevelProofs.text_never_misbehaves_holds]. Qed.
Print Assumptions C07_text_level.
