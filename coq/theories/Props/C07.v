(* C07 - a program that passes checking never fails or misbehaves at run time.
   Expression level: type soundness of the checker with respect to the evaluator. *)
From HclV Require Import Base Expr ExprSpec ExprLemmas ExprProofs.
Open Scope N_scope.

(* an accepted expression never raises a width or undeclared-wire error: it yields a value of
   exactly the static width that fits in it, or the explicit division-by-zero report *)
Theorem C07_eval_sound :
  forall f G C rho e w,
    wf_expr e -> env_ok G rho -> check f G C e = Ok w ->
    match eval f rho e with
    | Ok v => wd v = w /\ bits v < 2 ^ nbits w
    | Err es => div_zero_only es
    end.
Proof. exact eval_sound. Qed.
Print Assumptions C07_eval_sound.

(* the two implementations of the width discipline agree on every accepted expression *)
Theorem C07_static_dynamic_agree :
  forall f G C rho e w,
    wf_expr e -> env_ok G rho -> check f G C e = Ok w ->
    dynw f rho e = w /\ sw f G e = w /\ wf_width w.
Proof. exact check_width. Qed.
Print Assumptions C07_static_dynamic_agree.

(* what is stored fits the declared width *)
Theorem C07_stored_value_fits :
  forall dw v, wf_width dw ->
    bits (as_width dw v) = bits v mod 2 ^ nbits dw /\ wd (as_width dw v) = dw.
Proof. exact assign_truncates. Qed.
Print Assumptions C07_stored_value_fits.
