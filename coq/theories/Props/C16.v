(* C16 - the state dump shows the true machine state, completely and parseably.
   Property theorems only; proofs live in DumpProofs.v. *)
From Coq Require Import Permutation.
From HclV Require Import Base Expr Disasm DisasmProofs Machine MemSpec DumpSpec DumpProofs TableSpec TableProofs DumpParse DumpParseSpec DumpParseProofs.
Open Scope string_scope.
Open Scope N_scope.

(* the memory section is exactly the header followed by one row per 16-byte row that contains a
   used byte, ascending; in a row every used byte stands at its own column, unused cells are
   blank, the label is the row address: sparse sets, unaligned first address, rows far apart,
   the top of the address space *)
Theorem C16_memory_rows :
  forall m, wf_mem m -> dump_memory m = mem_header ++ concat_strings (map (render_row m) (rows_of m None)).
Proof. exact dump_memory_rows_ok. Qed.
Print Assumptions C16_memory_rows.

(* every used byte is in a shown row; every shown row contains a used byte *)
Theorem C16_rows_cover_exactly_the_used_bytes :
  forall m a, wf_mem m ->
    (mem_get m a <> None <-> In (row_of a) (rows_of m None) /\ mem_get m a <> None) /\
    (forall row, In row (rows_of m None) -> exists a v, mem_get m a = Some v /\ row_of a = row).
Proof. exact rows_cover_used_ok. Qed.
Print Assumptions C16_rows_cover_exactly_the_used_bytes.

(* hexadecimal fields denote the value (registers, bank registers, memory cells, table values) *)
Theorem C16_hex_denotes_value : forall n, unhex (hex n) = Some n.
Proof. exact hex_roundtrip_ok. Qed.
Print Assumptions C16_hex_denotes_value.

Theorem C16_hex_fits_field : forall n w, 0 < w -> n < 2 ^ (4 * w) -> slen (hex n) <= w.
Proof. exact hex_length_ok. Qed.
Print Assumptions C16_hex_fits_field.

(* every line of the memory section and of a register bank - wrapped or not, whatever the number,
   widths and name lengths of its registers - is delimited '| ... |' *)
Theorem C16_memory_lines_delimited :
  forall m, wf_mem m -> forallb delimited (split_nl (dump_memory m) EmptyString) = true.
Proof. exact memory_lines_delimited_ok. Qed.
Print Assumptions C16_memory_lines_delimited.

Theorem C16_bank_lines_delimited :
  forall vals b text,
    (forall i o w, In (i, o, w) (b_signals b) -> forallb (fun c => negb (N_of_ascii c =? 10)) (list_ascii_of_string i) = true) ->
    forallb (fun c => negb (N_of_ascii c =? 10)) (list_ascii_of_string (b_label b)) = true ->
    dump_bank vals b = Ok text ->
    forallb delimited (split_nl text EmptyString) = true.
Proof. exact bank_lines_delimited_ok. Qed.
Print Assumptions C16_bank_lines_delimited.

Example C16_unaligned_first_address_is_labelled :
  dump_memory [(3, 0xAA); (2 ^ 64 - 1, 7)] =
  mem_header ++
  "|  0x0000000_:            aa                                            |" ++ nl ++
  "|  0xfffffffffffffff_:                                                    07    |" ++ nl.
Proof. vm_compute. reflexivity. Qed.

(* ---- every register of every declared register bank (TableSpec.v / TableProofs.v) ----------- *)

(* the register-bank section is the dump of EVERY declared bank, each exactly once: banks of
   letter P, F, D, E, M, W first, then the other letters in byte order, declaration order kept
   among banks sharing a letter (proving this for the pinned code failed: a bank sharing its
   output letter with a later one was missing - repaired, see known_findings.txt) *)
Theorem C16_every_bank_is_listed_once :
  forall vals banks text,
    dump_custom_registers vals banks = Ok text ->
    exists order, canonical_bank_order banks order /\ Permutation order banks /\
                  dump_bank_list vals order = Ok text.
Proof. exact bank_dump_lists_every_bank_ok_holds. Qed.
Print Assumptions C16_every_bank_is_listed_once.

Theorem C16_bank_section_is_concatenation : stmt_dump_bank_list_concat.
Proof. exact dump_bank_list_concat_holds. Qed.
Print Assumptions C16_bank_section_is_concatenation.

Theorem C16_canonical_bank_order_exists_uniquely : stmt_canonical_bank_order_unique.
Proof. exact canonical_bank_order_unique_holds. Qed.
Print Assumptions C16_canonical_bank_order_exists_uniquely.

(* the section fails only when some declared bank cannot be dumped *)
Theorem C16_bank_section_fails_iff : stmt_bank_dump_fails_iff.
Proof. exact bank_dump_fails_iff_holds. Qed.
Print Assumptions C16_bank_section_fails_iff.

(* ---- "so the dump can be read back into exactly that state" (DumpParse.v: a reader written the
   way a script would - split lines, check the '| ' .. ' |' delimiters, split fields, unhex - that
   never mentions the printer; DumpParseSpec.v / DumpParseProofs.v) ------------------------------ *)

(* the memory section reads back to exactly the memory, for every well-formed memory *)
Theorem C16_memory_reads_back :
  forall m, wf_mem m -> parse_memory_section (dump_memory m) = Some m.
Proof. exact memory_readback_holds. Qed.
Print Assumptions C16_memory_reads_back.

(* hence two different memories never print the same text *)
Theorem C16_memory_dump_injective : stmt_memory_dump_injective.
Proof. exact memory_dump_injective_holds. Qed.
Print Assumptions C16_memory_dump_injective.

(* the fifteen program registers read back *)
Theorem C16_registers_read_back : stmt_registers_readback.
Proof. exact registers_readback_holds. Qed.
Print Assumptions C16_registers_read_back.

(* a bank line (wrapped over any number of lines) reads back to the bank's label, its
   normal/stalled/bubbled state and every register with its value, for identifier-like names *)
Theorem C16_bank_reads_back : stmt_bank_readback.
Proof. exact bank_readback_holds. Qed.
Print Assumptions C16_bank_reads_back.
(* the condition on names is needed: a register named "x=0 y" prints like two registers *)
Theorem C16_bank_readback_needs_plain_names : ~ stmt_bank_readback_unconditional.
Proof. exact bank_readback_unconditional_refuted. Qed.
Print Assumptions C16_bank_readback_needs_plain_names.

(* the whole dump, under every heading (running / halted / error / timed out), with or without
   banks: registers, EVERY declared bank exactly once (canonical order), memory *)
Theorem C16_whole_dump_reads_back : stmt_dump_readback.
Proof. exact dump_readback_holds. Qed.
Print Assumptions C16_whole_dump_reads_back.
Theorem C16_whole_dump_reads_back_every_bank : stmt_dump_readback_perm.
Proof. exact dump_readback_perm_holds. Qed.
Print Assumptions C16_whole_dump_reads_back_every_bank.
