(* C16 - the state dump shows the true machine state, completely and parseably.
   Property theorems only; proofs live in DumpProofs.v. *)
From HclV Require Import Base Expr Disasm DisasmProofs Machine MemSpec DumpSpec DumpProofs.
Open Scope string_scope.
Open Scope N_scope.

(* the memory section is exactly the header followed by one row per 16-byte row that contains a
   used byte, ascending; in a row every used byte stands at its own column, unused cells are
   blank, the label is the row address: sparse sets, unaligned first address, rows far apart,
   the top of the address space *)
Theorem C16_memory_rows :
  forall m, wf_mem m -> dump_memory m = mem_header ++ concat_strings (map (render_row m) (rows_of m None)).
Proof. exact dump_memory_rows_ok. Qed.
Print Assumptions C16_memory_rows.

(* every used byte is in a shown row; every shown row contains a used byte *)
Theorem C16_rows_cover_exactly_the_used_bytes :
  forall m a, wf_mem m ->
    (mem_get m a <> None <-> In (row_of a) (rows_of m None) /\ mem_get m a <> None) /\
    (forall row, In row (rows_of m None) -> exists a v, mem_get m a = Some v /\ row_of a = row).
Proof. exact rows_cover_used_ok. Qed.
Print Assumptions C16_rows_cover_exactly_the_used_bytes.

(* hexadecimal fields denote the value (registers, bank registers, memory cells, table values) *)
Theorem C16_hex_denotes_value : forall n, unhex (hex n) = Some n.
Proof. exact hex_roundtrip_ok. Qed.
Print Assumptions C16_hex_denotes_value.

Theorem C16_hex_fits_field : forall n w, 0 < w -> n < 2 ^ (4 * w) -> slen (hex n) <= w.
Proof. exact hex_length_ok. Qed.
Print Assumptions C16_hex_fits_field.

(* every line of the memory section and of a register bank - wrapped or not, whatever the number,
   widths and name lengths of its registers - is delimited '| ... |' *)
Theorem C16_memory_lines_delimited :
  forall m, wf_mem m -> forallb delimited (split_nl (dump_memory m) EmptyString) = true.
Proof. exact memory_lines_delimited_ok. Qed.
Print Assumptions C16_memory_lines_delimited.

Theorem C16_bank_lines_delimited :
  forall vals b text,
    (forall i o w, In (i, o, w) (b_signals b) -> forallb (fun c => negb (N_of_ascii c =? 10)) (list_ascii_of_string i) = true) ->
    forallb (fun c => negb (N_of_ascii c =? 10)) (list_ascii_of_string (b_label b)) = true ->
    dump_bank vals b = Ok text ->
    forallb delimited (split_nl text EmptyString) = true.
Proof. exact bank_lines_delimited_ok. Qed.
Print Assumptions C16_bank_lines_delimited.

Example C16_unaligned_first_address_is_labelled :
  dump_memory [(3, 0xAA); (2 ^ 64 - 1, 7)] =
  mem_header ++
  "|  0x0000000_:            aa                                            |" ++ nl ++
  "|  0xfffffffffffffff_:                                                    07    |" ++ nl.
Proof. vm_compute. reflexivity. Qed.
