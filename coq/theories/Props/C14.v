(* C14 - diagnostics point at the offending construct in the user's own file.
   Property theorems only; proofs live in RegionProofs.v. *)
From HclV Require SpanParserSpec SpanParserProofs DiagSpec DiagProofs SpanBuildSpec SpanBuildProofs ParseDiagSpec ParseDiagProofs FullDiagSpec FullDiagProofs ParseLocSpec ParseLocProofs Generated Build.
From HclV Require Import Base Yo Region RegionSpec RegionProofs RegionMultiSpec RegionMultiProofs.
From HclV Require LexLocSpec LexLocProofs.
Open Scope list_scope.
Open Scope N_scope.

(* a span [s, e) of the user's own text lying on one line is rendered with the user's file
   name, the 1-based line number counted in the user's text - whatever the preamble's length
   and line count -, that line's text (without LF, without the CR of a CRLF), and carets under
   exactly the span (column = bytes since the line start, count = e - s); any position: first
   or last line, with or without final newline, after CRLF lines or long preceding text *)
Theorem C14_locate_one_line :
  forall pre user fname s e,
    wf_text pre -> wf_text user ->
    (s <= e)%nat -> (e <= List.length user)%nat ->
    count_lf (firstn (e - s) (skipn s user)) = O ->
    skipn (s - col_of user s) user <> [] ->
    show_region (new_from_data pre user fname) (List.length pre + s) (List.length pre + e) =
    Some (one_line_region fname (line_no user s) (line_text user s) (col_of user s) (e - s)).
Proof. exact locate_one_line_ok. Qed.
Print Assumptions C14_locate_one_line.

(* faults in user code are never attributed to the preamble: a region whose offsets lie at or
   after the end of the preamble is headed by the user's file name *)
Theorem C14_never_preamble :
  forall pre user fname s e out,
    (List.length pre <= s)%nat -> (List.length pre <= e)%nat ->
    show_region (new_from_data pre user fname) s e = Some out ->
    exists rest, out = sp 5 ++ [45; 62; 32] ++ fname ++ [58] ++ rest.
Proof. exact never_preamble_partial. Qed.
Print Assumptions C14_never_preamble.

(* (the version without the hypothesis on e is false of the model: show_region clamps the start
   to the end, so a reversed span ending inside the preamble is attributed to <builtin>;
   no diagnostic of hclrs has end < start) *)
Theorem C14_never_preamble_needs_ordered_span : ~ stmt_never_preamble.
Proof. exact never_preamble_false. Qed.
Print Assumptions C14_never_preamble_needs_ordered_span.

Example C14_last_line_without_newline :
  show_region (new_from_data [10; 10] [102; 111; 111; 32; 61; 32; 49; 10; 98; 97; 114; 32; 61; 32; 50; 50] [70]) 10 18 =
  Some (one_line_region [70] 2 [98; 97; 114; 32; 61; 32; 50; 50] 0 8).
Proof. vm_compute. reflexivity. Qed.

(* ---- spans covering several lines (RegionMultiSpec.v / RegionMultiProofs.v) ----------------- *)

(* a span [s, e) of the user's text covering k+1 lines: header with the user's file name and the
   number of the line of s (counted in the user's text), then each of the k+1 lines with its number
   and text and a caret line - first line from the column of s to the end of the text, middle
   lines under the whole text, last line from column 0 to the column of e *)
Theorem C14_locate_several_lines :
  forall pre user fname s e,
    wf_text pre -> wf_text user ->
    (s <= e)%nat -> (e <= List.length user)%nat ->
    ~ on_final_empty_line user e ->
    show_region (new_from_data pre user fname) (List.length pre + s) (List.length pre + e) =
    Some (multi_line_region fname user s e).
Proof. exact locate_multi_line_holds. Qed.
Print Assumptions C14_locate_several_lines.

(* the remaining case (e at the very end of a text that is empty or ends with LF) *)
Theorem C14_locate_several_lines_at_end : stmt_locate_multi_line_at_end.
Proof. exact locate_multi_line_at_end_holds. Qed.
Print Assumptions C14_locate_several_lines_at_end.

(* the lines shown are consecutive, start with the line of s and end with the line of e *)
Theorem C14_lines_numbered_consecutively : stmt_span_lines_numbered.
Proof. exact span_lines_numbered_holds. Qed.
Print Assumptions C14_lines_numbered_consecutively.

(* the one-line theorem is the case k = 0 of the several-lines theorem *)
Theorem C14_one_line_is_special_case : stmt_locate_multi_line -> stmt_locate_one_line.
Proof. exact one_line_is_special_case_holds. Qed.
Print Assumptions C14_one_line_is_special_case.

(* observation (recorded in DESIGN.md): when a span ends just after an LF the following line is
   echoed too, with no caret; "only lines containing a byte of the span are echoed" is false of
   the model and of the code, and true whenever the last byte of the span is not an LF *)
Theorem C14_only_span_lines_echoed_refuted : ~ stmt_locate_multi_line_strict.
Proof. exact locate_multi_line_strict_refuted. Qed.
Print Assumptions C14_only_span_lines_echoed_refuted.
Theorem C14_only_span_lines_echoed_without_trailing_lf : stmt_locate_multi_line_strict_no_trailing_lf.
Proof. exact locate_multi_line_strict_no_trailing_lf_holds. Qed.
Print Assumptions C14_only_span_lines_echoed_without_trailing_lf.

(* never the preamble, for any span starting and ending at or after the preamble's end (offsets
   beyond the text are clamped): only lines of the user's text are echoed *)
Theorem C14_never_preamble_several_lines :
  forall pre user fname s e,
    wf_text pre -> wf_text user ->
    (List.length pre <= s)%nat -> (List.length pre <= e)%nat ->
    exists out, show_region (new_from_data pre user fname) s e = Some out /\
                shows_only_user_lines fname user out.
Proof. exact never_preamble_multi_partial_holds. Qed.
Print Assumptions C14_never_preamble_several_lines.

(* line_number_and_bounds names the 1-based line of the user's text and where it starts *)
Theorem C14_line_number_and_bounds : stmt_lnb_names_line.
Proof. exact lnb_names_line_holds. Qed.
Print Assumptions C14_line_number_and_bounds.

(* ---- lexical diagnostics end to end in the model (LexLocSpec.v / LexLocProofs.v): what the error
   offset means, and that the rendering names the user's file, the right line and column --------- *)
Theorem C14_lexical_error_offset_means_the_offending_text : LexLocSpec.stmt_lex_error_meaning.
Proof. exact LexLocProofs.lex_error_meaning_holds. Qed.
Print Assumptions C14_lexical_error_offset_means_the_offending_text.
Theorem C14_invalid_constant_span_is_the_literal : LexLocSpec.stmt_invalid_constant_bytes.
Proof. exact LexLocProofs.invalid_constant_bytes_holds. Qed.
Print Assumptions C14_invalid_constant_span_is_the_literal.
Theorem C14_unterminated_comment_points_at_its_opener : LexLocSpec.stmt_unterminated_comment_bytes.
Proof. exact LexLocProofs.unterminated_comment_bytes_holds. Qed.
Print Assumptions C14_unterminated_comment_points_at_its_opener.
(* after the compiled preamble, a lexical error of the user's text is rendered as the one-line
   region of its line in the user's file (never <builtin>), with 1 / 2 / literal-length carets *)
Theorem C14_lexical_diagnostic_located : LexLocSpec.stmt_lexical_diagnostic_located_gen.
Proof. exact LexLocProofs.lexical_diagnostic_located_gen_holds. Qed.
Print Assumptions C14_lexical_diagnostic_located.
Theorem C14_compiled_preamble_lexes : LexLocSpec.stmt_gen_preamble_ok.
Proof. exact LexLocProofs.gen_preamble_ok_holds. Qed.
Print Assumptions C14_compiled_preamble_lexes.

(* ---- the spans the parser attaches to the syntax tree (SpanParser*.v): every located diagnostic
   underlines the span of an AST node / declaration; the spanned model parser records them as the
   grammar actions of parser.lalrpop do (compared with the real parser on every run) ------------- *)
(* forgetting the spans gives the parser all other theorems are about *)
Theorem C14_spanned_parser_is_the_parser :
  SpanParserSpec.stmt_erase_parse_sp /\ SpanParserSpec.stmt_erase_parse_text_sp.
Proof.
  split; [exact SpanParserProofs.erase_parse_sp_holds | exact SpanParserProofs.erase_parse_text_sp_holds].
Qed.
Print Assumptions C14_spanned_parser_is_the_parser.
(* every recorded span starts where a token starts and ends where a token ends (no blanks or
   comments at its edges), is non-empty and lies inside the text; tokens are ordered *)
Theorem C14_spans_are_token_aligned :
  SpanParserSpec.stmt_spans_token_aligned /\ SpanParserSpec.stmt_lex_tokens_ordered /\
  SpanParserSpec.stmt_spans_in_text.
Proof.
  split; [exact SpanParserProofs.spans_token_aligned_holds |].
  split; [exact SpanParserProofs.lex_tokens_ordered_holds | exact SpanParserProofs.spans_in_text_holds].
Qed.
Print Assumptions C14_spans_are_token_aligned.
(* a child's span lies inside its parent's, every span of a statement inside that statement's
   stretch of tokens, and the statements' spans follow one another in text order *)
Theorem C14_spans_nested_and_ordered :
  SpanParserSpec.stmt_spans_nested /\ SpanParserSpec.stmt_statement_spans_disjoint.
Proof.
  split; [exact SpanParserProofs.spans_nested_holds | exact SpanParserProofs.statement_spans_disjoint_holds].
Qed.
Print Assumptions C14_spans_nested_and_ordered.
(* the span of an expression node is exactly the extent of that expression: the text between its
   ends, alone, lexes without blanks at its edges and parses to that very expression *)
Theorem C14_span_is_the_extent_of_the_construct :
  SpanParserSpec.stmt_span_is_extent_tokens /\ SpanParserSpec.stmt_span_is_extent.
Proof.
  split; [exact SpanParserProofs.span_is_extent_tokens_holds | exact SpanParserProofs.span_is_extent_holds].
Qed.
Print Assumptions C14_span_is_the_extent_of_the_construct.
(* "never attributed to the built-in preamble": every span of a statement of the user's file lies
   in the user's text, and a diagnostic underlining it names the user's file, the line counted in
   the user's text, and - on one line - echoes that line with carets under exactly the span *)
Theorem C14_user_spans_rendered_in_the_user_file :
  SpanParserSpec.stmt_user_spans_after_preamble /\ SpanParserSpec.stmt_preamble_statements_unchanged /\
  SpanParserSpec.stmt_user_span_rendered_in_user_file /\ SpanParserSpec.stmt_user_span_rendered_in_user_file_gen.
Proof.
  split; [exact SpanParserProofs.user_spans_after_preamble_holds |].
  split; [exact SpanParserProofs.preamble_statements_unchanged_holds |].
  split; [exact SpanParserProofs.user_span_rendered_in_user_file_holds |].
  exact SpanParserProofs.user_span_rendered_in_user_file_gen_holds.
Qed.
Print Assumptions C14_user_spans_rendered_in_the_user_file.

(* ---- which regions a diagnostic shows (Diag.v / DiagSpec.v / DiagProofs.v: the model of
   Error::format_for_contents) ---------------------------------------------------------------- *)
(* the rendered text is message lines alternating with the show_region blocks of exactly the
   spans of the error, in order (for a mux width error: the sized options, stably sorted by
   width); spans in the user's text on one line each are rendered with the user's file name, the
   line counted in the user's text, the echoed line and carets under exactly the span; no region
   of a span at or after the preamble's end is headed <builtin> *)
Theorem C14_diagnostic_shows_the_regions_of_its_spans :
  DiagSpec.stmt_render_regions /\ DiagSpec.stmt_error_spans_vs_hook /\ DiagSpec.stmt_mux_spans_sorted /\
  DiagSpec.stmt_mux_spans_in_order /\ DiagSpec.stmt_render_regions_located /\
  DiagSpec.stmt_render_regions_never_preamble.
Proof.
  split; [exact DiagProofs.render_regions_holds |].
  split; [exact DiagProofs.error_spans_vs_hook_holds |].
  split; [exact DiagProofs.mux_spans_sorted_holds |].
  split; [exact DiagProofs.mux_spans_in_order_holds |].
  split; [exact DiagProofs.render_regions_located_holds | exact DiagProofs.render_regions_never_preamble_holds].
Qed.
Print Assumptions C14_diagnostic_shows_the_regions_of_its_spans.

(* ---- the spans of the builder's and the checker's diagnostics (SpanBuild*.v): spanned versions of
   get_width_and_check / evaluate (check_sp, eval_sp) and of Program::new (build_program_sp) that
   report every diagnostic WITH the spans the real code attaches (compared with the real program's
   on every run) ------------------------------------------------------------------------------- *)
(* forgetting the spans gives exactly Expr.check / Expr.eval / Build.build_program: same acceptance,
   same compiled program, same diagnostics in the same order - every theorem about them transfers *)
Theorem C14_spanned_builder_is_the_builder :
  SpanBuildSpec.stmt_check_sp_erases /\ SpanBuildSpec.stmt_eval_sp_erases /\
  SpanBuildSpec.stmt_build_sp_erases /\ SpanBuildSpec.stmt_front_sp_erases.
Proof.
  split; [exact SpanBuildProofs.check_sp_erases_holds |].
  split; [exact SpanBuildProofs.eval_sp_erases_holds |].
  split; [exact SpanBuildProofs.build_sp_erases_holds | exact SpanBuildProofs.front_sp_erases_holds].
Qed.
Print Assumptions C14_spanned_builder_is_the_builder.
(* expression-level diagnostics underline a node of the expression being checked, and which one:
   the non-boolean operand of && / ||, both operands of a width mismatch, the whole mux (default
   option faults) or all option values (width fault), the undeclared name itself, the whole slice,
   the whole concatenation / its operand without width *)
Theorem C14_expression_diagnostics_underline_the_offending_node :
  SpanBuildSpec.stmt_check_sp_faults /\ SpanBuildSpec.stmt_eval_sp_faults /\
  SpanBuildSpec.stmt_check_spans_are_node_spans /\ SpanBuildSpec.stmt_eval_spans_are_node_spans /\
  SpanBuildSpec.stmt_check_span_of_NonBooleanWidth /\ SpanBuildSpec.stmt_check_span_of_MismatchedExprWidths /\
  SpanBuildSpec.stmt_check_span_of_mux_kinds /\ SpanBuildSpec.stmt_check_span_of_UndeclaredWireRead /\
  SpanBuildSpec.stmt_check_span_of_bit_index_kinds /\ SpanBuildSpec.stmt_check_span_of_concat_kinds.
Proof.
  split; [exact SpanBuildProofs.check_sp_faults_holds |].
  split; [exact SpanBuildProofs.eval_sp_faults_holds |].
  split; [exact SpanBuildProofs.check_spans_are_node_spans_holds |].
  split; [exact SpanBuildProofs.eval_spans_are_node_spans_holds |].
  split; [exact SpanBuildProofs.check_span_of_NonBooleanWidth_holds |].
  split; [exact SpanBuildProofs.check_span_of_MismatchedExprWidths_holds |].
  split; [exact SpanBuildProofs.check_span_of_mux_kinds_holds |].
  split; [exact SpanBuildProofs.check_span_of_UndeclaredWireRead_holds |].
  split; [exact SpanBuildProofs.check_span_of_bit_index_kinds_holds | exact SpanBuildProofs.check_span_of_concat_kinds_holds].
Qed.
Print Assumptions C14_expression_diagnostics_underline_the_offending_node.
(* every span of every diagnostic of Program::new is a span the parser recorded in the statements
   (no placeholder), and kind by kind it is the offending construct: the (re)declaration(s) of the
   name, the occurrences of the name left of '=', the register / bank declaration, the expression
   assigned to the wire, the default expression, the named-wire node ...; the remaining kinds show
   no location - for every option set, component table and letter classification *)
Theorem C14_builder_diagnostics_underline_the_offending_construct :
  forall f fixed is_lower is_upper,
    SpanBuildSpec.stmt_error_spans_are_recorded_spans f fixed is_lower is_upper /\
    SpanBuildSpec.stmt_span_of_RedeclaredWire f fixed is_lower is_upper /\
    SpanBuildSpec.stmt_span_of_RedeclaredBuiltinWire f fixed is_lower is_upper /\
    SpanBuildSpec.stmt_span_of_DoubleAssignedWire f fixed is_lower is_upper /\
    SpanBuildSpec.stmt_span_of_DoubleAssignedFixedOutWire f fixed is_lower is_upper /\
    SpanBuildSpec.stmt_span_of_ConstantAssigned f fixed is_lower is_upper /\
    SpanBuildSpec.stmt_span_of_NonConstantWireRead f fixed is_lower is_upper /\
    SpanBuildSpec.stmt_span_of_UndeclaredWireRead f fixed is_lower is_upper /\
    SpanBuildSpec.stmt_span_of_InvalidRegisterBankName f fixed is_lower is_upper /\
    SpanBuildSpec.stmt_span_of_DoubleAssignedRegisterWire f fixed is_lower is_upper /\
    SpanBuildSpec.stmt_span_of_DoubleDeclaredRegisterOutWire f fixed is_lower is_upper /\
    SpanBuildSpec.stmt_span_of_MismatchedRegisterDefaultWidths f fixed is_lower is_upper /\
    SpanBuildSpec.stmt_span_of_UnsetWire f fixed is_lower is_upper /\
    SpanBuildSpec.stmt_span_of_UnsetRegisterInputWire f fixed is_lower is_upper /\
    SpanBuildSpec.stmt_span_of_UndeclaredWireAssigned f fixed is_lower is_upper /\
    SpanBuildSpec.stmt_span_of_MismatchedWireWidths f fixed is_lower is_upper /\
    SpanBuildSpec.stmt_span_of_expression_kinds f fixed is_lower is_upper /\
    SpanBuildSpec.stmt_unlocated_kinds f fixed is_lower is_upper.
Proof.
  intros f fixed il iu.
  split; [exact (SpanBuildProofs.error_spans_are_recorded_spans_holds f fixed il iu) |].
  split; [exact (SpanBuildProofs.span_of_RedeclaredWire_holds f fixed il iu) |].
  split; [exact (SpanBuildProofs.span_of_RedeclaredBuiltinWire_holds f fixed il iu) |].
  split; [exact (SpanBuildProofs.span_of_DoubleAssignedWire_holds f fixed il iu) |].
  split; [exact (SpanBuildProofs.span_of_DoubleAssignedFixedOutWire_holds f fixed il iu) |].
  split; [exact (SpanBuildProofs.span_of_ConstantAssigned_holds f fixed il iu) |].
  split; [exact (SpanBuildProofs.span_of_NonConstantWireRead_holds f fixed il iu) |].
  split; [exact (SpanBuildProofs.span_of_UndeclaredWireRead_holds f fixed il iu) |].
  split; [exact (SpanBuildProofs.span_of_InvalidRegisterBankName_holds f fixed il iu) |].
  split; [exact (SpanBuildProofs.span_of_DoubleAssignedRegisterWire_holds f fixed il iu) |].
  split; [exact (SpanBuildProofs.span_of_DoubleDeclaredRegisterOutWire_holds f fixed il iu) |].
  split; [exact (SpanBuildProofs.span_of_MismatchedRegisterDefaultWidths_holds f fixed il iu) |].
  split; [exact (SpanBuildProofs.span_of_UnsetWire_holds f fixed il iu) |].
  split; [exact (SpanBuildProofs.span_of_UnsetRegisterInputWire_holds f fixed il iu) |].
  split; [exact (SpanBuildProofs.span_of_UndeclaredWireAssigned_holds f fixed il iu) |].
  split; [exact (SpanBuildProofs.span_of_MismatchedWireWidths_holds f fixed il iu) |].
  split; [exact (SpanBuildProofs.span_of_expression_kinds_holds f fixed il iu) |].
  exact (SpanBuildProofs.unlocated_kinds_holds f fixed il iu).
Qed.
Print Assumptions C14_builder_diagnostics_underline_the_offending_construct.
(* "never attributed to the built-in preamble": for the compiled preamble followed by the user's
   text, every span of every diagnostic is token-aligned, inside the text and rendered in the user's
   file on the right line with carets under exactly the span - except the SECOND span of
   "redeclared" / "constant assigned" about a preamble name, which legitimately shows the preamble's
   declaration ("after being declared here", headed <builtin>); the draft without the exception is
   refuted by 'const HALT = 3;' *)
Theorem C14_user_faults_are_located_in_the_user_file :
  SpanBuildSpec.stmt_build_diagnostics_located /\ SpanBuildSpec.stmt_build_diagnostics_in_user_file /\
  (forall f fixed is_lower is_upper, SpanBuildSpec.stmt_user_faults_not_attributed_to_preamble f fixed is_lower is_upper) /\
  ~ SpanBuildSpec.stmt_user_faults_never_show_preamble Generated.gen_features Generated.gen_fixed Build.ascii_lower Build.ascii_upper.
Proof.
  split; [exact SpanBuildProofs.build_diagnostics_located_holds |].
  split; [exact SpanBuildProofs.build_diagnostics_in_user_file_holds |].
  split; [exact SpanBuildProofs.user_faults_not_attributed_to_preamble_holds |].
  exact SpanBuildProofs.user_faults_never_show_preamble_refuted.
Qed.
Print Assumptions C14_user_faults_are_located_in_the_user_file.

(* ---- the grammar's own diagnostic productions (ParseDiag*.v): 'wire x', 'wire x : 8 = 1',
   'const K : 8 = 1', 'x [ ... ]' without '=', register declarations without width / with 'wire',
   a bare expression as a statement, width and bit-index constants above 128 ------------------- *)
(* the extension is conservative: a text yields no diagnostic exactly when the spanned parser
   accepts it, with the same statements *)
Theorem C14_grammar_diagnostics_conservative :
  ParseDiagSpec.stmt_diag_conservative /\ ParseDiagSpec.stmt_diag_conservative_text /\
  ParseDiagSpec.stmt_diag_none_iff_accepted /\ ParseDiagSpec.stmt_diag_outcome_ok.
Proof.
  split; [exact ParseDiagProofs.diag_conservative_holds |].
  split; [exact ParseDiagProofs.diag_conservative_text_holds |].
  split; [exact ParseDiagProofs.diag_none_iff_accepted_holds | exact ParseDiagProofs.diag_outcome_ok_holds].
Qed.
Print Assumptions C14_grammar_diagnostics_conservative.
(* their spans are token-aligned, inside their own statement, in text order, non-empty, inside the
   text; after the compiled preamble they all belong to the user's part and are rendered in the
   user's file on the right line with carets under exactly the span *)
Theorem C14_grammar_diagnostics_located :
  ParseDiagSpec.stmt_diag_spans_token_aligned /\ ParseDiagSpec.stmt_diag_spans_in_statement /\
  ParseDiagSpec.stmt_diag_spans_in_text /\ ParseDiagSpec.stmt_diag_statements_in_text_order /\
  ParseDiagSpec.stmt_diag_user_span_rendered /\ ParseDiagSpec.stmt_diag_user_span_rendered_gen /\
  ParseDiagSpec.stmt_diag_all_user_gen.
Proof.
  split; [exact ParseDiagProofs.diag_spans_token_aligned_holds |].
  split; [exact ParseDiagProofs.diag_spans_in_statement_holds |].
  split; [exact ParseDiagProofs.diag_spans_in_text_holds |].
  split; [exact ParseDiagProofs.diag_statements_in_text_order_holds |].
  split; [exact ParseDiagProofs.diag_user_span_rendered_holds |].
  split; [exact ParseDiagProofs.diag_user_span_rendered_gen_holds | exact ParseDiagProofs.diag_all_user_gen_holds].
Qed.
Print Assumptions C14_grammar_diagnostics_located.
(* which construct each one underlines (the declared name; from the name to the '='; from the ':'
   to the width; the name before '['; the register declaration; the 'wire' keyword; the bare
   term), and conversely each such malformed declaration yields exactly that diagnostic *)
Theorem C14_grammar_diagnostics_underline_the_offending_construct :
  ParseDiagSpec.stmt_diag_grammar_sound /\ ParseDiagSpec.stmt_diag_statement_forms /\ ParseDiagSpec.stmt_diag_from_declaration /\
  ParseDiagSpec.stmt_diag_missing_wire_width_span /\ ParseDiagSpec.stmt_diag_wire_assigned_span /\
  ParseDiagSpec.stmt_diag_added_const_width_span /\ ParseDiagSpec.stmt_diag_missing_assignment_mux_span /\
  ParseDiagSpec.stmt_diag_missing_register_width_span /\ ParseDiagSpec.stmt_diag_register_declared_with_wire_span /\
  ParseDiagSpec.stmt_diag_expected_statement_span /\
  ParseDiagSpec.stmt_diag_wire_decl_complete /\ ParseDiagSpec.stmt_diag_const_decl_complete /\
  ParseDiagSpec.stmt_diag_assignment_complete /\ ParseDiagSpec.stmt_diag_reg_decl_complete /\
  ParseDiagSpec.stmt_diag_invalid_wire_width_complete /\ ParseDiagSpec.stmt_diag_invalid_constant_complete.
Proof.
  split; [exact ParseDiagProofs.diag_grammar_sound_holds |].
  split; [exact ParseDiagProofs.diag_statement_forms_holds |].
  split; [exact ParseDiagProofs.diag_from_declaration_holds |].
  split; [exact ParseDiagProofs.diag_missing_wire_width_span_holds |].
  split; [exact ParseDiagProofs.diag_wire_assigned_span_holds |].
  split; [exact ParseDiagProofs.diag_added_const_width_span_holds |].
  split; [exact ParseDiagProofs.diag_missing_assignment_mux_span_holds |].
  split; [exact ParseDiagProofs.diag_missing_register_width_span_holds |].
  split; [exact ParseDiagProofs.diag_register_declared_with_wire_span_holds |].
  split; [exact ParseDiagProofs.diag_expected_statement_span_holds |].
  split; [exact ParseDiagProofs.diag_wire_decl_complete_holds |].
  split; [exact ParseDiagProofs.diag_const_decl_complete_holds |].
  split; [exact ParseDiagProofs.diag_assignment_complete_holds |].
  split; [exact ParseDiagProofs.diag_reg_decl_complete_holds |].
  split; [exact ParseDiagProofs.diag_invalid_wire_width_complete_holds | exact ParseDiagProofs.diag_invalid_constant_complete_holds].
Qed.
Print Assumptions C14_grammar_diagnostics_underline_the_offending_construct.

(* ---- the complete diagnostics with all their fields (FullDiag*.v) ---------------------------- *)
(* forgetting the extra fields gives exactly the spanned builder / checker (hence, by the theorems
   above, build_program / check): same acceptance, same program, same (kind, names, spans) list *)
Theorem C14_full_diagnostics_erase_to_the_spanned_builder :
  FullDiagSpec.stmt_check_full_erases_to_sp /\ FullDiagSpec.stmt_eval_full_erases_to_sp /\
  FullDiagSpec.stmt_full_erases_to_sp /\ FullDiagSpec.stmt_full_erases_to_build.
Proof.
  split; [exact FullDiagProofs.check_full_erases_to_sp_holds |].
  split; [exact FullDiagProofs.eval_full_erases_to_sp_holds |].
  split; [exact FullDiagProofs.full_erases_to_sp_holds | exact FullDiagProofs.full_erases_to_build_holds].
Qed.
Print Assumptions C14_full_diagnostics_erase_to_the_spanned_builder.
(* the widths a diagnostic prints are the widths the checker computes for the sub-expressions it
   underlines; the "did you mean" hint is a declared name equal to the offending one up to ASCII
   case - unique when there is one candidate, following the hash order when there are several
   (the draft "independent of the order" is refuted: foo against Foo and FOO) *)
Theorem C14_diagnostic_fields_are_the_checked_facts :
  FullDiagSpec.stmt_check_full_widths /\ FullDiagSpec.stmt_check_full_expr_widths /\ FullDiagSpec.stmt_eval_full_errors /\
  FullDiagSpec.stmt_full_widths /\ FullDiagSpec.stmt_close_name_sound /\ FullDiagSpec.stmt_close_name_unique /\
  FullDiagSpec.stmt_eq_ignore_ascii_case /\ ~ FullDiagSpec.stmt_close_name_order_free.
Proof.
  split; [exact FullDiagProofs.check_full_widths_holds |].
  split; [exact FullDiagProofs.check_full_expr_widths_holds |].
  split; [exact FullDiagProofs.eval_full_errors_holds |].
  split; [exact FullDiagProofs.full_widths_holds |].
  split; [exact FullDiagProofs.close_name_sound_holds |].
  split; [exact FullDiagProofs.close_name_unique_holds |].
  split; [exact FullDiagProofs.eq_ignore_ascii_case_holds | exact FullDiagProofs.close_name_order_free_refuted].
Qed.
Print Assumptions C14_diagnostic_fields_are_the_checked_facts.
(* END TO END, from the user's file to the text on standard error: every region of every
   diagnostic - lexical, grammatical or from the builder - is headed by the user's file name and
   shows a span of the user's text; the one exception is the second region of "redeclared" /
   "constant assigned" about a name of the preamble *)
Theorem C14_standard_error_regions_are_in_the_user_file :
  FullDiagSpec.stmt_front_stderr_in_user_file /\ FullDiagSpec.stmt_front_stderr_shape.
Proof. split; [exact FullDiagProofs.front_stderr_in_user_file_holds | exact FullDiagProofs.front_stderr_shape_holds]. Qed.
Print Assumptions C14_standard_error_regions_are_in_the_user_file.

(* ---- where a SYNTAX error is located (ParseLoc*.v): the generated LR parser complains about the
   first token that cannot continue any sentence of the grammar (its valid-prefix property; compared
   with the real parser on every run), or about the end of the input ------------------------------ *)
(* first_error_index is None exactly for sentences of the grammar (diagnostic productions included);
   otherwise the tokens before it are a viable prefix - with an explicit completion when the error
   is the end of input - and the prefix including it is not; the index is unique, depends on token
   kinds only and on the text up to the offending token only *)
Theorem C14_syntax_error_is_the_first_token_that_cannot_continue :
  ParseLocSpec.stmt_first_error_none_iff_sentence /\ ParseLocSpec.stmt_first_error_sound /\
  ParseLocSpec.stmt_completion_sound /\ ParseLocSpec.stmt_completion_complete /\
  ParseLocSpec.stmt_first_error_total /\ ParseLocSpec.stmt_first_error_unique /\
  ParseLocSpec.stmt_first_error_kinds_only /\ ParseLocSpec.stmt_first_error_prefix_only /\
  ParseLocSpec.stmt_first_error_none_iff_parse_diag /\ ParseLocSpec.stmt_parse_diag_done_no_error.
Proof.
  split; [exact ParseLocProofs.first_error_none_iff_sentence_holds |].
  split; [exact ParseLocProofs.first_error_sound_holds |].
  split; [exact ParseLocProofs.completion_sound_holds |].
  split; [exact ParseLocProofs.completion_complete_holds |].
  split; [exact ParseLocProofs.first_error_total_holds |].
  split; [exact ParseLocProofs.first_error_unique_holds |].
  split; [exact ParseLocProofs.first_error_kinds_only_holds |].
  split; [exact ParseLocProofs.first_error_prefix_only_holds |].
  split; [exact ParseLocProofs.first_error_none_iff_parse_diag_holds | exact ParseLocProofs.parse_diag_done_no_error_holds].
Qed.
Print Assumptions C14_syntax_error_is_the_first_token_that_cannot_continue.
(* the located span is exactly one token of the user's text (or the byte after its last token), and
   the diagnostic is rendered in the user's file, on that token's line, with carets under exactly it *)
Theorem C14_syntax_error_is_located_in_the_user_file :
  ParseLocSpec.stmt_first_error_span_is_a_token /\ ParseLocSpec.stmt_first_error_span_in_text /\
  ParseLocSpec.stmt_first_error_rendered /\ ParseLocSpec.stmt_first_error_rendered_gen.
Proof.
  split; [exact ParseLocProofs.first_error_span_is_a_token_holds |].
  split; [exact ParseLocProofs.first_error_span_in_text_holds |].
  split; [exact ParseLocProofs.first_error_rendered_holds | exact ParseLocProofs.first_error_rendered_gen_holds].
Qed.
Print Assumptions C14_syntax_error_is_located_in_the_user_file.
