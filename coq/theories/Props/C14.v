(* C14 - diagnostics point at the offending construct in the user's own file.
   Property theorems only; proofs live in RegionProofs.v. *)
From HclV Require Import Base Yo Region RegionSpec RegionProofs.
Open Scope list_scope.
Open Scope N_scope.

(* a span [s, e) of the user's own text lying on one line is rendered with the user's file
   name, the 1-based line number counted in the user's text - whatever the preamble's length
   and line count -, that line's text (without LF, without the CR of a CRLF), and carets under
   exactly the span (column = bytes since the line start, count = e - s); any position: first
   or last line, with or without final newline, after CRLF lines or long preceding text *)
Theorem C14_locate_one_line :
  forall pre user fname s e,
    wf_text pre -> wf_text user ->
    (s <= e)%nat -> (e <= List.length user)%nat ->
    count_lf (firstn (e - s) (skipn s user)) = O ->
    skipn (s - col_of user s) user <> [] ->
    show_region (new_from_data pre user fname) (List.length pre + s) (List.length pre + e) =
    Some (one_line_region fname (line_no user s) (line_text user s) (col_of user s) (e - s)).
Proof. exact locate_one_line_ok. Qed.
Print Assumptions C14_locate_one_line.

(* faults in user code are never attributed to the preamble: a region whose offsets lie at or
   after the end of the preamble is headed by the user's file name *)
Theorem C14_never_preamble :
  forall pre user fname s e out,
    (List.length pre <= s)%nat -> (List.length pre <= e)%nat ->
    show_region (new_from_data pre user fname) s e = Some out ->
    exists rest, out = sp 5 ++ [45; 62; 32] ++ fname ++ [58] ++ rest.
Proof. exact never_preamble_partial. Qed.
Print Assumptions C14_never_preamble.

(* (the version without the hypothesis on e is false of the model: show_region clamps the start
   to the end, so a reversed span ending inside the preamble is attributed to <builtin>;
   no diagnostic of hclrs has end < start) *)
Theorem C14_never_preamble_needs_ordered_span : ~ stmt_never_preamble.
Proof. exact never_preamble_false. Qed.
Print Assumptions C14_never_preamble_needs_ordered_span.

Example C14_last_line_without_newline :
  show_region (new_from_data [10; 10] [102; 111; 111; 32; 61; 32; 49; 10; 98; 97; 114; 32; 61; 32; 50; 50] [70]) 10 18 =
  Some (one_line_region [70] 2 [98; 97; 114; 32; 61; 32; 50; 50] 0 8).
Proof. vm_compute. reflexivity. Qed.
