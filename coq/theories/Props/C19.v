(* C19 - the command line reports success and failure through its exit status.
   Theorems about the decision table Cli.main_model. *)
From HclV Require Import Base Cli Generated.
From HclV Require CliArgs CliArgsSpec CliArgsProofs Tool ToolSpec ToolProofs FrontWfSpec FrontWfProofs ToolErrSpec ToolErrProofs.
Open Scope string_scope.
Open Scope N_scope.

Definition did_what_was_asked (w : what) : bool :=
  match w with PrintedUsage => false | Message _ => false | _ => true end.

(* exit status 0 exactly when hclrs did what was asked: help (the usage text on request),
   version, 'syntax OK' under --check, or a simulation that completed and printed its final
   state; status 1 comes with a message or the usage text and never with a final state *)
Theorem C19_exit_status :
  forall i,
    match main_model i with
    | (0, PrintedUsage) => i_help i = true
    | (0, PrintedVersion) => i_version i = true
    | (0, SyntaxOK) => i_check i = true /\ i_hcl i = HclAccepted
    | (0, FinalState t) =>
        i_check i = false /\ i_hcl i = HclAccepted /\ i_yo i = YoLoadable /\ i_sim i = SimCompletes
    | (1, PrintedUsage) => True
    | (1, Message _) => True
    | _ => False
    end.
Proof.
  intros i. unfold main_model.
  destruct (i_opts_ok i); cbn [negb]; [|exact I].
  destruct (i_help i) eqn:Eh; [reflexivity|].
  destruct (i_version i) eqn:Ev; [reflexivity|].
  destruct (i_free i) as [|hcl rest] eqn:Ef; [exact I|].
  destruct (i_hcl i) eqn:Ehcl; try exact I.
  - destruct (3 <? _); exact I.
  - destruct (3 <? _); [exact I|].
    destruct (i_check i) eqn:Ec; [split; reflexivity|].
    destruct rest as [|yo rest2]; [exact I|].
    destruct (ends_with ".yo" yo); cbn [negb]; [|exact I].
    destruct (match rest2 with [] => Some default_timeout | t :: _ => parse_u32 t end); [|exact I].
    destruct (i_yo i) eqn:Ey; try exact I.
    destruct (i_sim i) eqn:Es; try exact I.
    repeat split; reflexivity.
Qed.
Print Assumptions C19_exit_status.

(* --check simulates nothing, whatever else is on the command line *)
Theorem C19_check_simulates_nothing :
  forall i t, i_check i = true -> snd (main_model i) <> FinalState t.
Proof.
  intros i t Hc. pose proof (C19_exit_status i) as H.
  destruct (main_model i) as [e w]. cbn [snd]. intros ->.
  destruct e as [|[p|p|]]; cbn in H; try contradiction.
  destruct H as [H _]. congruence.
Qed.
Print Assumptions C19_check_simulates_nothing.

(* the timeout argument is honoured exactly; absent, it is the default of the compiled code *)
Theorem C19_timeout_exact :
  forall i t, main_model i = (0, FinalState t) ->
    match i_free i with
    | [_; _] => t = gen_timeout
    | _ :: _ :: ts :: _ => parse_u32 ts = Some t /\ t < 2 ^ 32
    | _ => False
    end.
Proof.
  intros i t. unfold main_model.
  destruct (i_opts_ok i); cbn [negb]; [|discriminate].
  destruct (i_help i); [discriminate|]. destruct (i_version i); [discriminate|].
  destruct (i_free i) as [|hcl rest]; [discriminate|].
  destruct (i_hcl i); try discriminate.
  - destruct (3 <? _); discriminate.
  - destruct (3 <? _); [discriminate|].
    destruct (i_check i); [discriminate|].
    destruct rest as [|yo rest2]; [discriminate|].
    destruct (ends_with ".yo" yo); cbn [negb]; [|discriminate].
    destruct rest2 as [|ts rest3].
    + destruct (i_yo i); try discriminate. destruct (i_sim i); try discriminate.
      intros H. inversion H. reflexivity.
    + destruct (parse_u32 ts) as [v|] eqn:Ep; [|discriminate].
      destruct (i_yo i); try discriminate. destruct (i_sim i); try discriminate.
      intros H. inversion H. subst. split; [reflexivity|].
      unfold parse_u32 in Ep.
      destruct (match ts with String "+"%char r => r | _ => ts end); [discriminate|].
      destruct (parse_digits _ 0) as [x|]; [|discriminate].
      destruct (x <? 2 ^ 32) eqn:El; [|discriminate].
      inversion Ep. subst. apply N.ltb_lt. exact El.
Qed.
Print Assumptions C19_timeout_exact.

(* the number grammar of the timeout: digits with an optional '+', below 2^32 *)
Example C19_timeouts :
  parse_u32 "0" = Some 0 /\ parse_u32 "9999" = Some 9999 /\ parse_u32 "4294967295" = Some 4294967295 /\
  parse_u32 "4294967296" = None /\ parse_u32 "-1" = None /\ parse_u32 "abc" = None /\ parse_u32 "" = None /\
  parse_u32 "+" = None /\ parse_u32 "+7" = Some 7 /\ parse_u32 "007" = Some 7 /\ parse_u32 "1 " = None.
Proof. vm_compute. repeat split; reflexivity. Qed.

(* ---- over the RAW argument vector (CliArgs.v: parse_argv models what the getopts crate does with
   hclrs's table of nine flags - `--`, a lone `-`, combined short flags, one-letter long names read
   as short ones, repeated or valued flags refused; CliArgsSpec.v / CliArgsProofs.v) --------------- *)
(* the parser is characterised by an independent inductive reading of the argument vector *)
Theorem C19_argument_syntax : CliArgsSpec.stmt_parse_argv_characterised.
Proof. exact CliArgsProofs.parse_argv_characterised_holds. Qed.
Print Assumptions C19_argument_syntax.
(* exit status 0 exactly for: help asked, version asked, check passed, simulated and printed the
   final state - each with its exact condition on the argument vector; otherwise 1 *)
Theorem C19_exit_zero_iff : CliArgsSpec.stmt_exit_zero_iff.
Proof. exact CliArgsProofs.exit_zero_iff_holds. Qed.
Print Assumptions C19_exit_zero_iff.
(* each failure cause of the property's sentence gives status 1; failure never prints a final state *)
Theorem C19_each_failure_cause_exits_one : CliArgsSpec.stmt_each_failure_cause_exits_one.
Proof. exact CliArgsProofs.each_failure_cause_exits_one_holds. Qed.
Print Assumptions C19_each_failure_cause_exits_one.
Theorem C19_no_final_state_on_failure : CliArgsSpec.stmt_no_final_state_on_failure.
Proof. exact CliArgsProofs.no_final_state_on_failure_holds. Qed.
Print Assumptions C19_no_final_state_on_failure.
(* --check never simulates; the timeout honoured is the third positional's numeral or 9999; the
   image must be named *.yo, case-sensitively *)
Theorem C19_check_timeout_and_name_rules :
  CliArgsSpec.stmt_check_simulates_nothing /\ CliArgsSpec.stmt_timeout_honoured /\ CliArgsSpec.stmt_yo_name_rule.
Proof.
  split; [exact CliArgsProofs.check_simulates_nothing_holds |
  split; [exact CliArgsProofs.timeout_honoured_holds | exact CliArgsProofs.yo_name_rule_holds]].
Qed.
Print Assumptions C19_check_timeout_and_name_rules.
(* the order and spelling of the options do not matter; the output options never change the result *)
Theorem C19_option_order_spelling_and_output_options :
  CliArgsSpec.stmt_option_order_free /\ CliArgsSpec.stmt_spelling_free /\ CliArgsSpec.stmt_output_options_irrelevant.
Proof.
  split; [exact CliArgsProofs.option_order_free_holds |
  split; [exact CliArgsProofs.spelling_free_holds | exact CliArgsProofs.output_options_irrelevant_holds]].
Qed.
Print Assumptions C19_option_order_spelling_and_output_options.

(* ---- tie to the code: main.rs read on this run (the gen_cli tables of tools/translate.py) ---- *)
(* the option table the model's parse_argv works with is the sequence of optflag calls of
   main_real (nothing but flags is declared); help is tested before version, both before anything
   else; the output options are applied to the RunOptions in the order q d t i ungroup trace (the
   order OutputSpec.opts_of_flags assumes); --check is only read into a variable; and the timeout
   used when the third argument is absent is the model's default *)
Theorem C19_option_table_is_main_rs :
  gen_cli_flags = Some (map (fun f => (match CliArgs.short_name f with Some c => String c EmptyString | None => "" end,
                                       CliArgs.long_name f)) CliArgs.all_flags) /\
  gen_cli_early = Some ["h"; "version"] /\
  gen_cli_effects = Some [("q", "set_quiet"); ("d", "set_debug"); ("t", "set_test"); ("i", "set_prompt");
                          ("ungroup-debug-wires", "set_no_group_wire_values");
                          ("trace-assignments", "set_trace_assignments")] /\
  gen_cli_others = Some [("check_only", "c")] /\
  gen_cli_default_timeout = Some default_timeout.
Proof. vm_compute. repeat split; reflexivity. Qed.
Print Assumptions C19_option_table_is_main_rs.

(* ---- the whole command composed from the models of its parts (Tool.v / ToolSpec.v / ToolProofs.v):
   options, reading the file, the built-in preamble, lexer, parser, program builder, image loader,
   simulator and final dump - tool_main files args = (exit status, standard output) -------------- *)
(* the composed tool takes exactly the decisions of the decision table, for the world the file
   system induces (what each named file is for the front end, the loader, the simulator) - so the
   C19 theorems above hold of it; it never reaches a panic of its own *)
Theorem C19_composed_tool_refines_the_decision_table :
  ToolSpec.stmt_tool_refines_decision /\ ToolSpec.stmt_tool_never_panics.
Proof. split; [exact ToolProofs.tool_refines_decision_holds | exact ToolProofs.tool_never_panics_holds]. Qed.
Print Assumptions C19_composed_tool_refines_the_decision_table.
Theorem C19_composed_tool_exit_status :
  ToolSpec.stmt_tool_exit_zero_iff /\ ToolSpec.stmt_tool_each_failure_cause_exits_one /\
  ToolSpec.stmt_tool_option_order_free.
Proof.
  split; [exact ToolProofs.tool_exit_zero_iff_holds |].
  split; [exact ToolProofs.tool_each_failure_cause_exits_one_holds | exact ToolProofs.tool_option_order_free_holds].
Qed.
Print Assumptions C19_composed_tool_exit_status.
(* exit status 0 after a simulation: standard output ends with the dump of the state reached after
   exactly min(timeout, first cycle with a non-OK status) cycles, the report is the one C06
   prescribes, and under -q alone standard output is exactly that dump *)
Theorem C19_composed_tool_final_state : ToolSpec.stmt_tool_final_state.
Proof. exact ToolProofs.tool_final_state_holds. Qed.
Print Assumptions C19_composed_tool_final_state.
Theorem C19_composed_tool_check_and_files :
  ToolSpec.stmt_tool_check_prints_only_syntax_ok /\ ToolSpec.stmt_tool_deterministic_in_files /\
  ToolSpec.stmt_tool_output_options /\ ToolSpec.stmt_tool_abort_is_division_by_zero.
Proof.
  split; [exact ToolProofs.tool_check_prints_only_syntax_ok_holds |].
  split; [exact ToolProofs.tool_deterministic_in_files_holds |].
  split; [exact ToolProofs.tool_output_options_holds | exact ToolProofs.tool_abort_is_division_by_zero_holds].
Qed.
Print Assumptions C19_composed_tool_check_and_files.

(* the version the composed tool prints is the package version of Cargo.toml read on this run *)
Theorem C19_version_is_cargo_toml : gen_package_version = Some Tool.package_version.
Proof. vm_compute. reflexivity. Qed.
Print Assumptions C19_version_is_cargo_toml.

(* "or the simulation aborts": for a file that is valid UTF-8 the only abort of the composed tool's
   simulation is a division by zero (FrontWfProofs: no well-formedness hypothesis left) *)
Theorem C19_composed_tool_abort_is_division_by_zero :
  FrontWfSpec.stmt_tool_abort_is_division_by_zero_unconditional /\ FrontWfSpec.stmt_tool_statements_wf.
Proof.
  split; [exact FrontWfProofs.tool_abort_is_division_by_zero_unconditional_holds | exact FrontWfProofs.tool_statements_wf_holds].
Qed.
Print Assumptions C19_composed_tool_abort_is_division_by_zero.

(* ---- standard error of the whole command (ToolErr*.v): tool_full = (exit status, stdout, stderr) - *)
(* "with status 1, a message on standard error (or the usage text)": nothing is written on standard
   error exactly when the status is 0 or the outcome is the usage text; every other failure writes a
   non-empty message; a final state and a message never go together *)
Theorem C19_message_on_standard_error_iff_failure :
  ToolErrSpec.stmt_stderr_empty_iff_status_zero_or_usage /\ ToolErrSpec.stmt_stderr_never_with_final_state /\
  ToolErrSpec.stmt_stderr_modelled.
Proof.
  split; [exact ToolErrProofs.stderr_empty_iff_status_zero_or_usage_holds |].
  split; [exact ToolErrProofs.stderr_never_with_final_state_holds | exact ToolErrProofs.stderr_modelled_holds].
Qed.
Print Assumptions C19_message_on_standard_error_iff_failure.
(* which message for which cause, in the order of precedence of the decision table: the getopts
   failure (which one the crate reports first, and that it fails exactly when parse_argv does), the
   unreadable file, the diagnostics of a rejected file (FullDiag.front_stderr under the file's own
   name), the extension and timeout messages, the loader's and the simulation's errors *)
Theorem C19_which_message_for_which_cause :
  ToolErrSpec.stmt_stderr_message_kinds /\ ToolErrSpec.stmt_getopts_fail_iff /\ ToolErrSpec.stmt_getopts_fail_kinds /\
  ToolErrSpec.stmt_stderr_rejected_file /\ ToolErrSpec.stmt_stderr_rejected_file_total.
Proof.
  split; [exact ToolErrProofs.stderr_message_kinds_holds |].
  split; [exact ToolErrProofs.getopts_fail_iff_holds |].
  split; [exact ToolErrProofs.getopts_fail_kinds_holds |].
  split; [exact ToolErrProofs.stderr_rejected_file_holds | exact ToolErrProofs.stderr_rejected_file_total_holds].
Qed.
Print Assumptions C19_which_message_for_which_cause.
Theorem C19_standard_error_depends_on_files_read_only :
  ToolErrSpec.stmt_stderr_depends_on_files_read /\ ToolErrSpec.stmt_stderr_program_name_free /\
  ToolErrSpec.stmt_contents_name_examples /\ ToolErrSpec.stmt_contents_name_simple.
Proof.
  split; [exact ToolErrProofs.stderr_depends_on_files_read_holds |].
  split; [exact ToolErrProofs.stderr_program_name_free_holds |].
  split; [exact ToolErrProofs.contents_name_examples_holds | exact ToolErrProofs.contents_name_simple_holds].
Qed.
Print Assumptions C19_standard_error_depends_on_files_read_only.
