(* C12 - results are deterministic: same inputs, same output, on every run.
   The model is a function of its inputs; the only things a randomly seeded hash table can
   change are (a) the order of the scheduled actions, (b) the order in which a bank's defaults
   are restored on a bubble, (c) the order of diagnostics.  (a) and (b) are shown here not to
   reach any wire value or machine state; (c) is compared as multisets by the check. *)
From Coq Require Import Permutation.
From HclV Require Import Base Expr Machine MachineSpec MachineProofs SchedSpec SchedProofs C12Lemmas TableSpec TableProofs.
Open Scope string_scope.
Open Scope N_scope.

(* (a) any two valid schedules of the same actions: same wire values, same registers, memory,
   status and cycle count after the cycle's actions *)
Theorem C12_schedule_order_free :
  forall f o known acts acts' s0 s1 t1 s2 t2,
    valid_schedule known acts = true -> valid_schedule known acts' = true ->
    Permutation (pure_part acts) (pure_part acts') ->
    effect_part acts = effect_part acts' ->
    exec_actions f o acts s0 = Ok (s1, t1) -> exec_actions f o acts' s0 = Ok (s2, t2) ->
    (forall k, lookup (values s1) k = lookup (values s2) k) /\
    mem s1 = mem s2 /\ regs s1 = regs s2 /\ last_status s1 = last_status s2 /\ cycle s1 = cycle s2.
Proof. exact order_independent_ok. Qed.
Print Assumptions C12_schedule_order_free.

(* (b) the clock edge does not depend on the order in which a bank's defaults are listed
   (same_bank: same label, signals, stall and bubble wires, and defaults equal as maps) *)
Theorem C12_defaults_order_free :
  forall banks banks' vals v1 v2,
    banks_wf banks -> banks_wf banks' -> Forall2 same_bank banks banks' ->
    process_banks vals banks = Ok v1 -> process_banks vals banks' = Ok v2 ->
    forall k, lookup v1 k = lookup v2 k.
Proof. exact defaults_order_free. Qed.
Print Assumptions C12_defaults_order_free.

(* ---- (d) the iteration order of the value map (HashMap<String, WireValue>) never reaches the
   output (TableSpec.v / TableProofs.v).  The model keeps the map as an association list in
   arbitrary order; NoDup keys is the representation invariant of a map, established by
   initial_state and kept by every cycle (C12_map_keys_stay_distinct) *)

(* the per-cycle debug table: the same map enumerated in another order prints the same text *)
Theorem C12_debug_table_order_free :
  forall o p vals vals',
    NoDup (map fst vals) -> Permutation vals vals' ->
    dump_values o p vals = dump_values o p vals'.
Proof. exact table_order_free_holds. Qed.
Print Assumptions C12_debug_table_order_free.

(* because rows are sorted by a strict total order on names (upper-cased bytes, ties broken by
   the raw bytes: two distinct names never compare equal) *)
Theorem C12_table_key_order_is_strict_total : stmt_key_order_strict_total.
Proof. exact key_order_strict_total_holds. Qed.
Print Assumptions C12_table_key_order_is_strict_total.

(* a whole cycle under any options: the same text, and states that again differ only in the
   enumeration order of the map *)
Theorem C12_step_map_order_free :
  forall f o p s s',
    NoDup (map fst (values s)) -> same_state s s' ->
    same_outcome (step f o p s) (step f o p s').
Proof. exact step_order_free_holds. Qed.
Print Assumptions C12_step_map_order_free.

(* a whole run - traces, -d tables, final dump: byte-identical output *)
Theorem C12_run_map_order_free :
  forall fuel f o p s s',
    NoDup (map fst (values s)) -> same_state s s' ->
    same_outcome (run fuel f o p s) (run fuel f o p s').
Proof. exact run_order_free_holds. Qed.
Print Assumptions C12_run_map_order_free.

Theorem C12_map_keys_stay_distinct : stmt_initial_keys_distinct /\ stmt_step_keys_distinct.
Proof. split; [exact initial_keys_distinct_holds | exact step_keys_distinct_holds]. Qed.
Print Assumptions C12_map_keys_stay_distinct.
