(* C12 - results are deterministic: same inputs, same output, on every run.
   The model is a function of its inputs; the only things a randomly seeded hash table can
   change are (a) the order of the scheduled actions, (b) the order in which a bank's defaults
   are restored on a bubble, (c) the order of diagnostics.  (a) and (b) are shown here not to
   reach any wire value or machine state; (c) is compared as multisets by the check. *)
From Coq Require Import Permutation.
From HclV Require Import Base Expr Machine MachineSpec MachineProofs SchedSpec SchedProofs C12Lemmas TableSpec TableProofs.
From HclV Require TextLevelSpec TextLevelProofs OutputOrderSpec OutputOrderProofs.
From HclV Require OrderSpec OrderProofs DiagOrderSpec DiagOrderProofs LoopProofs RenameSpec RenameProofs.
From HclV Require Import Generated.
Open Scope string_scope.
Open Scope N_scope.

(* (a) any two valid schedules of the same actions: same wire values, same registers, memory,
   status and cycle count after the cycle's actions *)
Theorem C12_schedule_order_free :
  forall f o known acts acts' s0 s1 t1 s2 t2,
    valid_schedule known acts = true -> valid_schedule known acts' = true ->
    Permutation (pure_part acts) (pure_part acts') ->
    effect_part acts = effect_part acts' ->
    exec_actions f o acts s0 = Ok (s1, t1) -> exec_actions f o acts' s0 = Ok (s2, t2) ->
    (forall k, lookup (values s1) k = lookup (values s2) k) /\
    mem s1 = mem s2 /\ regs s1 = regs s2 /\ last_status s1 = last_status s2 /\ cycle s1 = cycle s2.
Proof. exact order_independent_ok. Qed.
Print Assumptions C12_schedule_order_free.

(* (b) the clock edge does not depend on the order in which a bank's defaults are listed
   (same_bank: same label, signals, stall and bubble wires, and defaults equal as maps) *)
Theorem C12_defaults_order_free :
  forall banks banks' vals v1 v2,
    banks_wf banks -> banks_wf banks' -> Forall2 same_bank banks banks' ->
    process_banks vals banks = Ok v1 -> process_banks vals banks' = Ok v2 ->
    forall k, lookup v1 k = lookup v2 k.
Proof. exact defaults_order_free. Qed.
Print Assumptions C12_defaults_order_free.

(* ---- (d) the iteration order of the value map (HashMap<String, WireValue>) never reaches the
   output (TableSpec.v / TableProofs.v).  The model keeps the map as an association list in
   arbitrary order; NoDup keys is the representation invariant of a map, established by
   initial_state and kept by every cycle (C12_map_keys_stay_distinct) *)

(* the per-cycle debug table: the same map enumerated in another order prints the same text *)
Theorem C12_debug_table_order_free :
  forall o p vals vals',
    NoDup (map fst vals) -> Permutation vals vals' ->
    dump_values o p vals = dump_values o p vals'.
Proof. exact table_order_free_holds. Qed.
Print Assumptions C12_debug_table_order_free.

(* because rows are sorted by a strict total order on names (upper-cased bytes, ties broken by
   the raw bytes: two distinct names never compare equal) *)
Theorem C12_table_key_order_is_strict_total : stmt_key_order_strict_total.
Proof. exact key_order_strict_total_holds. Qed.
Print Assumptions C12_table_key_order_is_strict_total.

(* a whole cycle under any options: the same text, and states that again differ only in the
   enumeration order of the map *)
Theorem C12_step_map_order_free :
  forall f o p s s',
    NoDup (map fst (values s)) -> same_state s s' ->
    same_outcome (step f o p s) (step f o p s').
Proof. exact step_order_free_holds. Qed.
Print Assumptions C12_step_map_order_free.

(* a whole run - traces, -d tables, final dump: byte-identical output *)
Theorem C12_run_map_order_free :
  forall fuel f o p s s',
    NoDup (map fst (values s)) -> same_state s s' ->
    same_outcome (run fuel f o p s) (run fuel f o p s').
Proof. exact run_order_free_holds. Qed.
Print Assumptions C12_run_map_order_free.

Theorem C12_map_keys_stay_distinct : stmt_initial_keys_distinct /\ stmt_step_keys_distinct.
Proof. split; [exact initial_keys_distinct_holds | exact step_keys_distinct_holds]. Qed.
Print Assumptions C12_map_keys_stay_distinct.

(* ---- (e) reordering the statements (OrderSpec.v / OrderProofs.v): see also C01 ---------------- *)
Theorem C12_reordering_statements_keeps_values_and_state :
  forall f is_lower is_upper, OrderSpec.stmt_simulation_order_free f is_lower is_upper.
Proof. exact OrderProofs.simulation_order_free_holds. Qed.
Print Assumptions C12_reordering_statements_keeps_values_and_state.

(* the final dump is byte-identical when banks sharing an output letter keep their relative order;
   in general only the order of bank lines within one letter can differ *)
Theorem C12_reordering_statements_and_the_dump : OrderSpec.stmt_dump_order_free /\ OrderSpec.stmt_dump_banks_same_lines.
Proof. split; [exact OrderProofs.dump_order_free_holds | exact OrderProofs.dump_banks_same_lines_holds]. Qed.
Print Assumptions C12_reordering_statements_and_the_dump.

(* a rejected program stays rejected under reordering; WHICH diagnostics are shown may change with
   the statement order (three computed reasons: the last of two declarations wins, which of two
   loops is met first, a duplicated register is skipped) - observations, identical in the code *)
Theorem C12_reordered_rejected_program_is_rejected : OrderSpec.stmt_rejection_order_free.
Proof. exact OrderProofs.rejection_order_free_holds. Qed.
Print Assumptions C12_reordered_rejected_program_is_rejected.
Theorem C12_diagnostics_may_depend_on_statement_order : ~ OrderSpec.stmt_diagnostics_order_free.
Proof. exact OrderProofs.diagnostics_order_free_refuted. Qed.
Print Assumptions C12_diagnostics_may_depend_on_statement_order.

(* ---- (f) "A rejected program is rejected on every run, with the same kinds of diagnostics about
   the same names (when several dependency loops exist, which one is shown may differ)":
   DiagOrderSpec.build_program_with = Program::new with an arbitrary reordering inserted at each of
   its twelve hash-iteration sites (assign_spans, constants_raw twice, referenced_wires() four
   times, needed_wires, assignments, seen_undeclared, the sorter's tables twice); with the identity
   it IS Build.build_program.  For any two orders: both accept the same program (actions up to
   order) or both reject with the same diagnostics up to order - or both report one real loop *)
Theorem C12_model_iteration_order_is_the_identity : DiagOrderSpec.stmt_build_with_id.
Proof. exact DiagOrderProofs.build_with_id_holds. Qed.
Print Assumptions C12_model_iteration_order_is_the_identity.

Theorem C12_diagnostics_do_not_depend_on_hash_order :
  forall f is_lower is_upper o o' stmts, DiagOrderSpec.ord_ok o -> DiagOrderSpec.ord_ok o' ->
    DiagOrderSpec.same_outcome_build gen_fixed stmts
      (DiagOrderSpec.build_program_with f gen_fixed is_lower is_upper o stmts)
      (DiagOrderSpec.build_program_with f gen_fixed is_lower is_upper o' stmts).
Proof.
  intros f il iu. apply (DiagOrderProofs.diagnostics_order_free_holds f gen_fixed il iu).
  exact LoopProofs.gen_fixed_distinct.
Qed.
Print Assumptions C12_diagnostics_do_not_depend_on_hash_order.

(* ---- (g) "Renaming wires consistently ... leaves every wire's value in every cycle and the final
   machine state unchanged" (RenameSpec.v / RenameProofs.v).  A consistent renaming: r on wires and
   constants, q on register names inside banks (bank names kept), with r injective on the names the
   program mentions or generates, fixing the built-in wires, and compatible with the bank signals
   (r x_foo = x_(q foo), r Y_foo = Y_(q foo), stall_Y / bubble_Y fixed); each condition is shown
   necessary by a computed program *)
Theorem C12_renaming_commutes_with_Program_new :
  forall f is_lower is_upper r q stmts,
    RenameSpec.consistent_renaming r q gen_fixed stmts ->
    Build.build_program f gen_fixed is_lower is_upper (map (RenameSpec.rename_stmt r q) stmts) =
    RenameSpec.rename_build_result r q (Build.build_program f gen_fixed is_lower is_upper stmts).
Proof. exact RenameProofs.rename_acceptance_holds. Qed.
Print Assumptions C12_renaming_commutes_with_Program_new.

(* after any number of cycles: the wire r k of the renamed run holds what k holds in the original
   run; memory, registers, status and cycle count are equal *)
Theorem C12_renaming_keeps_values_and_state : RenameSpec.stmt_rename_wire_values.
Proof. exact RenameProofs.rename_wire_values_holds. Qed.
Print Assumptions C12_renaming_keeps_values_and_state.

(* the state dump of the renamed run is the original dump with each register name printed in a
   bank line passed through q; with q the identity it is byte-identical *)
Theorem C12_renaming_and_the_dump : RenameSpec.stmt_rename_dump /\ RenameSpec.stmt_rename_dump_equal.
Proof. split; [exact RenameProofs.rename_dump_holds | exact RenameProofs.rename_dump_equal_holds]. Qed.
Print Assumptions C12_renaming_and_the_dump.

(* the sorter commutes with an injective renaming of its nodes: same order, same cycle *)
Theorem C12_sorter_commutes_with_renaming : RenameSpec.stmt_toposort_rename.
Proof. exact RenameProofs.toposort_rename_holds. Qed.
Print Assumptions C12_sorter_commutes_with_renaming.

(* ---- END TO END, from the program TEXT (TextLevelSpec.v / TextLevelProofs.v): the user's file (valid
   UTF-8) after the compiled preamble, lexed with any Unicode classification, parsed with the compiled
   tier table, built with the compiled component table; states = those reachable by loading an
   image and stepping.  No hypothesis a user cannot check by reading the file. ------------------- *)
(* for any two hash orders: the same verdict, the same diagnostics as a multiset, the same program up
   to order, the same states cycle by cycle, the same final dump, the same whole output under silent
   options; the draft "the same whole output under every option set" is refuted (-d / trace lines
   of one cycle come in hash order: the variation C12 allows) *)
Theorem C12_text_level :
  TextLevelSpec.stmt_text_hash_order_free /\ TextLevelSpec.stmt_text_accepted_under_every_hash_order /\
  ~ TextLevelSpec.stmt_text_hash_order_same_output_draft.
Proof.
  split; [exact TextLevelProofs.text_hash_order_free_holds |].
  split; [exact TextLevelProofs.text_accepted_under_every_hash_order_holds | exact TextLevelProofs.text_hash_order_same_output_draft_refuted].
Qed.
Print Assumptions C12_text_level.

(* ---- the WHOLE standard output across hash orders (OutputOrderSpec.v / OutputOrderProofs.v) ---- *)
(* per-action lines are printed only under o_trace_assignments / o_trace_fixed (command line:
   --trace-assignments / -d), except the one instruction line of the one instruction-memory read;
   hence for an accepted text and ANY two hash orders the whole standard output - per-cycle dumps,
   instruction lines, prompt lines, final dump - is byte-identical under every flag list without -d
   and --trace-assignments; under those two the outputs have the same lines cycle by cycle, the
   per-action lines of a cycle being permuted (the variation the property allows) *)
Theorem C12_whole_output_identical_across_hash_orders :
  OutputOrderSpec.stmt_action_text_switches /\ OutputOrderSpec.stmt_flags_and_action_lines /\
  OutputOrderSpec.stmt_text_one_instruction_port /\
  OutputOrderSpec.stmt_text_hash_order_same_output_default /\ OutputOrderSpec.stmt_text_hash_order_same_output_flags /\
  OutputOrderSpec.stmt_text_hash_order_same_lines_traced.
Proof.
  split; [exact OutputOrderProofs.action_text_switches_holds |].
  split; [exact OutputOrderProofs.flags_and_action_lines_holds |].
  split; [exact OutputOrderProofs.text_one_instruction_port_holds |].
  split; [exact OutputOrderProofs.text_hash_order_same_output_default_holds |].
  split; [exact OutputOrderProofs.text_hash_order_same_output_flags_holds |].
  exact OutputOrderProofs.text_hash_order_same_lines_traced_holds.
Qed.
Print Assumptions C12_whole_output_identical_across_hash_orders.
(* machine level: two valid schedules of the same actions print the same text when the per-action
   lines are off and there is at most one instruction line; false with two instruction ports *)
Theorem C12_schedules_print_the_same_text :
  OutputOrderSpec.stmt_cycle_text_from_final_values /\ OutputOrderSpec.stmt_exec_actions_same_messages /\
  OutputOrderSpec.stmt_exec_actions_text_order_free /\ OutputOrderSpec.stmt_step_text_order_free /\
  OutputOrderSpec.stmt_run_text_order_free /\ OutputOrderSpec.stmt_session_text_order_free /\
  ~ OutputOrderSpec.stmt_exec_actions_text_order_free_draft.
Proof.
  split; [exact OutputOrderProofs.cycle_text_from_final_values_holds |].
  split; [exact OutputOrderProofs.exec_actions_same_messages_holds |].
  split; [exact OutputOrderProofs.exec_actions_text_order_free_holds |].
  split; [exact OutputOrderProofs.step_text_order_free_holds |].
  split; [exact OutputOrderProofs.run_text_order_free_holds |].
  split; [exact OutputOrderProofs.session_text_order_free_holds |].
  exact OutputOrderProofs.exec_actions_text_order_free_draft_refuted.
Qed.
Print Assumptions C12_schedules_print_the_same_text.
