(* C12 - results are deterministic: same inputs, same output, on every run.
   The model is a function of its inputs; the only things a randomly seeded hash table can
   change are (a) the order of the scheduled actions, (b) the order in which a bank's defaults
   are restored on a bubble, (c) the order of diagnostics.  (a) and (b) are shown here not to
   reach any wire value or machine state; (c) is compared as multisets by the check. *)
From Coq Require Import Permutation.
From HclV Require Import Base Expr Machine MachineSpec MachineProofs SchedSpec SchedProofs C12Lemmas.
Open Scope string_scope.
Open Scope N_scope.

(* (a) any two valid schedules of the same actions: same wire values, same registers, memory,
   status and cycle count after the cycle's actions *)
Theorem C12_schedule_order_free :
  forall f o known acts acts' s0 s1 t1 s2 t2,
    valid_schedule known acts = true -> valid_schedule known acts' = true ->
    Permutation (pure_part acts) (pure_part acts') ->
    effect_part acts = effect_part acts' ->
    exec_actions f o acts s0 = Ok (s1, t1) -> exec_actions f o acts' s0 = Ok (s2, t2) ->
    (forall k, lookup (values s1) k = lookup (values s2) k) /\
    mem s1 = mem s2 /\ regs s1 = regs s2 /\ last_status s1 = last_status s2 /\ cycle s1 = cycle s2.
Proof. exact order_independent_ok. Qed.
Print Assumptions C12_schedule_order_free.

(* (b) the clock edge does not depend on the order in which a bank's defaults are listed
   (same_bank: same label, signals, stall and bubble wires, and defaults equal as maps) *)
Theorem C12_defaults_order_free :
  forall banks banks' vals v1 v2,
    banks_wf banks -> banks_wf banks' -> Forall2 same_bank banks banks' ->
    process_banks vals banks = Ok v1 -> process_banks vals banks' = Ok v2 ->
    forall k, lookup v1 k = lookup v2 k.
Proof. exact defaults_order_free. Qed.
Print Assumptions C12_defaults_order_free.
