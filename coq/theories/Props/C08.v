(* C08 - acceptance is decided exactly by the documented width rules.
   The rules are the declarative judgement ExprRules.has_width (one rule per sentence of the
   property); proofs live in ExprRulesProofs.v. *)
From HclV Require Import Base Expr ExprRules ExprRulesProofs Generated Build CompleteSpec CompleteProofs.
From HclV Require TextLevelSpec TextLevelProofs.
Open Scope N_scope.

(* the checker accepts exactly the expressions the rules derive, with exactly the derived width *)
Theorem C08_check_iff :
  forall f G C e w, check f G C e = Ok w <-> has_width f G C e w.
Proof. exact check_iff. Qed.
Print Assumptions C08_check_iff.

Theorem C08_width_unique :
  forall f G C e w w', has_width f G C e w -> has_width f G C e w' -> w = w'.
Proof. exact has_width_unique. Qed.
Print Assumptions C08_width_unique.

(* a rejection carries a diagnostic *)
Theorem C08_reject_has_diag :
  forall f G C e es, check f G C e = Err es -> es <> [].
Proof. exact reject_has_diag. Qed.
Print Assumptions C08_reject_has_diag.

(* tie to the code: the default build options of the compiled implementation are the ones the
   property is stated for (strict-wire-widths-binary off, the four others on) *)
Theorem C08_default_features : gen_features = mkF true false true true true.
Proof. vm_compute. reflexivity. Qed.
Print Assumptions C08_default_features.

(* non-vacuity: the boundary cases the property names *)
Definition G8 (n : string) : option width :=
  if String.eqb n "a" then Some (Bits 128) else if String.eqb n "b" then Some (Bits 128)
  else if String.eqb n "x" then Some (Bits 8) else None.
Example C08_concat_128_plus_128_rejected :
  check gen_features G8 (fun _ => None) (ECat (EWire "a") (EWire "b")) = err1 WireTooWide [].
Proof. vm_compute. reflexivity. Qed.
Example C08_slice_hi_equals_width_accepted :
  check gen_features G8 (fun _ => None) (ESlice (EWire "x") 3 8) = Ok (Bits 5) /\
  check gen_features G8 (fun _ => None) (ESlice (EWire "x") 3 9) = err1 InvalidBitIndex [].
Proof. vm_compute. split; reflexivity. Qed.

(* program level: a program (statement list) is accepted exactly when it is fault free, where the
   width clauses of CompleteSpec.fault_free are: every constant and every register initial value
   has a width under the rules (ff_consts_width, ff_init_width), an initial value's width equals
   the register's or is unsized (ff_init_eval), and every assigned expression has a width equal
   to the declared width of its target or unsized (ff_assign_widths / assign_ok) *)
Theorem C08_program_accepted_iff_rules_hold :
  forall f is_lower is_upper stmts,
    (exists p, build_program f gen_fixed is_lower is_upper stmts = Ok p) <->
    fault_free f gen_fixed is_lower is_upper stmts.
Proof. exact accepted_iff_fault_free_gen_holds. Qed.
Print Assumptions C08_program_accepted_iff_rules_hold.

(* ---- END TO END, from the program TEXT (TextLevelSpec.v / TextLevelProofs.v): the user's file (valid
   UTF-8) after the compiled preamble, lexed with any Unicode classification, parsed with the compiled
   tier table, built with the compiled component table; states = those reachable by loading an
   image and stepping.  No hypothesis a user cannot check by reading the file. ------------------- *)
Theorem C08_text_level : TextLevelSpec.stmt_text_accepted_iff_fault_free.
Proof. exact TextLevelProofs.text_accepted_iff_fault_free_holds. Qed.
Print Assumptions C08_text_level.
