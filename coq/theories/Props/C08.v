(* C08 - acceptance is decided exactly by the documented width rules.
   The rules are the declarative judgement ExprRules.has_width (one rule per sentence of the
   property); proofs live in ExprRulesProofs.v. *)
From HclV Require Import Base Expr ExprRules ExprRulesProofs Generated.
Open Scope N_scope.

(* the checker accepts exactly the expressions the rules derive, with exactly the derived width *)
Theorem C08_check_iff :
  forall f G C e w, check f G C e = Ok w <-> has_width f G C e w.
Proof. exact check_iff. Qed.
Print Assumptions C08_check_iff.

Theorem C08_width_unique :
  forall f G C e w w', has_width f G C e w -> has_width f G C e w' -> w = w'.
Proof. exact has_width_unique. Qed.
Print Assumptions C08_width_unique.

(* a rejection carries a diagnostic *)
Theorem C08_reject_has_diag :
  forall f G C e es, check f G C e = Err es -> es <> [].
Proof. exact reject_has_diag. Qed.
Print Assumptions C08_reject_has_diag.

(* tie to the code: the default build options of the compiled implementation are the ones the
   property is stated for (strict-wire-widths-binary off, the four others on) *)
Theorem C08_default_features : gen_features = mkF true false true true true.
Proof. vm_compute. reflexivity. Qed.
Print Assumptions C08_default_features.

(* non-vacuity: the boundary cases the property names *)
Definition G8 (n : string) : option width :=
  if String.eqb n "a" then Some (Bits 128) else if String.eqb n "b" then Some (Bits 128)
  else if String.eqb n "x" then Some (Bits 8) else None.
Example C08_concat_128_plus_128_rejected :
  check gen_features G8 (fun _ => None) (ECat (EWire "a") (EWire "b")) = err1 WireTooWide [].
Proof. vm_compute. reflexivity. Qed.
Example C08_slice_hi_equals_width_accepted :
  check gen_features G8 (fun _ => None) (ESlice (EWire "x") 3 8) = Ok (Bits 5) /\
  check gen_features G8 (fun _ => None) (ESlice (EWire "x") 3 9) = err1 InvalidBitIndex [].
Proof. vm_compute. split; reflexivity. Qed.
