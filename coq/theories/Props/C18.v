(* C18 - debug and quiet options change what is printed, never what is simulated. *)
From HclV Require Import Base Expr Disasm DisasmProofs Machine MachineSpec MachineProofs DumpSpec DumpProofs Build TableSpec TableProofs.
From HclV Require TextLevelSpec TextLevelProofs.
From HclV Require TraceSpec TraceProofs OutputSpec OutputProofs ToolSpec ToolProofs.
Open Scope string_scope.
Open Scope N_scope.

(* executing the action list: same resulting state (or same error) under any two option sets *)
Theorem C18_actions_do_not_read_options :
  forall f o o' acts s,
    match exec_actions f o acts s, exec_actions f o' acts s with
    | Ok (s1, _), Ok (s2, _) => s1 = s2
    | Err e1, Err e2 => e1 = e2
    | _, _ => False
    end.
Proof. exact exec_options_ok. Qed.
Print Assumptions C18_actions_do_not_read_options.

Theorem C18_step_same_state :
  forall f o o' p s s1 t1 s2 t2,
    step f o p s = Ok (s1, t1) -> step f o' p s = Ok (s2, t2) -> s1 = s2.
Proof. exact step_options_ok. Qed.
Print Assumptions C18_step_same_state.

(* a whole run: same final state (values, registers, memory, status, cycle count) under any
   two option sets with the same timeout *)
Theorem C18_run_same_state :
  forall fuel f o o' p s s1 t1 s2 t2,
    o_timeout o = o_timeout o' ->
    run fuel f o p s = Ok (s1, t1) -> run fuel f o' p s = Ok (s2, t2) -> s1 = s2.
Proof. exact run_options_ok. Qed.
Print Assumptions C18_run_same_state.

(* -t only omits the register banks from the dump *)
Theorem C18_test_mode_omits_banks_only :
  forall o p s text,
    dump_y86 o p s = Ok text ->
    exists banks,
      text = header_of (report o s) (cycle s) ++ nl ++ dump_program_registers (regs s) ++ banks ++
             dump_memory (mem s) ++ footer_of (report o s) ++ nl ++
             tail_of (report o s) (cycle s) (timed_out o s) /\
      (o_show_banks o = false -> banks = "").
Proof. exact dump_report_ok. Qed.
Print Assumptions C18_test_mode_omits_banks_only.

(* the value field of a debug-table row is "0x" + the wire's value in hexadecimal, zero-padded to
   the number of digits its width needs: reading it back gives the value *)
Theorem C18_table_value_field :
  forall v w, wd v = Bits w -> bits v < 2 ^ w ->
    let field := pad_left "0"%char ((w + 3) / 4) (hex (bits v)) in
    (0 < w -> slen field = (w + 3) / 4) /\ unhex field = Some (bits v) \/ w = 0.
Proof. exact table_value_field_ok. Qed.
Print Assumptions C18_table_value_field.

(* ---- which wires the -d table lists (TableSpec.v / TableProofs.v) ---------------------------- *)

(* the table lists every wire that holds a value in this cycle, is not a constant and is not a
   bank control signal left at its default - each exactly once, sorted, with the value it holds;
   grouped form: four sub-tables by kind; ungrouped form: one table *)
Theorem C18_table_lists_each_wire_once :
  forall o p vals text,
    NoDup (map fst vals) -> dump_values o p vals = Ok text ->
    if o_group_wire_values o then grouped_table p vals text else ungrouped_table p vals text.
Proof. exact table_lists_each_once_holds. Qed.
Print Assumptions C18_table_lists_each_wire_once.

(* in the program's own terms: after the cycle's actions the wires with a row are the wires the
   program assigns, the outputs of the active built-in components and the register-bank signals
   (the constants are candidates too, and are then left out by the table) *)
Theorem C18_wires_with_a_row :
  forall f o p s s1 t,
    keys_inv p s -> exec_actions f o (p_actions p) s = Ok (s1, t) ->
    forall k, candidate p (values s1) k <->
              (In k (written_names (p_actions p)) \/ In k (bank_signal_names (p_banks p)) \/
               In k (map fst (p_consts p))) /\ ~ In k (p_defaulted p).
Proof. exact cycle_candidates_holds. Qed.
Print Assumptions C18_wires_with_a_row.

Theorem C18_key_invariant : stmt_keys_inv_initial /\ stmt_keys_inv_step.
Proof. split; [exact keys_inv_initial_holds | exact keys_inv_step_holds]. Qed.
Print Assumptions C18_key_invariant.

(* both forms list the same wires for every accepted program; printing the table cannot fail;
   the text of a cycle is the trace lines followed by that table *)
Theorem C18_both_forms_same_wires : stmt_built_types_mark_consts /\ stmt_table_same_wires_both_forms.
Proof. split; [exact built_types_mark_consts_holds | exact table_same_wires_both_forms_holds]. Qed.
Print Assumptions C18_both_forms_same_wires.
Theorem C18_table_total : stmt_table_total.
Proof. exact table_total_holds. Qed.
Print Assumptions C18_table_total.
Theorem C18_step_prints_table : stmt_step_prints_table.
Proof. exact step_prints_table_holds. Qed.
Print Assumptions C18_step_prints_table.

(* ---- "the built-in component messages report the addresses, register numbers and data actually
   used" (TraceSpec.v / TraceProofs.v): each message, read by a reader that never mentions the
   printer, gives back exactly the quantities the action used *)
Theorem C18_component_messages_report_what_was_used :
  TraceSpec.stmt_read_memory_msg /\ TraceSpec.stmt_not_reading_msg /\ TraceSpec.stmt_write_memory_msg /\
  TraceSpec.stmt_not_writing_msg /\ TraceSpec.stmt_read_reg_msg /\ TraceSpec.stmt_write_reg_msg /\ TraceSpec.stmt_assign_msg.
Proof.
    split; [exact TraceProofs.read_memory_msg_holds |].
    split; [exact TraceProofs.not_reading_msg_holds |].
    split; [exact TraceProofs.write_memory_msg_holds |].
    split; [exact TraceProofs.not_writing_msg_holds |].
    split; [exact TraceProofs.read_reg_msg_holds |].
    split; [exact TraceProofs.write_reg_msg_holds |].
    exact TraceProofs.assign_msg_holds.
  Qed.
Print Assumptions C18_component_messages_report_what_was_used.
(* one message per scheduled action that has one, in schedule order *)
Theorem C18_one_message_per_action : TraceSpec.stmt_cycle_messages.
Proof. exact TraceProofs.cycle_messages_holds. Qed.
Print Assumptions C18_one_message_per_action.

(* ---- "options change what is printed": HOW (OutputSpec.v / OutputProofs.v) --------------------- *)
(* everything the simulator prints consists of whole lines; the command-line flags decide each
   output switch independently (main.rs applies them in one fixed order); and with more switches
   on (same table form, same timeout) the run reaches the same state and prints the lines of the
   smaller run in the same order, plus further lines - per action, per cycle, for a whole run and
   for the run followed by the final dump *)
Theorem C18_output_is_whole_lines : OutputSpec.stmt_output_is_lines.
Proof. exact OutputProofs.output_is_lines_holds. Qed.
Print Assumptions C18_output_is_whole_lines.
Theorem C18_flags_decide_switches :
  OutputSpec.stmt_opts_of_flags_fields /\ OutputSpec.stmt_flags_order /\ OutputSpec.stmt_setters_order /\
  OutputSpec.stmt_quiet_debug_do_not_commute.
Proof.
  split; [exact OutputProofs.opts_of_flags_fields_holds |].
  split; [exact OutputProofs.flags_order_holds |].
  split; [exact OutputProofs.setters_order_holds |].
  exact OutputProofs.quiet_debug_do_not_commute_holds.
Qed.
Print Assumptions C18_flags_decide_switches.
Theorem C18_more_options_only_add_lines :
  OutputSpec.stmt_action_output_monotone /\ OutputSpec.stmt_step_output_monotone /\
  OutputSpec.stmt_run_output_monotone /\ OutputSpec.stmt_run_output_monotone_typed /\
  OutputSpec.stmt_session_flags_monotone /\ OutputSpec.stmt_run_cycles_aligned.
Proof.
  split; [exact OutputProofs.action_output_monotone_holds |].
  split; [exact OutputProofs.step_output_monotone_holds |].
  split; [exact OutputProofs.run_output_monotone_holds |].
  split; [exact OutputProofs.run_output_monotone_typed_holds |].
  split; [exact OutputProofs.session_flags_monotone_holds |].
  exact OutputProofs.run_cycles_aligned_holds.
Qed.
Print Assumptions C18_more_options_only_add_lines.
(* -q removes exactly the per-cycle dumps; -t removes exactly the register-bank lines of every dump *)
Theorem C18_quiet_and_test_remove_exactly :
  OutputSpec.stmt_quiet_cycles /\ OutputSpec.stmt_test_dump_lines /\ OutputSpec.stmt_test_dump_same.
Proof.
  split; [exact OutputProofs.quiet_cycles_holds |].
  split; [exact OutputProofs.test_dump_lines_holds |].
  exact OutputProofs.test_dump_same_holds.
Qed.
Print Assumptions C18_quiet_and_test_remove_exactly.
(* grouped and ungrouped -d tables, line by line; same rows when no name/value is over-wide; the
   unrestricted draft and "one form is a sub-sequence of the other" are refuted *)
Theorem C18_table_forms_line_by_line :
  OutputSpec.stmt_table_forms_lines /\ OutputSpec.stmt_table_forms_same_rows /\
  ~ OutputSpec.stmt_table_forms_same_rows_draft /\ ~ OutputSpec.stmt_ungroup_fewer_lines_draft.
Proof.
  split; [exact OutputProofs.table_forms_lines_holds |].
  split; [exact OutputProofs.table_forms_same_rows_holds |].
  split; [exact OutputProofs.table_forms_same_rows_draft_refuted |].
  exact OutputProofs.ungroup_fewer_lines_draft_refuted.
Qed.
Print Assumptions C18_table_forms_line_by_line.

(* a whole run from any state the tool reaches: the same state OR the same error under any two
   option sets with equal timeouts (the error case too); false from arbitrary states (refuted) *)
Theorem C18_run_same_result_also_on_error :
  ToolSpec.stmt_run_result_option_free /\ ~ ToolSpec.stmt_run_result_option_free_any_state_draft.
Proof.
  split; [exact ToolProofs.run_result_option_free_holds | exact ToolProofs.run_result_option_free_any_state_draft_refuted].
Qed.
Print Assumptions C18_run_same_result_also_on_error.

(* ---- END TO END, from the program TEXT (TextLevelSpec.v / TextLevelProofs.v): the user's file (valid
   UTF-8) after the compiled preamble, lexed with any Unicode classification, parsed with the compiled
   tier table, built with the compiled component table; states = those reachable by loading an
   image and stepping.  No hypothesis a user cannot check by reading the file. ------------------- *)
Theorem C18_text_level : TextLevelSpec.stmt_text_output_options_same_state.
Proof. exact TextLevelProofs.text_output_options_same_state_holds. Qed.
Print Assumptions C18_text_level.
