(* C18 - debug and quiet options change what is printed, never what is simulated. *)
From HclV Require Import Base Expr Disasm DisasmProofs Machine MachineSpec MachineProofs DumpSpec DumpProofs.
Open Scope string_scope.
Open Scope N_scope.

(* executing the action list: same resulting state (or same error) under any two option sets *)
Theorem C18_actions_do_not_read_options :
  forall f o o' acts s,
    match exec_actions f o acts s, exec_actions f o' acts s with
    | Ok (s1, _), Ok (s2, _) => s1 = s2
    | Err e1, Err e2 => e1 = e2
    | _, _ => False
    end.
Proof. exact exec_options_ok. Qed.
Print Assumptions C18_actions_do_not_read_options.

Theorem C18_step_same_state :
  forall f o o' p s s1 t1 s2 t2,
    step f o p s = Ok (s1, t1) -> step f o' p s = Ok (s2, t2) -> s1 = s2.
Proof. exact step_options_ok. Qed.
Print Assumptions C18_step_same_state.

(* a whole run: same final state (values, registers, memory, status, cycle count) under any
   two option sets with the same timeout *)
Theorem C18_run_same_state :
  forall fuel f o o' p s s1 t1 s2 t2,
    o_timeout o = o_timeout o' ->
    run fuel f o p s = Ok (s1, t1) -> run fuel f o' p s = Ok (s2, t2) -> s1 = s2.
Proof. exact run_options_ok. Qed.
Print Assumptions C18_run_same_state.

(* -t only omits the register banks from the dump *)
Theorem C18_test_mode_omits_banks_only :
  forall o p s text,
    dump_y86 o p s = Ok text ->
    exists banks,
      text = header_of (report o s) (cycle s) ++ nl ++ dump_program_registers (regs s) ++ banks ++
             dump_memory (mem s) ++ footer_of (report o s) ++ nl ++
             tail_of (report o s) (cycle s) (timed_out o s) /\
      (o_show_banks o = false -> banks = "").
Proof. exact dump_report_ok. Qed.
Print Assumptions C18_test_mode_omits_banks_only.

(* the value field of a debug-table row is "0x" + the wire's value in hexadecimal, zero-padded to
   the number of digits its width needs: reading it back gives the value *)
Theorem C18_table_value_field :
  forall v w, wd v = Bits w -> bits v < 2 ^ w ->
    let field := pad_left "0"%char ((w + 3) / 4) (hex (bits v)) in
    (0 < w -> slen field = (w + 3) / 4) /\ unhex field = Some (bits v) \/ w = 0.
Proof. exact table_value_field_ok. Qed.
Print Assumptions C18_table_value_field.
