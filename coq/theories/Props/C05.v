(* C05 - memory is little-endian and byte-addressed; writes land at the end of the cycle.
   Property theorems only; proofs live in MemProofs.v (memory) and MachineProofs.v (cycle). *)
From HclV Require Import Base Expr Machine MemSpec MemProofs.
From HclV Require TextLevelSpec TextLevelProofs.
From Coq Require Import Sorted.
From HclV Require HistorySpec HistoryProofs.
Open Scope N_scope.

(* the sorted-list representation behaves as a map and keeps its invariant *)
Theorem C05_get_put :
  forall m a v, wf_mem m -> a < two64 -> v < 256 ->
    wf_mem (mem_put m a v) /\
    forall x, mem_get (mem_put m a v) x = if x =? a then Some v else mem_get m x.
Proof. exact mem_put_ok. Qed.
Print Assumptions C05_get_put.

(* a read delivers the n bytes at a, a+1, ... (wrapping at 2^64), little-endian; bytes never
   loaded or written read as 0 *)
Theorem C05_read_le :
  forall m a n, wf_mem m -> a < two64 -> n <= 16 ->
    mem_read m a n =
    mkV (le_sum (fun i => byte_at m ((a + i) mod two64)) (N.to_nat n)) (Bits (n * 8)).
Proof. exact mem_read_ok. Qed.
Print Assumptions C05_read_le.

(* a write stores exactly the n low bytes of the value, byte i at a+i (wrapping), nothing else *)
Theorem C05_write_bytes :
  forall m a v n, wf_mem m -> a < two64 -> n <= 16 ->
    wf_mem (mem_write m a v n) /\
    forall x, x < two64 -> mem_get (mem_write m a v n) x = awrite (mem_get m) a v n x.
Proof. exact mem_write_ok. Qed.
Print Assumptions C05_write_bytes.

Theorem C05_read_after_write :
  forall m a v, wf_mem m -> a < two64 ->
    mem_read (mem_write m a v 8) a 8 = mkV (v mod two64) (Bits 64).
Proof. exact read_after_write. Qed.
Print Assumptions C05_read_after_write.

(* any history of writes (any addresses: unaligned, overlapping, wrapping): every byte holds
   the most recent write to it, else the loaded image *)
Theorem C05_latest_write_wins :
  forall (ws : list (N * N)) m0, wf_mem m0 -> Forall (fun aw => fst aw < two64) ws ->
    let m := fold_left (fun m aw => mem_write m (fst aw) (snd aw) 8) ws m0 in
    wf_mem m /\
    forall x, x < two64 ->
      mem_get m x = fold_left (fun g aw => awrite g (fst aw) (snd aw) 8) ws (mem_get m0) x.
Proof. exact latest_write_wins. Qed.
Print Assumptions C05_latest_write_wins.

(* the value fits the port: 64 bits for the data port, 80 for the instruction port *)
Theorem C05_read_fits :
  forall m a n, wf_mem m -> a < two64 -> n <= 16 -> bits (mem_read m a n) < 2 ^ (n * 8).
Proof. exact mem_read_fits. Qed.
Print Assumptions C05_read_fits.

(* byte i of the value read is the memory byte at a+i: the instruction port delivers the ten
   bytes at pc in address order *)
Theorem C05_read_bytes :
  forall m a n i, wf_mem m -> a < two64 -> n <= 16 -> i < n ->
    (bits (mem_read m a n) / 256 ^ i) mod 256 = byte_at m ((a + i) mod two64).
Proof. exact mem_read_bytes. Qed.
Print Assumptions C05_read_bytes.

(* non-vacuity: an unaligned write straddling the top of the address space *)
Example C05_wf : wf_mem [(5, 7)].
Proof.
  split.
  - apply SSorted_cons; [apply SSorted_nil | apply Forall_nil].
  - apply Forall_cons; [| apply Forall_nil]. cbn [fst snd]. unfold two64. split; reflexivity.
Qed.

Example C05_wrap :
  let m := mem_write [(5, 7)] (two64 - 3) 0x1122334455667788 8 in
  (mem_read m (two64 - 3) 8, byte_at m 0, byte_at m 4, byte_at m 5, byte_at m (two64 - 1)) =
  (mkV 0x1122334455667788 (Bits 64), 0x55, 0x11, 7, 0x66).
Proof. vm_compute. reflexivity. Qed.

(* ---- over whole runs of an accepted program (HistorySpec.v / HistoryProofs.v): memory after i
   cycles = the image with the writes of cycles < i applied in order (latest write to each byte
   wins); every data / instruction read of cycle i returns the bytes as they were at the start of
   cycle i - the most recent EARLIER write to each byte, else the loaded image - or 0 when disabled *)
Theorem C05_memory_history : HistorySpec.stmt_memory_history.
Proof. exact HistoryProofs.memory_history_holds. Qed.
Print Assumptions C05_memory_history.

(* ---- END TO END, from the program TEXT (TextLevelSpec.v / TextLevelProofs.v): the user's file (valid
   UTF-8) after the compiled preamble, lexed with any Unicode classification, parsed with the compiled
   tier table, built with the compiled component table; states = those reachable by loading an
   image and stepping.  No hypothesis a user cannot check by reading the file. ------------------- *)
Theorem C05_text_level : TextLevelSpec.stmt_text_ports_scheduled /\ TextLevelSpec.stmt_text_memory_history.
Proof. split; [exact TextLevelProofs.text_ports_scheduled_holds | exact TextLevelProofs.text_memory_history_holds]. Qed.
Print Assumptions C05_text_level.
