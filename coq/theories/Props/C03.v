(* C03 - register banks update only at the clock edge, honouring stall and bubble. *)
From HclV Require Import Base Expr Machine MachineSpec MachineProofs.
From HclV Require TextLevelSpec TextLevelProofs.
From HclV Require HistorySpec HistoryProofs.
Open Scope string_scope.
Open Scope N_scope.

(* the first cycle: outputs hold the declared defaults, stall and bubble are 0 *)
Theorem C03_first_cycle :
  forall p s,
    banks_wf (p_banks p) -> initial_state p = Ok s ->
    cycle s = 0 /\ mem s = [] /\ regs s = repeat 0 16 /\ last_status s = None /\
    (forall b i o w, In b (p_banks p) -> In (i, o, w) (b_signals b) ->
       lookup (values s) o = lookup (b_defaults b) o) /\
    (forall b, In b (p_banks p) ->
       lookup (values s) (b_stall b) = Some false_value /\
       lookup (values s) (b_bubble b) = Some false_value).
Proof. exact initial_state_ok. Qed.
Print Assumptions C03_first_cycle.

(* during a cycle a wire changes only through the action that writes it: bank outputs, which no
   scheduled action writes, keep their value until the clock edge *)
Theorem C03_no_change_within_cycle :
  forall f o acts s s' t,
    exec_actions f o acts s = Ok (s', t) ->
    forall k, (forall a, In a acts -> written a <> Some k) ->
      lookup (values s') k = lookup (values s) k.
Proof.
  intros f o acts s s' t H k Hk.
  destruct (actions_frame_ok f o acts s s' t H) as [_ [Hv _]]. apply Hv. exact Hk.
Qed.
Print Assumptions C03_no_change_within_cycle.

(* the clock edge, for every bank at once: bubble resets to the defaults (and wins over stall),
   stall keeps, otherwise the input is latched; a bank reads only its own signals, and nothing
   but bank outputs changes *)
Theorem C03_clock_edge :
  forall banks vals vals',
    banks_wf banks -> process_banks vals banks = Ok vals' ->
    (forall b i o w, In b banks -> In (i, o, w) (b_signals b) ->
       exists st bu,
         lookup vals (b_stall b) = Some st /\ lookup vals (b_bubble b) = Some bu /\
         lookup vals' o = if is_true bu then lookup (b_defaults b) o
                          else if is_true st then lookup vals o
                          else lookup vals i) /\
    (forall k, ~ In k (all_outs banks) -> lookup vals' k = lookup vals k).
Proof. exact clock_edge_ok. Qed.
Print Assumptions C03_clock_edge.

(* ---- over whole runs of an accepted program (HistorySpec.v / HistoryProofs.v) ------------------ *)
(* every bank register holds its default in cycle 0, does not change during a cycle, and after each
   clock edge holds its default (bubble), its old value (stall, no bubble) or its input's value;
   each bank depends only on its own stall and bubble *)
Theorem C03_bank_history : HistorySpec.stmt_bank_history.
Proof. exact HistoryProofs.bank_history_holds. Qed.
Print Assumptions C03_bank_history.
(* the hypotheses hold for every program Program::new accepts, on every well-formed image *)
Theorem C03_history_hypotheses_hold_for_accepted_programs : HistorySpec.stmt_accepted_run_of.
Proof. exact HistoryProofs.accepted_run_of_holds. Qed.
Print Assumptions C03_history_hypotheses_hold_for_accepted_programs.

(* ---- END TO END, from the program TEXT (TextLevelSpec.v / TextLevelProofs.v): the user's file (valid
   UTF-8) after the compiled preamble, lexed with any Unicode classification, parsed with the compiled
   tier table, built with the compiled component table; states = those reachable by loading an
   image and stepping.  No hypothesis a user cannot check by reading the file. ------------------- *)
Theorem C03_text_level :
  TextLevelSpec.stmt_text_run_is_run_of /\ TextLevelSpec.stmt_text_run_states_reachable /\ TextLevelSpec.stmt_text_bank_history.
Proof.
  split; [exact TextLevelProofs.text_run_is_run_of_holds |].
  split; [exact TextLevelProofs.text_run_states_reachable_holds | exact TextLevelProofs.text_bank_history_holds].
Qed.
Print Assumptions C03_text_level.
