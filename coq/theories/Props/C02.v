(* C02 - expression operators compute the HCL-defined function at every width.
   Property theorems only; proofs live in ExprProofs.v.  The HCL-defined function is
   ExprSpec.den: plain arithmetic on unbounded numbers at the checker's width (ExprSpec.sw),
   written without masks, wrapping primitives, dynamic widths or error plumbing. *)
From HclV Require Import Base Expr ExprSpec ExprLemmas ExprProofs.
Open Scope N_scope.

(* every accepted expression, in every environment that agrees with the declarations,
   evaluates - when it evaluates (division by zero aside) - to the value HCL defines *)
Theorem C02_eval_den :
  forall f G C rho e w v,
    wf_expr e -> env_ok G rho -> check f G C e = Ok w ->
    eval f rho e = Ok v -> bits v = den f G rho e.
Proof. exact eval_den. Qed.
Print Assumptions C02_eval_den.

(* ... at the width the checker assigned, in which it fits; the only failure is division by zero *)
Theorem C02_value_at_checker_width :
  forall f G C rho e w,
    wf_expr e -> env_ok G rho -> check f G C e = Ok w ->
    match eval f rho e with
    | Ok v => wd v = w /\ bits v < 2 ^ nbits w
    | Err es => div_zero_only es
    end.
Proof. exact eval_sound. Qed.
Print Assumptions C02_value_at_checker_width.

(* the checker's width is the static width used by the denotation *)
Theorem C02_checker_width_is_static_width :
  forall f G C rho e w,
    wf_expr e -> env_ok G rho -> check f G C e = Ok w ->
    dynw f rho e = w /\ sw f G e = w /\ wf_width w.
Proof. exact check_width. Qed.
Print Assumptions C02_checker_width_is_static_width.

(* a value stored on a wire is the result truncated to the declared width *)
Theorem C02_assign_truncates :
  forall dw v, wf_width dw ->
    bits (as_width dw v) = bits v mod 2 ^ nbits dw /\ wd (as_width dw v) = dw.
Proof. exact assign_truncates. Qed.
Print Assumptions C02_assign_truncates.

(* non-vacuity and the cases the property names, computed by the model itself *)
Definition env1 : list (string * wval) :=
  [("c"%string, mkV 0 (Bits 1)); ("z"%string, mkV 0x5A (Bits 8)); ("x"%string, mkV 0xB (Bits 4));
   ("q"%string, mkV (2 ^ 64) (Bits 65))].
Definition G1 (n : string) : option width := option_map wd (lookup env1 n).
Definition F1 : features := mkF true false true true true.
Definition mux1 : expr :=
  EMux (ACons (EWire "c") (EWire "z") (ACons (EConst (mkV 1 Unl)) (EConst (mkV 200 Unl)) ANil)).

Example C02_mux_unsized_default_adopts_width :
  check F1 G1 (fun _ => None) (EBin Add mux1 (EWire "x")) = Ok (Bits 8) /\
  eval F1 (lookup env1) (EBin Add mux1 (EWire "x")) = Ok (mkV 0xD3 (Bits 8)) /\
  den F1 G1 (lookup env1) (EBin Add mux1 (EWire "x")) = 0xD3.
Proof. vm_compute. repeat split; reflexivity. Qed.

Example C02_wraps_at_65_bits :
  eval F1 (lookup env1) (EBin Add (EWire "q") (EWire "q")) = Ok (mkV 0 (Bits 65)) /\
  eval F1 (lookup env1) (EUn Negate (EWire "q")) = Ok (mkV (2 ^ 64) (Bits 65)) /\
  eval F1 (lookup env1) (EBin LeftShift (EWire "q") (EConst (mkV 128 Unl))) = Ok (mkV 0 (Bits 65)).
Proof. vm_compute. repeat split; reflexivity. Qed.
