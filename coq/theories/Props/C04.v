(* C04 - the Y86 register file reads old values, writes at cycle end, M port wins. *)
From HclV Require Import Base Expr Machine MachineSpec MachineProofs Generated.
From HclV Require TextLevelSpec TextLevelProofs.
From HclV Require HistorySpec HistoryProofs.
Open Scope string_scope.
Open Scope N_scope.

(* a read port delivers the current content of the selected register; nothing else changes *)
Theorem C04_read_port :
  forall f o num outp s nv,
    lookup (values s) num = Some nv ->
    exists t, exec_action f o (AReadReg num outp) s =
      Ok (set_values s (upd (values s) outp (mkV (rf_read (regs s) (bits nv mod two64)) (Bits 64))), t).
Proof. exact read_reg_ok. Qed.
Print Assumptions C04_read_port.

(* a write port writes the selected register - never number 15 - and nothing else *)
Theorem C04_write_port :
  forall f o num inp s nv iv,
    lookup (values s) num = Some nv -> lookup (values s) inp = Some iv ->
    exists t, exec_action f o (AWriteReg num inp) s =
      Ok (mkState (values s) (mem s) (rf_write (regs s) (bits nv mod two64) (bits iv))
                  (last_status s) (cycle s), t).
Proof. exact write_reg_ok. Qed.
Print Assumptions C04_write_port.

Theorem C04_register_file_laws :
  forall rf n v k, List.length rf = 16%nat ->
    List.length (rf_write rf n v) = 16%nat /\
    (n < 15 -> rf_read (rf_write rf n v) n = v mod two64) /\
    (k <> n -> rf_read (rf_write rf n v) k = rf_read rf k) /\
    (rf_read (rf_write rf 15 v) k = rf_read rf k) /\
    (16 <= k -> rf_read rf k = 0).
Proof. exact rf_laws_ok. Qed.
Print Assumptions C04_register_file_laws.

(* E port first, then M port: the M port wins when both select the same register *)
Theorem C04_M_wins :
  forall rf e m vE vM, List.length rf = 16%nat -> m < 15 ->
    rf_read (rf_write (rf_write rf e vE) m vM) m = vM mod two64.
Proof. exact M_wins_ok. Qed.
Print Assumptions C04_M_wins.

(* register 15 reads 0 initially and forever *)
Theorem C04_reg15 :
  rf_read (repeat 0 16) 15 = 0 /\
  forall rf n v, List.length rf = 16%nat -> rf_read rf 15 = 0 -> rf_read (rf_write rf n v) 15 = 0.
Proof. exact reg15_zero_ok. Qed.
Print Assumptions C04_reg15.

(* reads see the start-of-cycle registers: no action before the write ports changes them *)
Theorem C04_reads_see_cycle_start :
  forall f o acts s s' t,
    exec_actions f o acts s = Ok (s', t) ->
    (forall a, In a acts -> is_effect a = false) ->
    regs s' = regs s.
Proof.
  intros f o acts s s' t H Hne.
  destruct (actions_frame_ok f o acts s s' t H) as [_ [_ Hst]].
  destruct (Hst Hne) as [_ [Hr _]]. exact Hr.
Qed.
Print Assumptions C04_reads_see_cycle_start.

(* the tie to the code: in the built-in component table of the compiled implementation the
   E write port comes before the M write port (re-checked on every run against Generated.v) *)
Definition write_ports (t : list fixed_fn) : list (string * string) :=
  flat_map (fun ff => match ff_action ff with AWriteReg n i => [(n, i)] | _ => [] end) t.

Theorem C04_table_E_before_M :
  write_ports gen_fixed = [("reg_dstE", "reg_inputE"); ("reg_dstM", "reg_inputM")].
Proof. vm_compute. reflexivity. Qed.
Print Assumptions C04_table_E_before_M.

(* ---- over whole runs of an accepted program (HistorySpec.v / HistoryProofs.v): registers start at
   0; each cycle applies the E write then the M write of that cycle's port values; reads see the
   start-of-cycle content; closed form: a register holds the value last written to it, else 0;
   register 15 reads 0 throughout *)
Theorem C04_register_file_history : HistorySpec.stmt_regfile_history.
Proof. exact HistoryProofs.regfile_history_holds. Qed.
Print Assumptions C04_register_file_history.

(* ---- END TO END, from the program TEXT (TextLevelSpec.v / TextLevelProofs.v): the user's file (valid
   UTF-8) after the compiled preamble, lexed with any Unicode classification, parsed with the compiled
   tier table, built with the compiled component table; states = those reachable by loading an
   image and stepping.  No hypothesis a user cannot check by reading the file. ------------------- *)
Theorem C04_text_level : TextLevelSpec.stmt_text_ports_scheduled /\ TextLevelSpec.stmt_text_regfile_history.
Proof. split; [exact TextLevelProofs.text_ports_scheduled_holds | exact TextLevelProofs.text_regfile_history_holds]. Qed.
Print Assumptions C04_text_level.
