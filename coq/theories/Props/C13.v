(* C13 - any input text yields diagnostics or a run, never a crash or a hang.
   What is proved: every piece of hclrs-authored code around the LALRPOP automaton is total in
   the model - the Rust code's panics (unwrap, assert, slicing, arithmetic) are explicit error
   values of the model, and the theorems say they are unreachable. *)
From HclV Require Diag DiagSpec DiagProofs FullDiagSpec FullDiagProofs.
From HclV Require Import Base Yo Region RegionSpec RegionProofs Graph GraphSpec GraphProofs
                         Expr ExprRules ExprRulesProofs YoSpec YoProofs
                         Machine Build BuildSpec Lexer Parser LexParseSpec Generated FrontTotalSpec FrontTotalProofs.
Open Scope list_scope.
Open Scope N_scope.

(* rendering a diagnostic never panics, for ARBITRARY offsets (the offsets LALRPOP's error
   recovery hands over are not modelled): every slice is in range and on a character boundary,
   no subtraction underflows, also at the very end of the text and inside multi-byte characters *)
Theorem C13_render_total :
  forall pre user fname s e,
    wf_text pre -> wf_text user ->
    show_region (new_from_data pre user fname) s e <> None.
Proof. exact show_region_total_ok. Qed.
Print Assumptions C13_render_total.

(* the dependency sorter never panics: Kahn's counters do not underflow, the cycle search always
   finds the cycle it is asked for, both loops end within their fuel - for every hash order *)
Theorem C13_sorter_total :
  forall (node : Type) (eqb : node -> node -> bool),
    (forall a b, eqb a b = true <-> a = b) ->
    forall g, wf_graph node g ->
      (has_cycle node eqb g -> exists c, toposort node eqb g = Ok (inr c)) /\
      (~ has_cycle node eqb g -> exists order, toposort node eqb g = Ok (inl order)).
Proof.
  intros node eqb Hspec g Hwf.
  destruct (toposort_exact node eqb Hspec g Hwf) as [H1 H2]. split.
  - intros Hc. destruct (H1 Hc) as (c & Hc1 & _). exists c. exact Hc1.
  - intros Hn. destruct (H2 Hn) as (o & Ho & _). exists o. exact Ho.
Qed.
Print Assumptions C13_sorter_total.

(* a rejected expression always carries a diagnostic *)
Theorem C13_reject_has_diag :
  forall f G C e es, check f G C e = Err es -> es <> [].
Proof. exact reject_has_diag. Qed.
Print Assumptions C13_reject_has_diag.

(* ---- the front end is total (FrontTotalSpec.v / FrontTotalProofs.v) ------------------------- *)

(* the lexer: the fuel the model passes to its loops is never exhausted (any larger fuel gives the
   same answer), for every classification of non-ASCII characters and ARBITRARY bytes *)
Theorem C13_lexer_fuel_never_runs_out :
  forall uc bytes f1 f2,
    (S (List.length bytes) <= f1)%nat -> (S (List.length bytes) <= f2)%nat ->
    lex_loop uc f2 bytes (List.length bytes) (char_indices f1 bytes 0) [] = lex uc bytes.
Proof. exact lex_fuel_holds. Qed.
Print Assumptions C13_lexer_fuel_never_runs_out.

(* every lexer step that yields a token or an error consumes input: the token loop terminates *)
Theorem C13_lexer_progress : stmt_lex_next_progress.
Proof. exact lex_next_progress_holds. Qed.
Print Assumptions C13_lexer_progress.

(* every token is a non-empty range of the text, tokens come in text order without overlap, and a
   lexical error points into the text (so that rendering it is covered by C13_render_total) *)
Theorem C13_lexer_spans_in_range :
  forall uc bytes toks err, lex uc bytes = (toks, err) ->
    (forall t, In t toks -> (tok_start t < tok_end t)%nat /\ (tok_end t <= List.length bytes)%nat) /\
    (forall i j ti tj, nth_error toks i = Some ti -> nth_error toks j = Some tj -> (i < j)%nat ->
       (tok_end ti <= tok_start tj)%nat) /\
    (forall e, err = Some e ->
       lex_error_in_range (List.length bytes) e /\
       forall t, In t toks -> (tok_end t <= lex_error_start e)%nat).
Proof. exact lex_spans_holds. Qed.
Print Assumptions C13_lexer_spans_in_range.

(* the parser: a None of Parser.parse is a syntax error, never fuel exhaustion - whatever larger
   fuels are given to the statement level and to the statement loop, the answer is the same *)
Theorem C13_parser_fuel_never_runs_out :
  forall toks (sf : nat -> nat) fuel,
    (forall n, (20 * S n <= sf n)%nat) -> (S (List.length toks) <= fuel)%nat ->
    ps_with doc_tiers sf fuel toks false [] = parse doc_tiers toks.
Proof. apply parse_fuel_irrelevant_holds. vm_compute. repeat constructor. Qed.
Print Assumptions C13_parser_fuel_never_runs_out.

(* which diagnostics the checker and the evaluator can produce: never an internal error *)
Theorem C13_checker_and_evaluator_error_kinds : stmt_check_error_kinds /\ stmt_eval_error_kinds.
Proof. split; [exact check_error_kinds_holds | exact eval_error_kinds_holds]. Qed.
Print Assumptions C13_checker_and_evaluator_error_kinds.

(* Program::new, for EVERY statement list (no well-formedness assumed), every option set, every
   character classification and the component table of the compiled code: a failure is a
   non-empty list of user diagnostics - no unwrap on a missing constant, no counter underflow in
   the sorter, no "find_cycle() called when no cycle present", no fuel exhaustion *)
Theorem C13_builder_never_fails_internally :
  forall f is_lower is_upper stmts es,
    build_program f gen_fixed is_lower is_upper stmts = Err es ->
    es <> [] /\ (forall e, In e es -> ek e <> Panicked /\ ek e <> OutOfFuel).
Proof. exact build_no_internal_error_gen_holds. Qed.
Print Assumptions C13_builder_never_fails_internally.

(* the draft for an arbitrary component table is false (a table listing an input twice makes the
   sorter panic): the condition that matters is stated and holds of the compiled table *)
Theorem C13_builder_total_needs_distinct_table : ~ stmt_build_no_internal_error_any_table.
Proof. exact build_no_internal_error_any_table_refuted. Qed.
Print Assumptions C13_builder_total_needs_distinct_table.

(* the panics and asserts of preprocess_fixed / assignments_to_actions that the model has no
   branch for are unreachable at the point where Program::new calls the scheduler *)
Theorem C13_scheduler_asserts_hold : stmt_scheduler_asserts /\ stmt_scheduler_call_hyps /\ stmt_preprocess_fixed_guards.
Proof. split; [exact scheduler_asserts_holds | split; [exact scheduler_call_hyps_holds | exact preprocess_fixed_guards_holds]]. Qed.
Print Assumptions C13_scheduler_asserts_hold.

(* text -> tokens -> statements -> program: every byte sequence is rejected by the lexer or the
   parser, accepted, or rejected by Program::new with at least one user diagnostic *)
Theorem C13_front_end_total :
  forall uc f is_lower is_upper (bytes : list N),
    parse_text uc doc_tiers bytes = None \/
    exists stmts, parse_text uc doc_tiers bytes = Some stmts /\
      ((exists p, build_program f gen_fixed is_lower is_upper stmts = Ok p) \/
       (exists es, build_program f gen_fixed is_lower is_upper stmts = Err es /\ es <> [] /\ user_errors es)).
Proof. exact front_end_total_holds. Qed.
Print Assumptions C13_front_end_total.

(* ---- "... including while rendering the diagnostics themselves" (Diag.v / DiagSpec.v /
   DiagProofs.v: an executable model of Error::format_for_contents, errors.rs, whose text is
   compared with the real renderer's on every rejected program of the checks) ------------------- *)
(* rendering an error fails (= the Rust renderer would panic: slicing, indexing, unwrap) exactly
   when the error is not [renderable]: a mux error with fewer widths than options, an
   ExtraToken / UnrecognizedToken location off a character boundary or beyond the text, a
   malformed expected-token string.  Everything else renders unconditionally. *)
Theorem C13_rendering_fails_exactly_when_not_renderable :
  DiagSpec.stmt_render_total /\ DiagSpec.stmt_render_total_converse /\ DiagSpec.stmt_render_all_total.
Proof.
  split; [exact DiagProofs.render_total_holds |].
  split; [exact DiagProofs.render_total_converse_holds | exact DiagProofs.render_all_total_holds].
Qed.
Print Assumptions C13_rendering_fails_exactly_when_not_renderable.
(* what the front end hands to the renderer is renderable: token and parser spans of a valid UTF-8
   text lie inside it on character boundaries, also at end of input; LALRPOP's expected-token
   strings (the 36 observed) are well formed *)
Theorem C13_front_end_locations_are_renderable :
  DiagSpec.stmt_token_offsets_on_boundaries /\ DiagSpec.stmt_token_locations_renderable /\
  DiagSpec.stmt_parser_spans_on_boundaries /\ DiagSpec.stmt_lalrpop_terminals_ok /\
  DiagSpec.stmt_format_token_list_total.
Proof.
  split; [exact DiagProofs.token_offsets_on_boundaries_holds |].
  split; [exact DiagProofs.token_locations_renderable_holds |].
  split; [exact DiagProofs.parser_spans_on_boundaries_holds |].
  split; [exact DiagProofs.lalrpop_terminals_ok_holds | exact DiagProofs.format_token_list_total_holds].
Qed.
Print Assumptions C13_front_end_locations_are_renderable.
(* "at least one 'error:' diagnostic ... never reports an internal error": every rendered error
   begins with "error: ", consists of whole lines beginning with "error: " or seven blanks plus
   region blocks, ends with a line feed; the words "Internal parser error" / "parser bug" are
   written for the (never constructed) variant InternalParserErrorNear only *)
Theorem C13_rendered_text_shape :
  DiagSpec.stmt_render_starts_with_error /\ DiagSpec.stmt_region_text_shape /\ DiagSpec.stmt_render_all_blocks /\
  DiagSpec.stmt_no_internal_error_text /\ DiagSpec.stmt_internal_error_text_present.
Proof.
  split; [exact DiagProofs.render_starts_with_error_holds |].
  split; [exact DiagProofs.region_text_shape_holds |].
  split; [exact DiagProofs.render_all_blocks_holds |].
  split; [exact DiagProofs.no_internal_error_text_holds | exact DiagProofs.internal_error_text_present_holds].
Qed.
Print Assumptions C13_rendered_text_shape.

(* ---- the complete text on standard error, computed from the program text alone (FullDiag*.v):
   lexer error / grammar diagnostics / builder and checker diagnostics with ALL their fields
   (widths, hints, component names, input lists), rendered by the model of format_for_contents -- *)
(* every error the model front end produces - on any statement list - is renderable (in
   particular a mux width error carries exactly one width per option: the invariant the renderer
   relies on), so producing the diagnostics never fails; with the compiled component table no
   internal error value is ever produced and a rejection has at least one diagnostic *)
Theorem C13_every_produced_diagnostic_renders :
  FullDiagSpec.stmt_full_errors_renderable /\ FullDiagSpec.stmt_mux_widths_complete /\
  FullDiagSpec.stmt_front_stderr_total /\ FullDiagSpec.stmt_full_no_internal_gen.
Proof.
  split; [exact FullDiagProofs.full_errors_renderable_holds |].
  split; [exact FullDiagProofs.mux_widths_complete_holds |].
  split; [exact FullDiagProofs.front_stderr_total_holds | exact FullDiagProofs.full_no_internal_gen_holds].
Qed.
Print Assumptions C13_every_produced_diagnostic_renders.
(* accepted: nothing is written; rejected: a non-empty text, one block per error in order, each
   starting with "error: " and ending with a line feed; and the text is empty exactly when lexer,
   parser and builder accept *)
Theorem C13_standard_error_text_shape :
  FullDiagSpec.stmt_front_stderr_blocks /\ FullDiagSpec.stmt_front_errors_accepts.
Proof. split; [exact FullDiagProofs.front_stderr_blocks_holds | exact FullDiagProofs.front_errors_accepts_holds]. Qed.
Print Assumptions C13_standard_error_text_shape.
