(* C13 - any input text yields diagnostics or a run, never a crash or a hang.
   What is proved: every piece of hclrs-authored code around the LALRPOP automaton is total in
   the model - the Rust code's panics (unwrap, assert, slicing, arithmetic) are explicit error
   values of the model, and the theorems say they are unreachable. *)
From HclV Require Import Base Yo Region RegionSpec RegionProofs Graph GraphSpec GraphProofs
                         Expr ExprRules ExprRulesProofs YoSpec YoProofs.
Open Scope list_scope.
Open Scope N_scope.

(* rendering a diagnostic never panics, for ARBITRARY offsets (the offsets LALRPOP's error
   recovery hands over are not modelled): every slice is in range and on a character boundary,
   no subtraction underflows, also at the very end of the text and inside multi-byte characters *)
Theorem C13_render_total :
  forall pre user fname s e,
    wf_text pre -> wf_text user ->
    show_region (new_from_data pre user fname) s e <> None.
Proof. exact show_region_total_ok. Qed.
Print Assumptions C13_render_total.

(* the dependency sorter never panics: Kahn's counters do not underflow, the cycle search always
   finds the cycle it is asked for, both loops end within their fuel - for every hash order *)
Theorem C13_sorter_total :
  forall (node : Type) (eqb : node -> node -> bool),
    (forall a b, eqb a b = true <-> a = b) ->
    forall g, wf_graph node g ->
      (has_cycle node eqb g -> exists c, toposort node eqb g = Ok (inr c)) /\
      (~ has_cycle node eqb g -> exists order, toposort node eqb g = Ok (inl order)).
Proof.
  intros node eqb Hspec g Hwf.
  destruct (toposort_exact node eqb Hspec g Hwf) as [H1 H2]. split.
  - intros Hc. destruct (H1 Hc) as (c & Hc1 & _). exists c. exact Hc1.
  - intros Hn. destruct (H2 Hn) as (o & Ho & _). exists o. exact Ho.
Qed.
Print Assumptions C13_sorter_total.

(* a rejected expression always carries a diagnostic *)
Theorem C13_reject_has_diag :
  forall f G C e es, check f G C e = Err es -> es <> [].
Proof. exact reject_has_diag. Qed.
Print Assumptions C13_reject_has_diag.
