(* C10 - combinational loops are detected exactly, and the reported loop is real.
   Graph level: Graph.toposort (Kahn + find_cycle) for EVERY presentation of a graph, i.e.
   for every iteration order the randomly seeded hash sets can produce.
   Proofs live in GraphProofs.v. *)
From HclV Require Import Base Expr Machine Graph GraphSpec GraphProofs Build BuildSpec Generated LoopSpec LoopProofs.
From HclV Require TextLevelSpec TextLevelProofs.
Open Scope N_scope.

Section C10.
  Variable node : Type.
  Variable eqb : node -> node -> bool.
  Hypothesis eqb_spec : forall a b, eqb a b = true <-> a = b.

  (* exact detection: a cycle is reported iff there is one; a reported cycle is a real cycle
     (consecutive elements are edges, the last closes on the first); otherwise the answer is a
     linear extension of the dependency relation *)
  Theorem C10_exact :
    forall g, wf_graph node g ->
      (has_cycle node eqb g ->
         exists c, toposort node eqb g = Ok (inr c) /\ is_cycle node eqb g c = true) /\
      (~ has_cycle node eqb g ->
         exists order, toposort node eqb g = Ok (inl order) /\ linear_extension node eqb g order).
  Proof. exact (toposort_exact node eqb eqb_spec). Qed.

  Theorem C10_reported_cycle_is_real :
    forall g c, wf_graph node g -> toposort node eqb g = Ok (inr c) -> is_cycle node eqb g c = true.
  Proof. exact (cycle_answer_sound node eqb eqb_spec). Qed.

  Theorem C10_order_means_acyclic :
    forall g order, wf_graph node g -> toposort node eqb g = Ok (inl order) ->
      linear_extension node eqb g order /\ ~ has_cycle node eqb g.
  Proof.
    intros g order Hwf H. split.
    - exact (order_valid node eqb eqb_spec g order Hwf H).
    - exact (order_implies_acyclic node eqb eqb_spec g order Hwf H).
  Qed.

  (* the panic in find_cycle ("called when no cycle present") is unreachable, whatever the
     iteration order *)
  Theorem C10_find_cycle_total :
    forall g, wf_graph node g -> has_cycle node eqb g -> exists c, find_cycle node eqb g = Ok c.
  Proof. exact (find_cycle_total node eqb eqb_spec). Qed.

  (* Kahn's loop neither underflows its counters nor runs out of fuel *)
  Theorem C10_kahn_total :
    forall g, wf_graph node g ->
      exists order visited,
        kahn_loop node eqb (S (List.length (g_nodes g))) g (init_queue node eqb g)
                  (init_counts node eqb g) [] [] = Ok (order, visited).
  Proof. exact (kahn_total node eqb eqb_spec). Qed.
End C10.

Print Assumptions C10_exact.
Print Assumptions C10_reported_cycle_is_real.
Print Assumptions C10_order_means_acyclic.
Print Assumptions C10_find_cycle_total.
Print Assumptions C10_kahn_total.

(* non-vacuity: two presentations of the same cyclic graph, and an acyclic one *)
Example C10_ex1 :
  toposortN (mkGraph [0; 2; 3; 1; 4] [(0, [1; 3]); (2, [0]); (3, [4]); (1, [2])] 5) = Ok (inr [0; 1; 2]) /\
  toposortN (mkGraph [4; 1; 0; 3; 2] [(1, [2]); (0, [3; 1]); (3, [4]); (2, [0])] 5) = Ok (inr [1; 2; 0]) /\
  toposortN (mkGraph [1; 3; 0; 2] [(1, [2]); (0, [2; 1]); (2, [3])] 4) = Ok (inl [0; 1; 2; 3]).
Proof. vm_compute. repeat split; reflexivity. Qed.

(* ---- program level (LoopSpec.v / LoopProofs.v): the same facts about Program::new, stated over
   the statement list in the property's own vocabulary: `reads_directly` = an assignment mentions
   the wire (register-bank outputs and constants excluded) or a built-in component in use leads
   from the wire to its output; components without output and register banks contribute nothing *)
Section C10_program.
  Variable f : features.
  Variable is_lower : string -> bool.
  Variable is_upper : string -> bool.
  Notation build := (build_program f gen_fixed is_lower is_upper).

  (* the chain printed in the diagnostic is an actual cycle of the program: non-empty, each named
     wire reads the previous one and the first reads the last; and it is the only diagnostic *)
  Theorem C10_reported_chain_is_a_cycle_of_the_program :
    forall stmts es c,
      build stmts = Err es -> In (mkErr WireLoop c) es ->
      es = [mkErr WireLoop c] /\ c <> [] /\ (wire_cycle gen_fixed stmts c \/ const_cycle stmts c).
  Proof. exact (loop_report_is_real_holds f gen_fixed is_lower is_upper). Qed.

  (* an accepted program has no wire and no constant that depends on itself *)
  Theorem C10_accepted_program_is_acyclic :
    forall stmts p, build stmts = Ok p ->
      (forall w, ~ depends_on gen_fixed stmts w w) /\ (forall k, ~ const_depends_on stmts k k) /\
      (forall c, ~ wire_cycle gen_fixed stmts c) /\ (forall c, ~ const_cycle stmts c).
  Proof. exact (accepted_is_acyclic_holds f gen_fixed is_lower is_upper gen_fixed_distinct). Qed.

  (* a program in which some wire depends on itself is rejected - with the circular-dependency
     diagnostic, unless a pass that runs before the sorter has something to report (the kinds are
     listed in LoopSpec.decl_diag / mid_diag; Panicked and OutOfFuel are not among them) *)
  Theorem C10_cyclic_program_is_rejected :
    stmt_cyclic_is_rejected_with_loop f gen_fixed is_lower is_upper.
  Proof. exact (cyclic_is_rejected_with_loop_holds f gen_fixed is_lower is_upper). Qed.

  (* exactly when the rejection is the circular-dependency diagnostic *)
  Theorem C10_wire_loop_exact : stmt_wire_loop_exact f gen_fixed is_lower is_upper.
  Proof. exact (wire_loop_exact_holds f gen_fixed is_lower is_upper). Qed.

  (* once the builder gets as far as sorting, "rejected for circular dependency" and "some wire
     depends on itself through a chain of assignments and combinational built-in paths" coincide *)
  Theorem C10_wire_loop_iff_self_dependence :
    forall stmts, reaches_wire_sort f gen_fixed is_lower is_upper stmts ->
      ((exists c, build stmts = Err [mkErr WireLoop c] /\ wire_cycle gen_fixed stmts c) <->
       (exists w, depends_on gen_fixed stmts w w)).
  Proof. exact (wire_loop_iff_self_dependence_holds f gen_fixed is_lower is_upper gen_fixed_distinct). Qed.

  (* constant definitions are treated the same way *)
  Theorem C10_const_loop_iff_self_dependence :
    stmt_const_loop_iff_self_dependence f gen_fixed is_lower is_upper.
  Proof. exact (const_loop_iff_self_dependence_holds f gen_fixed is_lower is_upper). Qed.
End C10_program.

Print Assumptions C10_reported_chain_is_a_cycle_of_the_program.
Print Assumptions C10_accepted_program_is_acyclic.
Print Assumptions C10_cyclic_program_is_rejected.
Print Assumptions C10_wire_loop_exact.
Print Assumptions C10_wire_loop_iff_self_dependence.
Print Assumptions C10_const_loop_iff_self_dependence.

(* the "never count" clause and the three combinational built-in paths, computed on the compiled
   table: feedback through a register bank / the register-file write port / the memory write
   port is accepted; reg_srcA -> reg_outputA, pc -> i10bytes, mem_addr -> mem_output are loops *)
Check ex_bank_accepted. Check ex_regwrite_accepted. Check ex_memwrite_accepted.
Check ex_srcA_rejected. Check ex_pc_rejected. Check ex_mem_rejected. Check ex_const_rejected.

(* ---- END TO END, from the program TEXT (TextLevelSpec.v / TextLevelProofs.v): the user's file (valid
   UTF-8) after the compiled preamble, lexed with any Unicode classification, parsed with the compiled
   tier table, built with the compiled component table; states = those reachable by loading an
   image and stepping.  No hypothesis a user cannot check by reading the file. ------------------- *)
Theorem C10_text_level : TextLevelSpec.stmt_text_accepted_is_acyclic /\ TextLevelSpec.stmt_text_cyclic_is_rejected.
Proof. split; [exact TextLevelProofs.text_accepted_is_acyclic_holds | exact TextLevelProofs.text_cyclic_is_rejected_holds]. Qed.
Print Assumptions C10_text_level.
