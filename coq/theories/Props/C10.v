(* C10 - combinational loops are detected exactly, and the reported loop is real.
   Graph level: Graph.toposort (Kahn + find_cycle) for EVERY presentation of a graph, i.e.
   for every iteration order the randomly seeded hash sets can produce.
   Proofs live in GraphProofs.v. *)
From HclV Require Import Base Graph GraphSpec GraphProofs.
Open Scope N_scope.

Section C10.
  Variable node : Type.
  Variable eqb : node -> node -> bool.
  Hypothesis eqb_spec : forall a b, eqb a b = true <-> a = b.

  (* exact detection: a cycle is reported iff there is one; a reported cycle is a real cycle
     (consecutive elements are edges, the last closes on the first); otherwise the answer is a
     linear extension of the dependency relation *)
  Theorem C10_exact :
    forall g, wf_graph node g ->
      (has_cycle node eqb g ->
         exists c, toposort node eqb g = Ok (inr c) /\ is_cycle node eqb g c = true) /\
      (~ has_cycle node eqb g ->
         exists order, toposort node eqb g = Ok (inl order) /\ linear_extension node eqb g order).
  Proof. exact (toposort_exact node eqb eqb_spec). Qed.

  Theorem C10_reported_cycle_is_real :
    forall g c, wf_graph node g -> toposort node eqb g = Ok (inr c) -> is_cycle node eqb g c = true.
  Proof. exact (cycle_answer_sound node eqb eqb_spec). Qed.

  Theorem C10_order_means_acyclic :
    forall g order, wf_graph node g -> toposort node eqb g = Ok (inl order) ->
      linear_extension node eqb g order /\ ~ has_cycle node eqb g.
  Proof.
    intros g order Hwf H. split.
    - exact (order_valid node eqb eqb_spec g order Hwf H).
    - exact (order_implies_acyclic node eqb eqb_spec g order Hwf H).
  Qed.

  (* the panic in find_cycle ("called when no cycle present") is unreachable, whatever the
     iteration order *)
  Theorem C10_find_cycle_total :
    forall g, wf_graph node g -> has_cycle node eqb g -> exists c, find_cycle node eqb g = Ok c.
  Proof. exact (find_cycle_total node eqb eqb_spec). Qed.

  (* Kahn's loop neither underflows its counters nor runs out of fuel *)
  Theorem C10_kahn_total :
    forall g, wf_graph node g ->
      exists order visited,
        kahn_loop node eqb (S (List.length (g_nodes g))) g (init_queue node eqb g)
                  (init_counts node eqb g) [] [] = Ok (order, visited).
  Proof. exact (kahn_total node eqb eqb_spec). Qed.
End C10.

Print Assumptions C10_exact.
Print Assumptions C10_reported_cycle_is_real.
Print Assumptions C10_order_means_acyclic.
Print Assumptions C10_find_cycle_total.
Print Assumptions C10_kahn_total.

(* non-vacuity: two presentations of the same cyclic graph, and an acyclic one *)
Example C10_ex1 :
  toposortN (mkGraph [0; 2; 3; 1; 4] [(0, [1; 3]); (2, [0]); (3, [4]); (1, [2])] 5) = Ok (inr [0; 1; 2]) /\
  toposortN (mkGraph [4; 1; 0; 3; 2] [(1, [2]); (0, [3; 1]); (3, [4]); (2, [0])] 5) = Ok (inr [1; 2; 0]) /\
  toposortN (mkGraph [1; 3; 0; 2] [(1, [2]); (0, [2; 1]); (2, [3])] 4) = Ok (inl [0; 1; 2; 3]).
Proof. vm_compute. repeat split; reflexivity. Qed.
