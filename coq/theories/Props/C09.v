(* C09 - every wire has exactly one driver, or the program is rejected.
   What acceptance by Program::new (Build.build_program) guarantees, over the statement list.
   Proofs live in BuildProofs.v. *)
From HclV Require Import Base Expr ExprSpec Machine Graph Build MachineSpec SchedSpec BuildSpec Generated BuildProofs CompleteSpec CompleteProofs.
From HclV Require TextLevelSpec TextLevelProofs.
From HclV Require FaultDiagSpec FaultDiagProofs DiagSpec DiagProofs.
Open Scope string_scope.
Open Scope list_scope.
Open Scope N_scope.

Section C09.
  Variable f : features.
  Variable fixed : list fixed_fn.
  Variable is_lower : string -> bool.
  Variable is_upper : string -> bool.
  Notation build := (build_program f fixed is_lower is_upper).

  (* an accepted program declares no name twice and none that a built-in component owns *)
  Theorem C09_declared_once :
    forall stmts p, build stmts = Ok p ->
      NoDup (const_names stmts ++ wire_names stmts) /\
      forall n, In n (const_names stmts ++ wire_names stmts) -> ~ In n (fixed_all_names fixed).
  Proof. exact (accept_declared_once_ok f fixed is_lower is_upper). Qed.

  (* ... assigns no name twice, and none that already has a driver: a built-in output, a
     constant, a register-bank output *)
  Theorem C09_assigned_once_and_not_driven :
    forall stmts p, build stmts = Ok p ->
      NoDup (assigned_names stmts) /\
      forall n, In n (assigned_names stmts) ->
        ~ In n (fixed_output_names fixed) /\ ~ In n (const_names stmts) /\ ~ In n (all_outs (p_banks p)).
  Proof. exact (accept_assigned_once_ok f fixed is_lower is_upper). Qed.

  (* ... assigns every declared wire and every register-bank input *)
  Theorem C09_wires_driven :
    forall stmts p, build stmts = Ok p ->
      (forall n, In n (wire_names stmts) -> In n (assigned_names stmts)) /\
      (forall n, In n (all_ins (p_banks p)) -> In n (assigned_names stmts)).
  Proof. exact (accept_wires_driven_ok f fixed is_lower is_upper). Qed.

  (* ... and lets no constant depend on a wire *)
  Theorem C09_constants_closed :
    forall stmts p, build stmts = Ok p ->
      forall n e r, In (n, e) (const_exprs stmts) -> In r (refs e) -> In r (const_names stmts).
  Proof. exact (accept_consts_closed_ok f fixed is_lower is_upper). Qed.

  (* its register banks are well formed (distinct outputs, inputs never outputs, stall/bubble
     never bank signals): the hypothesis of C03's clock-edge theorem *)
  Theorem C09_banks_well_formed :
    forall stmts p, build stmts = Ok p -> banks_wf (p_banks p).
  Proof. exact (accept_banks_wf_ok f fixed is_lower is_upper). Qed.

  (* a rejection is never silent *)
  Theorem C09_reject_has_diag :
    forall stmts es, build stmts = Err es -> es <> [].
  Proof. exact (reject_has_diag_ok f fixed is_lower is_upper). Qed.
End C09.

(* with the built-in table the compiled implementation really contains (Generated.gen_fixed,
   regenerated on every run): everything a scheduled action reads has a unique driver earlier in
   the cycle - the schedule is valid, for every hash order of the sorter *)
Theorem C09_every_read_has_one_earlier_driver :
  forall f is_lower is_upper stmts p,
    build_program f gen_fixed is_lower is_upper stmts = Ok p ->
    valid_schedule (known0 p) (p_actions p) = true.
Proof.
  intros f il iu stmts p H.
  exact (build_valid_schedule_gen f il iu gen_fixed_ok stmts p H).
Qed.

Print Assumptions C09_declared_once.
Print Assumptions C09_assigned_once_and_not_driven.
Print Assumptions C09_wires_driven.
Print Assumptions C09_constants_closed.
Print Assumptions C09_banks_well_formed.
Print Assumptions C09_reject_has_diag.
Print Assumptions C09_every_read_has_one_earlier_driver.

(* non-vacuity and the faults the property names, computed by the model *)
Definition bp := build_program gen_features gen_fixed ascii_lower ascii_upper.
Definition kinds (r : result program) : list ekind := match r with Ok _ => [] | Err es => map ek es end.
Definition base : list stmt :=
  [SAssign [(["pc"], EConst (mkV 0 (Bits 64))); (["Stat"], EConst (mkV 1 (Bits 3)))]].
Example C09_faults :
  kinds (bp base) = [] /\
  kinds (bp (SConst [("FOO", EConst (mkV 1 Unl))] :: SAssign [(["FOO"], EConst (mkV 2 Unl))] :: base)) = [ConstantAssigned] /\
  kinds (bp (SWire [("x", Bits 8)] :: base)) = [UnsetWire] /\
  kinds (bp (SWire [("x", Bits 8); ("x", Bits 8)] :: SAssign [(["x"], EConst (mkV 0 (Bits 8)))] :: base)) = [RedeclaredWire] /\
  kinds (bp (SAssign [(["i10bytes"], EConst (mkV 0 (Bits 80)))] :: base)) = [DoubleAssignedFixedOutWire] /\
  kinds (bp (SAssign [(["reg_dstE"], EConst (mkV 0 (Bits 4)))] :: base)) = [PartialFixedInput].
Proof. vm_compute. repeat split; reflexivity. Qed.

(* ---- "A program with none of these faults and no width or cycle fault is accepted" ----------
   CompleteSpec.fault_free is a record of clauses written over the statement list only (lists of
   declared / assigned names with multiplicity, refs of expressions, the width judgement
   has_width, evaluation of constant expressions, acyclicity of the reads relations): one clause
   per fault the property lists plus the ones Program::new additionally needs (bank names,
   mandatory Stat and pc).  Proving it found two defects of the pinned code (register initial
   values never width-checked; reading an unassigned stall_X / bubble_X rejected), both repaired *)
Theorem C09_fault_free_program_is_accepted :
  forall f is_lower is_upper stmts,
    fault_free f gen_fixed is_lower is_upper stmts ->
    exists p, build_program f gen_fixed is_lower is_upper stmts = Ok p.
Proof. exact fault_free_accepted_gen_holds. Qed.
Print Assumptions C09_fault_free_program_is_accepted.

(* for every component table whose inputs (per component) and outputs are pairwise distinct *)
Theorem C09_fault_free_program_is_accepted_any_table :
  forall f fixed is_lower is_upper, stmt_fault_free_accepted f fixed is_lower is_upper.
Proof. exact fault_free_accepted_holds. Qed.
Print Assumptions C09_fault_free_program_is_accepted_any_table.

(* and conversely: acceptance is EXACTLY fault freedom (for the compiled component table) *)
Theorem C09_accepted_iff_fault_free :
  forall f is_lower is_upper stmts,
    (exists p, build_program f gen_fixed is_lower is_upper stmts = Ok p) <->
    fault_free f gen_fixed is_lower is_upper stmts.
Proof. exact accepted_iff_fault_free_gen_holds. Qed.
Print Assumptions C09_accepted_iff_fault_free.

(* non-vacuity and tightness (computed on the compiled table): a pipelined program with two banks,
   constants, memory and register file is fault free; for each clause a program violating it is
   rejected; the replay programs of the two repaired defects *)
Check ex_pipeline_fault_free. Check ex_pipeline_accepted. Check f19_replays_rejected. Check f20_replay_accepted.

(* ---- "rejected, WITH A DIAGNOSTIC NAMING THE WIRE" (FaultDiagSpec.v / FaultDiagProofs.v).
   Program::new works in passes, each answering alone when it has something to report.  For every
   fault the property lists: if the statement list has the fault on name n then the program is
   rejected and the diagnostic of the corresponding kind names n - unconditionally for the faults of
   the first pass, and otherwise unless an earlier pass answered (the alternative lists the kinds of
   that pass).  All for the component table of the compiled code ------------------------------ *)
Section C09_diagnosed.
  Variable f : features.
  Variable is_lower : string -> bool.
  Variable is_upper : string -> bool.
  Notation S name := (name f gen_fixed is_lower is_upper).

  (* first pass: declared twice, redeclaring a built-in wire, assigned twice, assigning a built-in
     output or a constant, a constant reading a wire / an undeclared name - all reported together *)
  Theorem C09_first_pass_faults_are_diagnosed :
    S FaultDiagSpec.stmt_redeclared_reported /\ S FaultDiagSpec.stmt_redeclared_builtin_reported /\
    S FaultDiagSpec.stmt_double_assigned_reported /\ S FaultDiagSpec.stmt_assigned_builtin_output_reported /\
    S FaultDiagSpec.stmt_assigned_constant_reported /\ S FaultDiagSpec.stmt_const_reads_wire_reported /\
    S FaultDiagSpec.stmt_const_reads_undeclared_reported /\ S FaultDiagSpec.stmt_decl_faults_together /\
    S FaultDiagSpec.stmt_decl_diags_are_real.
  Proof.
    split; [apply FaultDiagProofs.redeclared_reported_holds |].
    split; [apply FaultDiagProofs.redeclared_builtin_reported_holds |].
    split; [apply FaultDiagProofs.double_assigned_reported_holds |].
    split; [apply FaultDiagProofs.assigned_builtin_output_reported_holds |].
    split; [apply FaultDiagProofs.assigned_constant_reported_holds |].
    split; [apply FaultDiagProofs.const_reads_wire_reported_holds |].
    split; [apply FaultDiagProofs.const_reads_undeclared_reported_holds |].
    split; [apply FaultDiagProofs.decl_faults_together_holds |].
    apply FaultDiagProofs.decl_diags_are_real_holds.
  Qed.

  (* register banks and missing assignments: bad bank name, assigned register output, initial
     value reading a wire, bank signal declared as a wire, declared wire / register input never
     assigned *)
  Theorem C09_bank_and_unset_faults_are_diagnosed :
    S FaultDiagSpec.stmt_bank_name_reported /\ S FaultDiagSpec.stmt_assigned_register_output_reported /\
    S FaultDiagSpec.stmt_init_reads_wire_reported /\ S FaultDiagSpec.stmt_register_signal_declared_reported /\
    S FaultDiagSpec.stmt_control_signal_declared_reported /\ S FaultDiagSpec.stmt_unset_wire_reported /\
    S FaultDiagSpec.stmt_unset_register_input_reported /\ S FaultDiagSpec.stmt_bank_pass_together.
  Proof.
    split; [apply FaultDiagProofs.bank_name_reported_holds |].
    split; [apply FaultDiagProofs.assigned_register_output_reported_holds |].
    split; [apply FaultDiagProofs.init_reads_wire_reported_holds |].
    split; [apply FaultDiagProofs.register_signal_declared_reported_holds |].
    split; [apply FaultDiagProofs.control_signal_declared_reported_holds |].
    split; [apply FaultDiagProofs.unset_wire_reported_holds |].
    split; [apply FaultDiagProofs.unset_register_input_reported_holds |].
    apply FaultDiagProofs.bank_pass_together_holds.
  Qed.

  (* built-in components and the scheduler: mandatory input missing, component given some but not
     all inputs (unless switched off by a constant 0), needed output whose inputs are missing, name
     assigned / read without being declared *)
  Theorem C09_component_and_undeclared_faults_are_diagnosed :
    S FaultDiagSpec.stmt_mandatory_input_reported /\ S FaultDiagSpec.stmt_partial_component_reported /\
    FaultDiagSpec.stmt_needed_output_reported_gen /\ FaultDiagSpec.stmt_undeclared_assigned_reported_gen /\
    FaultDiagSpec.stmt_undriven_read_reported_gen /\ S FaultDiagSpec.stmt_component_pass_together /\
    S FaultDiagSpec.stmt_schedule_pass_together.
  Proof.
    split; [apply FaultDiagProofs.mandatory_input_reported_holds |].
    split; [apply FaultDiagProofs.partial_component_reported_holds |].
    split; [apply FaultDiagProofs.needed_output_reported_gen_holds |].
    split; [apply FaultDiagProofs.undeclared_assigned_reported_gen_holds |].
    split; [apply FaultDiagProofs.undriven_read_reported_gen_holds |].
    split; [apply FaultDiagProofs.component_pass_together_holds |].
    apply FaultDiagProofs.schedule_pass_together_holds.
  Qed.

  (* every rejection is the answer of exactly one pass (kinds of one pass only, or one loop) *)
  Theorem C09_rejection_is_one_pass_answer : S FaultDiagSpec.stmt_rejection_classified.
  Proof. apply FaultDiagProofs.rejection_classified_holds. Qed.
End C09_diagnosed.
Print Assumptions C09_first_pass_faults_are_diagnosed.
Print Assumptions C09_bank_and_unset_faults_are_diagnosed.
Print Assumptions C09_component_and_undeclared_faults_are_diagnosed.
Print Assumptions C09_rejection_is_one_pass_answer.

(* ---- "... with a diagnostic NAMING the wire": the text of the diagnostic (DiagSpec.v: the model
   of Error::format_for_contents) contains every name the error carries between single quotes -
   for every variant about a wire, register or bank; the only exception, a list of three or more
   names (quotes lost), cannot arise with the built-in components, which have at most three inputs *)
Theorem C09_diagnostic_text_names_the_wire :
  DiagSpec.stmt_names_the_wire /\ DiagSpec.stmt_names_the_token /\ DiagSpec.stmt_three_names_unquoted /\
  DiagSpec.stmt_fixed_inputs_at_most_three.
Proof.
  split; [exact DiagProofs.names_the_wire_holds |].
  split; [exact DiagProofs.names_the_token_holds |].
  split; [exact DiagProofs.three_names_unquoted_holds | exact DiagProofs.fixed_inputs_at_most_three_holds].
Qed.
Print Assumptions C09_diagnostic_text_names_the_wire.

(* ---- END TO END, from the program TEXT (TextLevelSpec.v / TextLevelProofs.v): the user's file (valid
   UTF-8) after the compiled preamble, lexed with any Unicode classification, parsed with the compiled
   tier table, built with the compiled component table; states = those reachable by loading an
   image and stepping.  No hypothesis a user cannot check by reading the file. ------------------- *)
Theorem C09_text_level : TextLevelSpec.stmt_text_accepted_iff_fault_free /\ TextLevelSpec.stmt_text_single_driver.
Proof. split; [exact TextLevelProofs.text_accepted_iff_fault_free_holds | exact TextLevelProofs.text_single_driver_holds]. Qed.
Print Assumptions C09_text_level.
