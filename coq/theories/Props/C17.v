(* C17 - each strictness option changes exactly the check it names, nothing else. *)
From HclV Require Import Base Expr ExprSpec ExprLemmas ExprProofs ExprRules ExprRulesProofs.
Open Scope N_scope.

(* turning options off never rejects more, and never changes the width assigned *)
Theorem C17_monotone :
  forall a b G C e w,
    wf_expr e -> consts_ok G C -> feat_le a b -> check b G C e = Ok w -> check a G C e = Ok w.
Proof. exact features_monotone. Qed.
Print Assumptions C17_monotone.

(* an expression accepted under two option sets has the same width and the same value under both *)
Theorem C17_same_simulation :
  forall a b G C rho e w w',
    wf_expr e -> env_ok G rho ->
    check a G C e = Ok w -> check b G C e = Ok w' ->
    w = w' /\ eval a rho e = eval b rho e.
Proof. exact features_same_value. Qed.
Print Assumptions C17_same_simulation.

(* acceptance under any of the 32 option sets is derivability in the rule system in which each
   option guards exactly its own premise (ExprRules.has_width: f_sbo in HW_logical, f_swb in
   HW_arith, f_rmd / f_dmd / f_duo in default_rules) *)
Theorem C17_accept_iff :
  forall f G C e w, check f G C e = Ok w <-> has_width f G C e w.
Proof. exact check_iff. Qed.
Print Assumptions C17_accept_iff.
