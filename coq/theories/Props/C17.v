(* C17 - each strictness option changes exactly the check it names, nothing else. *)
From HclV Require Import Base Expr ExprSpec ExprLemmas ExprProofs ExprRules ExprRulesProofs.
From HclV Require TextLevelSpec TextLevelProofs.
From HclV Require Import Machine MachineSpec SchedSpec Build BuildSpec Generated FeatureSpec FeatureProofs.
Open Scope N_scope.

(* turning options off never rejects more, and never changes the width assigned *)
Theorem C17_monotone :
  forall a b G C e w,
    wf_expr e -> consts_ok G C -> feat_le a b -> check b G C e = Ok w -> check a G C e = Ok w.
Proof. exact features_monotone. Qed.
Print Assumptions C17_monotone.

(* an expression accepted under two option sets has the same width and the same value under both *)
Theorem C17_same_simulation :
  forall a b G C rho e w w',
    wf_expr e -> env_ok G rho ->
    check a G C e = Ok w -> check b G C e = Ok w' ->
    w = w' /\ eval a rho e = eval b rho e.
Proof. exact features_same_value. Qed.
Print Assumptions C17_same_simulation.

(* acceptance under any of the 32 option sets is derivability in the rule system in which each
   option guards exactly its own premise (ExprRules.has_width: f_sbo in HW_logical, f_swb in
   HW_arith, f_rmd / f_dmd / f_duo in default_rules) *)
Theorem C17_accept_iff :
  forall f G C e w, check f G C e = Ok w <-> has_width f G C e w.
Proof. exact check_iff. Qed.
Print Assumptions C17_accept_iff.

(* ---- program level (FeatureSpec.v / FeatureProofs.v): statement lists, Program::new with the
   compiled component table, the simulator ------------------------------------------------------- *)
Section C17_program.
  Variable is_lower : string -> bool.
  Variable is_upper : string -> bool.
  Notation build f := (build_program f gen_fixed is_lower is_upper).

  (* turning options off never rejects more and never changes the compiled program *)
  Theorem C17_program_monotone :
    forall a b stmts p,
      feat_le a b -> Forall wf_stmt stmts -> build b stmts = Ok p -> build a stmts = Ok p.
  Proof. exact (program_monotone_holds is_lower is_upper). Qed.

  (* two combinations that both accept compile the SAME program *)
  Theorem C17_same_program_under_two_sets :
    forall a b stmts p p',
      Forall wf_stmt stmts -> build a stmts = Ok p -> build b stmts = Ok p' -> p = p'.
  Proof. exact (program_same_under_two_sets_holds is_lower is_upper). Qed.

  (* the property's first sentence: accepted under f exactly when accepted with every option off
     (the always-on rules) and with each enabled option alone (the rule of that option) *)
  Theorem C17_accepted_iff_always_on_rules_and_each_enabled_option :
    stmt_accepted_iff_each_enabled_option is_lower is_upper.
  Proof. exact (accepted_iff_each_enabled_option_holds is_lower is_upper). Qed.

  (* the property's second sentence: a program accepted under two combinations simulates
     identically under both - same states, same output text, same errors, step and run *)
  Theorem C17_simulates_identically_under_two_sets :
    stmt_simulation_same_under_two_sets is_lower is_upper.
  Proof. exact (simulation_same_under_two_sets_holds is_lower is_upper). Qed.
End C17_program.
Print Assumptions C17_program_monotone.
Print Assumptions C17_same_program_under_two_sets.
Print Assumptions C17_accepted_iff_always_on_rules_and_each_enabled_option.
Print Assumptions C17_simulates_identically_under_two_sets.

(* each option guards its own rule: five programs accepted, for EVERY one of the 32 combinations,
   iff their option is off (the one for disallow-multiple-mux-default: iff that and
   disallow-unreachable-options are off, since the latter's rule implies the former's) *)
Theorem C17_each_option_guards_its_rule :
  stmt_each_option_guards_its_rule sep_sbo sep_swb sep_rmd sep_dmd sep_duo.
Proof. exact each_option_guards_its_rule_holds. Qed.
Print Assumptions C17_each_option_guards_its_rule.
Theorem C17_unreachable_rule_subsumes_single_default_rule : stmt_duo_subsumes_dmd.
Proof. exact duo_subsumes_dmd_holds. Qed.
Print Assumptions C17_unreachable_rule_subsumes_single_default_rule.

(* ---- END TO END, from the program TEXT (TextLevelSpec.v / TextLevelProofs.v): the user's file (valid
   UTF-8) after the compiled preamble, lexed with any Unicode classification, parsed with the compiled
   tier table, built with the compiled component table; states = those reachable by loading an
   image and stepping.  No hypothesis a user cannot check by reading the file. ------------------- *)
Theorem C17_text_level :
  TextLevelSpec.stmt_text_options_only_reject_more /\ TextLevelSpec.stmt_text_simulates_identically_under_two_sets.
Proof.
  split; [exact TextLevelProofs.text_options_only_reject_more_holds | exact TextLevelProofs.text_simulates_identically_under_two_sets_holds].
Qed.
Print Assumptions C17_text_level.
