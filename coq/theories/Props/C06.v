(* C06 - a run stops exactly at the first non-OK status or at the timeout, and says which. *)
From HclV Require Import Base Expr Machine MachineSpec MachineProofs Generated.
From HclV Require TextLevelSpec TextLevelProofs.
Open Scope string_scope.
Open Scope N_scope.

Theorem C06_one_cycle_per_step :
  forall f o p s s' t, step f o p s = Ok (s', t) -> cycle s' = cycle s + 1.
Proof. exact step_cycle_ok. Qed.
Print Assumptions C06_one_cycle_per_step.

(* run executes cycles one at a time and stops in the first state that is done *)
Theorem C06_stops_exactly :
  forall fuel f o p s s' t,
    run fuel f o p s = Ok (s', t) ->
    exists k,
      iter_step k f o p s = Ok s' /\ done o s' = true /\ cycle s' = cycle s + N.of_nat k /\
      (forall j, (j < k)%nat -> exists sj, iter_step j f o p s = Ok sj /\ done o sj = false).
Proof. exact run_stops_exactly_ok. Qed.
Print Assumptions C06_stops_exactly.

(* termination: a fuel equal to the remaining cycle budget always suffices - a failing run
   failed in some step or dump, never by running on *)
Theorem C06_terminates :
  forall fuel f o p s es,
    (N.to_nat (o_timeout o - cycle s) <= fuel)%nat ->
    run fuel f o p s = Err es ->
    exists k sk,
      iter_step k f o p s = Ok sk /\ done o sk = false /\
      (step f o p sk = Err es \/ (o_show_regs_mem o = true /\ dump_y86 o p sk = Err es)).
Proof. exact run_fuel_suffices_ok. Qed.
Print Assumptions C06_terminates.

(* never more than timeout cycles; none with timeout 0 *)
Theorem C06_within_timeout :
  (forall fuel f o p s s' t,
     run fuel f o p s = Ok (s', t) -> cycle s <= o_timeout o -> cycle s' <= o_timeout o) /\
  (forall fuel f o p s, o_timeout o <= cycle s -> run fuel f o p s = Ok (s, "")).
Proof. exact run_within_timeout_ok. Qed.
Print Assumptions C06_within_timeout.

(* the report as a function of the last Stat, the executed cycles and the timeout:
   halt beats timeout beats error *)
Theorem C06_report :
  forall o s, report o s = spec_report (stat_of s) (cycle s) (o_timeout o).
Proof. exact report_spec_ok. Qed.
Print Assumptions C06_report.

Theorem C06_done_iff_reportable :
  forall o s, done o s = match report o s with RRunning => false | _ => true end.
Proof. exact done_spec_ok. Qed.
Print Assumptions C06_done_iff_reportable.

(* the printed header, footer, 'Cycles run' and 'Error code' are those of the report kind, and
   the count printed is the number of cycles simulated *)
Theorem C06_dump_says_which :
  forall o p s text,
    dump_y86 o p s = Ok text ->
    exists banks,
      text = header_of (report o s) (cycle s) ++ nl ++ dump_program_registers (regs s) ++ banks ++
             dump_memory (mem s) ++ footer_of (report o s) ++ nl ++
             tail_of (report o s) (cycle s) (timed_out o s) /\
      (o_show_banks o = false -> banks = "").
Proof. exact dump_report_ok. Qed.
Print Assumptions C06_dump_says_which.

(* tie to the code: the default timeout and the status names of the compiled implementation *)
Theorem C06_tables :
  gen_timeout = o_timeout default_options /\ gen_statuses = y86_statuses /\
  gen_run_flags = [o_trace_assignments default_options; o_trace_fixed default_options;
                   o_show_wire_values default_options; o_group_wire_values default_options;
                   o_show_banks default_options; o_show_regs_mem default_options;
                   o_show_disassembly default_options].
Proof. vm_compute. repeat split; reflexivity. Qed.
Print Assumptions C06_tables.

(* ---- END TO END, from the program TEXT (TextLevelSpec.v / TextLevelProofs.v): the user's file (valid
   UTF-8) after the compiled preamble, lexed with any Unicode classification, parsed with the compiled
   tier table, built with the compiled component table; states = those reachable by loading an
   image and stepping.  No hypothesis a user cannot check by reading the file. ------------------- *)
Theorem C06_text_level : TextLevelSpec.stmt_text_run_stops_exactly.
Proof. exact TextLevelProofs.text_run_stops_exactly_holds. Qed.
Print Assumptions C06_text_level.
