(* C20 - the instruction trace shows the fetched bytes and their Y86-64 disassembly.
   Property theorems only; proofs live in DisasmProofs.v. *)
From HclV Require Import Base Disasm DisasmProofs.
From HclV Require TraceSpec TraceProofs.
Open Scope string_scope.
Open Scope N_scope.

(* Every valid Y86-64 encoding (CS:APP figure 4.2/4.3 table), with any registers, any 64-bit
   immediate / displacement / destination and anything after it in memory, is shown with the
   CS:APP mnemonic, operands in CS:APP order, and its CS:APP length. *)
Theorem C20_decode :
  Forall (fun e => let '(b0, mn, f) := e in
            forall ra rb imm rest, ra < 16 -> rb < 16 -> imm < two64 ->
              disassemble (encode f b0 ra rb imm rest) = (flen f, ftext f mn ra rb imm))
         csapp_table.
Proof. exact decode_all. Qed.
Print Assumptions C20_decode.

(* The number of bytes shown depends on the opcode nibble alone: 1, 2, 9 or 10. *)
Theorem C20_length : forall v, fst (disassemble v) = len_by_icode ((v / 16) mod 16).
Proof. exact length_by_icode. Qed.
Print Assumptions C20_length.

(* An opcode nibble above 0xB is marked invalid and shown alone. *)
Theorem C20_invalid : forall v, 11 < (v / 16) mod 16 -> disassemble v = (1, "<invalid>").
Proof. exact invalid_opcode. Qed.
Print Assumptions C20_invalid.

(* The bytes on the trace line are bytes 0..len-1 of the fetched value, in memory order. *)
Theorem C20_trace_bytes : forall v count i,
  trace_bytes v i count =
  concat_strings (map (fun k => hex2 ((v / 256 ^ N.of_nat k) mod 256) ++ " ") (seq i count)).
Proof. exact trace_bytes_spec. Qed.
Print Assumptions C20_trace_bytes.

(* ...and each is printed as two hex digits denoting exactly that byte. *)
Theorem C20_hex2 : forall b, b < 256 -> unhex (hex2 b) = Some b /\ String.length (hex2 b) = 2%nat.
Proof. exact hex2_roundtrip. Qed.
Print Assumptions C20_hex2.

(* ---- the trace line of a cycle (TraceSpec.v / TraceProofs.v): read back, it gives the value of
   the pc wire, the first len bytes of memory at pc in memory order (len by the opcode nibble of the
   byte at pc, wrapping at 2^64), and the disassembly text *)
Theorem C20_trace_line_of_a_cycle : TraceSpec.stmt_trace_line_cycle.
Proof. exact TraceProofs.trace_line_cycle_holds. Qed.
Print Assumptions C20_trace_line_of_a_cycle.
Theorem C20_trace_line_reads_back : TraceSpec.stmt_trace_line_readback.
Proof. exact TraceProofs.trace_line_readback_holds. Qed.
Print Assumptions C20_trace_line_reads_back.
