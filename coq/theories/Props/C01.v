(* C01 - each cycle's wire values are a consistent, order-independent settlement.
   Property theorems only; proofs live in SchedProofs.v (and BuildProofs.v for the scheduler). *)
From Coq Require Import Permutation.
From HclV Require Import Base Expr Machine MachineSpec SchedSpec SchedProofs Build BuildSpec Generated BuildProofs.
From HclV Require TextLevelSpec TextLevelProofs.
From Coq Require Import Permutation.
From HclV Require OrderSpec OrderProofs DiagOrderSpec DiagOrderProofs.
From HclV Require Import Build BuildSpec Generated.
From HclV Require SemanticsSpec SemanticsProofs.
Open Scope string_scope.
Open Scope N_scope.

(* After the actions of a cycle, run in ANY order that is a valid schedule (every action reads
   only wires that already hold their value for this cycle; each wire written once; state
   changes last): every assigned wire and every built-in output holds exactly the value its
   definition yields from the values the wires hold at the end of that same cycle and the
   start-of-cycle registers and memory; constants and bank outputs keep their start-of-cycle
   values; registers, memory and status change as the write ports say, from the final values. *)
Theorem C01_settles :
  forall f o known acts s0 s1 t,
    valid_schedule known acts = true ->
    exec_actions f o acts s0 = Ok (s1, t) ->
    (forall k, In k known -> lookup (values s0) k <> None) ->
    (forall a w, In a acts -> written a = Some w ->
       lookup (values s1) w = defined_value f (values s1) (mem s0) (regs s0) a /\
       lookup (values s1) w <> None) /\
    (forall k, In k known -> lookup (values s1) k = lookup (values s0) k) /\
    (mem s1, regs s1, last_status s1) =
      fold_left (apply_effect (values s1)) (effect_part acts) (mem s0, regs s0, last_status s0).
Proof. exact settles_valued. Qed.
Print Assumptions C01_settles.

(* the statement as first written (without the hypothesis that known wires hold values) is
   false of the model: a disabled memory read never looks at its address wire *)
Theorem C01_settles_unconditional_refuted : ~ stmt_settles.
Proof. exact settles_false. Qed.
Print Assumptions C01_settles_unconditional_refuted.

(* whatever order the scheduler's hash tables produced: two valid schedules of the same actions
   settle to the same wire values and the same machine state *)
Theorem C01_order_independent :
  forall f o known acts acts' s0 s1 t1 s2 t2,
    valid_schedule known acts = true -> valid_schedule known acts' = true ->
    Permutation (pure_part acts) (pure_part acts') ->
    effect_part acts = effect_part acts' ->
    exec_actions f o acts s0 = Ok (s1, t1) -> exec_actions f o acts' s0 = Ok (s2, t2) ->
    (forall k, lookup (values s1) k = lookup (values s2) k) /\
    mem s1 = mem s2 /\ regs s1 = regs s2 /\ last_status s1 = last_status s2 /\ cycle s1 = cycle s2.
Proof. exact order_independent_ok. Qed.
Print Assumptions C01_order_independent.

(* evaluation is pure: it reads only the wires the expression mentions *)
Theorem C01_eval_reads_only_refs :
  forall f rho rho' e,
    (forall n, In n (refs e) -> rho n = rho' n) -> eval f rho e = eval f rho' e.
Proof. exact eval_ext_ok. Qed.
Print Assumptions C01_eval_reads_only_refs.

(* the scheduler: the action list Program::new produces (model: Build.build_program with the
   built-in table of the compiled implementation) is a valid schedule - for every hash iteration
   order of the dependency sorter (GraphProofs quantifies over all presentations) - and the
   state-changing actions are the output-less components in table order (E before M) *)
Theorem C01_scheduler_produces_valid_schedules :
  forall f is_lower is_upper stmts p,
    build_program f gen_fixed is_lower is_upper stmts = Ok p ->
    valid_schedule (known0 p) (p_actions p) = true.
Proof.
  intros f il iu stmts p H. exact (build_valid_schedule_gen f il iu gen_fixed_ok stmts p H).
Qed.
Print Assumptions C01_scheduler_produces_valid_schedules.

Theorem C01_state_changes_last_in_table_order :
  forall f is_lower is_upper stmts p,
    build_program f gen_fixed is_lower is_upper stmts = Ok p ->
    subseq (effect_part (p_actions p))
           (map ff_action (filter (fun ff => match ff_out ff with None => true | Some _ => false end) gen_fixed)).
Proof.
  intros f il iu stmts p H.
  exact (build_effects_in_table_order_ok f gen_fixed il iu gen_fixed_ok stmts p H).
Qed.
Print Assumptions C01_state_changes_last_in_table_order.

(* non-vacuity: a diamond through the register file and the data memory, in reverse order *)
Definition ex_acts : list action :=
  [ AAssign "reg_srcA" (EConst (mkV 3 (Bits 4))) (Bits 4);
    AReadReg "reg_srcA" "reg_outputA";
    AAssign "mem_addr" (EBin Add (EWire "reg_outputA") (EWire "K")) (Bits 64);
    AAssign "mem_readbit" (EConst (mkV 1 (Bits 1))) (Bits 1);
    AReadMemory (Some "mem_readbit") "mem_addr" "mem_output" 8 false;
    AAssign "x" (EBin Xor (EWire "mem_output") (EWire "reg_outputA")) (Bits 64);
    AAssign "reg_dstE" (EConst (mkV 3 (Bits 4))) (Bits 4);
    AAssign "reg_inputE" (EWire "x") (Bits 64);
    AWriteReg "reg_dstE" "reg_inputE" ].
Example C01_premises_satisfiable :
  valid_schedule ["K"] ex_acts = true /\
  exists s1 t,
    exec_actions (mkF true false true true true) default_options ex_acts
      (mkState [("K", mkV 2 (Bits 64))] [(7, 0xAB)] [0; 0; 0; 5; 0; 0; 0; 0; 0; 0; 0; 0; 0; 0; 0; 0] None 0)
    = Ok (s1, t) /\ nth 3 (regs s1) 0 = 0xAE /\ lookup (values s1) "x" = Some (mkV 0xAE (Bits 64)).
Proof. split; [vm_compute; reflexivity|]. eexists. eexists. vm_compute. repeat split; reflexivity. Qed.

(* ---- "whatever textual order the declarations and assignments appear in" (OrderSpec.v,
   OrderProofs.v): reordering = a Permutation of the statement list ------------------------------- *)
Theorem C01_acceptance_does_not_depend_on_statement_order :
  forall f is_lower is_upper stmts stmts', Permutation stmts stmts' ->
    ((exists p, build_program f gen_fixed is_lower is_upper stmts = Ok p) <->
     (exists p', build_program f gen_fixed is_lower is_upper stmts' = Ok p')).
Proof. exact OrderProofs.acceptance_order_free_holds. Qed.
Print Assumptions C01_acceptance_does_not_depend_on_statement_order.

(* the compiled programs have the same constants, banks and actions up to order (state-changing
   actions in the same order), the same defaulted signals and wire kinds *)
Theorem C01_compiled_program_does_not_depend_on_statement_order :
  forall f is_lower is_upper, OrderSpec.stmt_program_order_free f is_lower is_upper.
Proof. exact OrderProofs.program_order_free_holds. Qed.
Print Assumptions C01_compiled_program_does_not_depend_on_statement_order.

(* after any number of cycles from the initial states, under any output options: the same value of
   every wire, the same registers, memory, status and cycle count - or the same failure *)
Theorem C01_simulation_does_not_depend_on_statement_order :
  forall f is_lower is_upper stmts stmts' p p',
    Forall wf_stmt stmts -> Permutation stmts stmts' ->
    build_program f gen_fixed is_lower is_upper stmts = Ok p ->
    build_program f gen_fixed is_lower is_upper stmts' = Ok p' ->
    forall n o o', OrderSpec.same_result (OrderSpec.run_cycles f n o p) (OrderSpec.run_cycles f n o' p').
Proof. exact OrderProofs.simulation_order_free_holds. Qed.
Print Assumptions C01_simulation_does_not_depend_on_statement_order.

Theorem C01_run_does_not_depend_on_statement_order :
  forall f is_lower is_upper, OrderSpec.stmt_run_order_free f is_lower is_upper.
Proof. exact OrderProofs.run_order_free_holds. Qed.
Print Assumptions C01_run_does_not_depend_on_statement_order.

(* the settlement holds under every hash-iteration order of Program::new, not only the model's
   insertion order (DiagOrderSpec.build_program_with) *)
Theorem C01_valid_schedule_under_every_iteration_order :
  forall f is_lower is_upper o stmts p, DiagOrderSpec.ord_ok o ->
    DiagOrderSpec.build_program_with f gen_fixed is_lower is_upper o stmts = Ok p ->
    valid_schedule (known0 p) (p_actions p) = true.
Proof.
  intros f il iu. apply (DiagOrderProofs.with_valid_schedule_holds f gen_fixed il iu); vm_compute; reflexivity.
Qed.
Print Assumptions C01_valid_schedule_under_every_iteration_order.

(* ---- the MEANING of a cycle (SemanticsSpec.v / SemanticsProofs.v): over the SOURCE program, a
   wire map is a cycle_solution when constants and bank outputs hold their start-of-cycle values,
   unassigned control signals are 0, every assigned wire equals the DENOTATION (ExprSpec.den, plain
   arithmetic) of its expression under the same map truncated to its declared width, and every
   built-in output in use equals what the register file / memory hold at the start of the cycle.
   The simulator computes a solution; solutions are unique; so what it computes is THE solution -
   independent of evaluation order and statement order *)
Theorem C01_cycle_computes_a_solution : SemanticsSpec.stmt_cycle_solution_exists_and_is_computed.
Proof. exact SemanticsProofs.cycle_solution_exists_and_is_computed_holds. Qed.
Print Assumptions C01_cycle_computes_a_solution.
Theorem C01_cycle_solution_is_unique : SemanticsSpec.stmt_cycle_solution_unique.
Proof. exact SemanticsProofs.cycle_solution_unique_holds. Qed.
Print Assumptions C01_cycle_solution_is_unique.
Theorem C01_computed_values_are_the_solution : SemanticsSpec.stmt_computed_is_the_solution.
Proof. exact SemanticsProofs.computed_is_the_solution_holds. Qed.
Print Assumptions C01_computed_values_are_the_solution.
(* the next state is determined by the solution: E then M write, memory write if enabled, each bank
   by its own bubble / stall, status *)
Theorem C01_next_state_from_solution : SemanticsSpec.stmt_next_state_from_solution.
Proof. exact SemanticsProofs.next_state_from_solution_holds. Qed.
Print Assumptions C01_next_state_from_solution.
(* a cycle fails exactly when the evaluator, on the solution's values, reaches a division by zero *)
Theorem C01_step_fails_iff_division_by_zero : SemanticsSpec.stmt_step_fails_iff_division_by_zero.
Proof. exact SemanticsProofs.step_fails_iff_division_by_zero_holds. Qed.
Print Assumptions C01_step_fails_iff_division_by_zero.

(* ---- END TO END, from the program TEXT (TextLevelSpec.v / TextLevelProofs.v): the user's file (valid
   UTF-8) after the compiled preamble, lexed with any Unicode classification, parsed with the compiled
   tier table, built with the compiled component table; states = those reachable by loading an
   image and stepping.  No hypothesis a user cannot check by reading the file. ------------------- *)
Theorem C01_text_level :
  TextLevelSpec.stmt_setting_is_the_tools /\ TextLevelSpec.stmt_text_has_declared_widths /\
  TextLevelSpec.stmt_text_reachable_cycle_start /\ TextLevelSpec.stmt_text_cycle_has_one_solution /\
  TextLevelSpec.stmt_text_cycle_computes_the_solution /\ TextLevelSpec.stmt_text_schedule_independent /\
  TextLevelSpec.stmt_text_statement_order_free.
Proof.
  split; [exact TextLevelProofs.setting_is_the_tools_holds |].
  split; [exact TextLevelProofs.text_has_declared_widths_holds |].
  split; [exact TextLevelProofs.text_reachable_cycle_start_holds |].
  split; [exact TextLevelProofs.text_cycle_has_one_solution_holds |].
  split; [exact TextLevelProofs.text_cycle_computes_the_solution_holds |].
  split; [exact TextLevelProofs.text_schedule_independent_holds | exact TextLevelProofs.text_statement_order_free_holds].
Qed.
Print Assumptions C01_text_level.
