(* C11 - source text is read with the documented precedence, literals and comments. *)
From HclV Require Import Base Expr Machine Graph Build Lexer Parser LexParseSpec LexParseProofs Generated TriviaSpec TriviaProofs.
From HclV Require Import LexRoundTripSpec LexRoundTripProofs.
From HclV Require ParserSoundSpec ParserSoundProofs LexLocSpec LexLocProofs LexTable LexTableProofs.
Open Scope list_scope.
Open Scope N_scope.

(* tie to the code: the precedence chain scraped from src/parser.lalrpop on this run (the table
   the model parser is run with) is the documented one: unary and slicing; * /; + -; << >>; &; ^;
   |; in; comparisons (non-associative); &&; ||; all others left-associative *)
Theorem C11_tiers : gen_tiers = Some doc_tiers.
Proof. vm_compute. reflexivity. Qed.
Print Assumptions C11_tiers.

(* tie to the code: the punctuation arms of Lexer::next and the keyword arms of resolve_identifier,
   scraped from src/lexer.rs on this run, against the model lexer - every row (a character alone is
   its one-character token; followed by a listed second character the two-character token; followed
   by any other ASCII character still that one-character token), the default arm (every other ASCII
   character that is no blank, letter, digit or '_' is a lexical error), the three characters
   handled by code (# / .), and the keywords; and there are no other keywords *)
Theorem C11_lexer_tables : LexTable.stmt_lex_table_matches /\ LexTable.stmt_no_other_keywords.
Proof. split; [exact LexTableProofs.lex_table_matches_holds | exact LexTableProofs.no_other_keywords_holds]. Qed.
Print Assumptions C11_lexer_tables.

(* tie to the code: the predefined names of the compiled implementation's preamble, read by the
   model's own lexer, parser (with the scraped table) and constant evaluator, have their CS:APP
   values (STAT_*, REG_*, instruction and function codes, true/false) *)
Definition preamble_consts : option (list (string * N)) :=
  match parse_text test_uclass doc_tiers (bytes_of_string gen_preamble) with
  | Some stmts =>
      match resolve_constants gen_features (flat_map (fun s => match s with SConst d => d | _ => [] end) stmts) with
      | Ok vals => Some (map (fun nv => (fst nv, bits (snd nv))) vals)
      | Err _ => None
      end
  | None => None
  end.

Definition csapp_names : list (string * N) :=
  [("STAT_BUB", 0); ("STAT_AOK", 1); ("STAT_HLT", 2); ("STAT_ADR", 3); ("STAT_INS", 4); ("STAT_PIP", 6);
   ("REG_RAX", 0); ("REG_RCX", 1); ("REG_RDX", 2); ("REG_RBX", 3); ("REG_RSP", 4); ("REG_RBP", 5);
   ("REG_RSI", 6); ("REG_RDI", 7); ("REG_R8", 8); ("REG_R9", 9); ("REG_R10", 10); ("REG_R11", 11);
   ("REG_R12", 12); ("REG_R13", 13); ("REG_R14", 14); ("REG_NONE", 15);
   ("HALT", 0); ("NOP", 1); ("RRMOVQ", 2); ("IRMOVQ", 3); ("RMMOVQ", 4); ("MRMOVQ", 5); ("OPQ", 6);
   ("JXX", 7); ("CALL", 8); ("RET", 9); ("PUSHQ", 10); ("POPQ", 11); ("CMOVXX", 2);
   ("ALWAYS", 0); ("LE", 1); ("LT", 2); ("EQ", 3); ("NE", 4); ("GE", 5); ("GT", 6);
   ("ADDQ", 0); ("SUBQ", 1); ("ANDQ", 2); ("XORQ", 3);
   ("true", 1); ("false", 0); ("TRUE", 1); ("FALSE", 0)]%string.

Definition same_table (a b : list (string * N)) : bool :=
  (List.length a =? List.length b)%nat &&
  forallb (fun nv => match lookup b (fst nv) with Some v => v =? snd nv | None => false end) a.

Theorem C11_preamble :
  match preamble_consts with Some t => same_table csapp_names t | None => false end = true.
Proof. vm_compute. reflexivity. Qed.
Print Assumptions C11_preamble.

(* precedence and associativity: for EVERY expression the grammar can produce (any operators, any
   nesting depth), the text with only the parentheses the documented table requires is read back
   as that very expression - and so is its fully parenthesised text: an unparenthesised program
   means the same as its fully parenthesised form.  toks_min encodes the table: left operands of a
   left-associative operator at the same level, right operands one tighter, both operands of a
   comparison tighter (no chaining), 'in' between | and the comparisons, unary and slicing on
   simple terms only. *)
Theorem C11_minimal_parentheses_roundtrip :
  forall e, printable e -> forall rest, stops rest ->
    exists fuel0, forall fuel, (fuel0 <= fuel)%nat ->
      parse_expr doc_tiers fuel (map at_pos (toks_min 0 e) ++ rest) = Some (e, rest).
Proof. exact roundtrip_min_ok. Qed.
Print Assumptions C11_minimal_parentheses_roundtrip.

Theorem C11_full_parentheses_roundtrip :
  forall e, printable e -> forall rest, stops rest ->
    exists fuel0, forall fuel, (fuel0 <= fuel)%nat ->
      parse_expr doc_tiers fuel (map at_pos (toks_full e) ++ rest) = Some (e, rest).
Proof. exact roundtrip_full_ok. Qed.
Print Assumptions C11_full_parentheses_roundtrip.

(* literals: a decimal or hexadecimal (either case) digit string denotes its positional value,
   unsized; a binary one its value at a width equal to its digit count; what does not fit 128
   bits - any length - is rejected as out of range *)
Theorem C11_decimal_literal :
  forall uc ds, ds <> [] -> forallb dec_digit ds = true ->
    lex uc ds =
    if positional 10 ds <? two128 then one_token (TLit (mkV (positional 10 ds) Unl)) (List.length ds)
    else ([], Some (LexInvalidConstant 0 (List.length ds))).
Proof. exact lex_decimal_ok. Qed.
Print Assumptions C11_decimal_literal.

Theorem C11_hexadecimal_literal :
  forall uc ds, ds <> [] -> forallb hex_digit ds = true ->
    lex uc ([48; 120] ++ ds) =
    if positional 16 ds <? two128 then one_token (TLit (mkV (positional 16 ds) Unl)) (2 + List.length ds)
    else ([], Some (LexInvalidConstant 0 (2 + List.length ds))).
Proof. exact lex_hex_ok. Qed.
Print Assumptions C11_hexadecimal_literal.

Theorem C11_binary_literal :
  forall uc ds, ds <> [] -> forallb bin_digit ds = true ->
    lex uc ([48; 98] ++ ds) =
    if (List.length ds <=? 128)%nat
    then one_token (TLit (mkV (positional 2 ds) (Bits (N.of_nat (List.length ds))))) (2 + List.length ds)
    else ([], Some (LexInvalidConstant 0 (2 + List.length ds))).
Proof. exact lex_binary_ok. Qed.
Print Assumptions C11_binary_literal.

(* comparisons do not chain; redundant parentheses change nothing; comments and line endings
   between tokens change nothing (instances computed by the model; the general statements are
   LexParseProofs.v's round-trip theorems) *)
Definition lex_parse (s : string) : option (list stmt) := parse_text test_uclass doc_tiers (bytes_of_string s).
Example C11_no_chain :
  lex_parse "t = a < b < c;" = None /\ lex_parse "t = a in {b} in {c};" = None /\
  lex_parse "t = (a < b) < c;" <> None.
Proof. vm_compute. repeat split. discriminate. Qed.
Example C11_trivia_and_parens :
  lex_parse "t = a + b * c;" = lex_parse "t=((a)+((b)*(c)))// x
;" /\
  lex_parse "t = a + b * c;" = lex_parse "/*/ * /*/t /* c */ = a
+ # comment
 b*c ;;".
Proof. vm_compute. split; reflexivity. Qed.

(* ---- "Comments, blank space, line-ending style and redundant parentheses never change the
   meaning" in general (TriviaSpec.v / TriviaProofs.v) ------------------------------------------- *)

(* THE TRIVIA THEOREM.  A text = tokens in any admissible spelling (identifiers incl. non-ASCII,
   decimal / 0x hex of either case / 0b binary literals, fixed operators and keywords), each
   preceded by any trivia (white space incl. non-ASCII, # and // comments closed by LF or CR,
   /* */ comments whose body has no close, and may end in '*') such that no token is directly
   followed by a character that would merge with it (and '/' is not followed by a comment
   opener); after the last token any trivia or an unterminated line comment.  Such a text is lexed
   without error to exactly its tokens, each at the byte range of its spelling *)
Theorem C11_trivia_never_changes_the_tokens :
  forall uc items last,
    admissible uc items last -> Forall scalar (text_of items last) ->
    lex uc (utf8 (text_of items last)) = (spans_of 0 items, None).
Proof. exact trivia_spans_holds. Qed.
Print Assumptions C11_trivia_never_changes_the_tokens.

(* the same in the usual wording: separators non-empty between tokens that must be separated *)
Theorem C11_trivia_between_separated_tokens : stmt_trivia_irrelevant_separated.
Proof. exact trivia_irrelevant_separated_holds. Qed.
Print Assumptions C11_trivia_between_separated_tokens.

(* two texts made of the same tokens - whatever separators, comments, line-ending style and
   spellings of the literals - mean the same: equal statement lists *)
Theorem C11_same_tokens_same_meaning :
  forall uc tiers items1 last1 items2 last2,
    admissible uc items1 last1 -> Forall scalar (text_of items1 last1) ->
    admissible uc items2 last2 -> Forall scalar (text_of items2 last2) ->
    map item_token items1 = map item_token items2 ->
    parse_text uc tiers (utf8 (text_of items1 last1)) = parse_text uc tiers (utf8 (text_of items2 last2)).
Proof. exact same_meaning_any_trivia_holds. Qed.
Print Assumptions C11_same_tokens_same_meaning.

(* line-ending style: every LF of every separator written as CR LF or as CR *)
Theorem C11_line_ending_style : stmt_line_endings.
Proof. exact line_endings_holds. Qed.
Print Assumptions C11_line_ending_style.

(* the parser never looks at positions: the meaning of a text depends on its token sequence only *)
Theorem C11_parser_ignores_positions : stmt_parse_ignores_positions.
Proof. exact parse_ignores_positions_holds. Qed.
Print Assumptions C11_parser_ignores_positions.

(* REDUNDANT PARENTHESES.  renders 0 e ts: ts is e printed with the parentheses the documented
   table requires and any number of additional pairs around any sub-expression.  Every rendering
   is read back as e; a token list renders at most one expression *)
Theorem C11_any_parenthesisation :
  forall e ts, printable e -> renders 0 e ts -> forall rest, stops rest ->
    exists fuel0, forall fuel, (fuel0 <= fuel)%nat ->
      parse_expr doc_tiers fuel (map at_pos ts ++ rest) = Some (e, rest).
Proof. exact any_parenthesisation_holds. Qed.
Print Assumptions C11_any_parenthesisation.
Theorem C11_rendering_unambiguous : stmt_rendering_unambiguous.
Proof. exact rendering_unambiguous_holds. Qed.
Print Assumptions C11_rendering_unambiguous.
Theorem C11_printers_are_renderings : stmt_printers_render.
Proof. exact printers_render_holds. Qed.
Print Assumptions C11_printers_are_renderings.

(* a draft that is false: "non-empty separator where tokens would merge" is not enough - the
   separator after '/' may not start with a comment opener ("//*c*/a" is a line comment) *)
Theorem C11_trivia_draft_refuted : ~ stmt_trivia_irrelevant_draft.
Proof. exact trivia_irrelevant_draft_refuted. Qed.
Print Assumptions C11_trivia_draft_refuted.

(* ---- the lexer's range and re-printing (LexRoundTripSpec.v / LexRoundTripProofs.v) ------------- *)
(* every token the lexer outputs is in the spelling domain of the trivia theorem *)
Theorem C11_lexer_output_is_spellable : stmt_lexer_output_lexable.
Proof. exact lexer_output_lexable_holds. Qed.
Print Assumptions C11_lexer_output_is_spellable.
(* printing the tokens of any text canonically (single blanks, or only the blanks that are
   necessary) lexes back to exactly those tokens, and means the same *)
Theorem C11_canonical_print_lexes_back : stmt_canonical_print_lexes_back.
Proof. exact canonical_print_lexes_back_holds. Qed.
Print Assumptions C11_canonical_print_lexes_back.
Theorem C11_reprinting_keeps_the_meaning : stmt_reprint_same_meaning.
Proof. exact reprint_same_meaning_holds. Qed.
Print Assumptions C11_reprinting_keeps_the_meaning.
(* the separation condition of the trivia theorem is necessary as well as sufficient *)
Theorem C11_separation_condition_is_exact : stmt_may_follow_exact.
Proof. exact may_follow_exact_holds. Qed.
Print Assumptions C11_separation_condition_is_exact.

(* ---- the parser computes exactly the grammar (ParserSoundSpec.v / ParserSoundProofs.v) --------- *)
(* soundness: whatever the parser returns is a rendering of it (it never invents or drops structure) *)
Theorem C11_parser_sound : ParserSoundSpec.stmt_parser_sound.
Proof. exact ParserSoundProofs.parser_sound_holds. Qed.
Print Assumptions C11_parser_sound.
(* expressions: parse succeeds with e on exactly the renderings of e *)
Theorem C11_parser_accepts_exactly_the_renderings : ParserSoundSpec.stmt_parser_characterised.
Proof. exact ParserSoundProofs.parser_characterised_holds. Qed.
Print Assumptions C11_parser_accepts_exactly_the_renderings.
(* whole programs: parse = the declarative statement grammar transcribed from parser.lalrpop
   (error-recovery productions excluded), both directions *)
Theorem C11_program_parser_accepts_exactly_the_grammar : ParserSoundSpec.stmt_parse_characterised.
Proof. exact ParserSoundProofs.parse_characterised_holds. Qed.
Print Assumptions C11_program_parser_accepts_exactly_the_grammar.

(* ---- every text is tokens-with-trivia or has one of ten lexical faults (LexLocSpec.v) ---------- *)
Theorem C11_every_text_is_characterised : LexLocSpec.stmt_lex_characterised.
Proof. exact LexLocProofs.lex_characterised_holds. Qed.
Print Assumptions C11_every_text_is_characterised.
