(* C01 (settlement, order independence) and C07 (a well-typed compiled program never fails):
   statements about Machine.exec_actions / step for schedules that respect the
   read-after-write discipline. *)
From Coq Require Import Permutation.
From HclV Require Import Base Expr ExprSpec Machine MachineSpec MemSpec.
Open Scope string_scope.
Open Scope N_scope.

(* ---- a valid schedule ------------------------------------------------------------------- *)
(* [known]: wires that already hold their value for this cycle (constants, bank outputs,
   unassigned stall/bubble signals, and the wires written by earlier actions).
   Every action reads only known wires; a wire is written once and never when already known;
   state-changing actions (status, memory write, register writes) come after everything else. *)
Fixpoint valid_schedule (known : list string) (acts : list action) : bool :=
  match acts with
  | [] => true
  | a :: r =>
      forallb (fun n => mem_str n known) (reads a) &&
      match written a with
      | Some w => negb (mem_str w known) && valid_schedule (w :: known) r
      | None => forallb (fun b => is_effect b && forallb (fun n => mem_str n known) (reads b)) r
      end
  end.

Definition pure_part (acts : list action) : list action := filter (fun a => negb (is_effect a)) acts.
Definition effect_part (acts : list action) : list action := filter is_effect acts.

(* ---- what "settled" means ------------------------------------------------------------------ *)
(* the value an action's definition yields from the final wire values [vals] of the cycle and
   the start-of-cycle registers / memory *)
Definition defined_value (f : features) (vals : list (string * wval)) (m0 : memory) (r0 : list N)
           (a : action) : option wval :=
  match a with
  | AAssign _ e w =>
      match eval f (lookup vals) e with Ok v => Some (as_width w v) | Err _ => None end
  | AReadReg num _ =>
      match lookup vals num with
      | Some nv => Some (mkV (rf_read r0 (bits nv mod two64)) (Bits 64))
      | None => None
      end
  | AReadMemory en addr _ n _ =>
      match lookup vals addr, enabled vals en with
      | Some av, Ok b =>
          Some (if b then mem_read m0 (bits av mod two64) n
                else as_width (Bits ((n * 8) mod 256)) (mkV 0 Unl))
      | _, _ => None
      end
  | _ => None
  end.

(* the state changes of the effect actions, in list order, all reading the final wire values *)
Definition apply_effect (vals : list (string * wval)) (st : memory * list N * option N) (a : action)
  : memory * list N * option N :=
  let '(m, r, ls) := st in
  match a with
  | AWriteReg num inp =>
      match lookup vals num, lookup vals inp with
      | Some nv, Some iv => (m, rf_write r (bits nv mod two64) (bits iv), ls)
      | _, _ => st
      end
  | AWriteMemory en addr inp n =>
      match enabled vals en, lookup vals addr, lookup vals inp with
      | Ok true, Some av, Some iv => (mem_write m (bits av mod two64) (bits iv) n, r, ls)
      | _, _, _ => st
      end
  | ASetStatus w =>
      match lookup vals w with
      | Some v => (m, r, Some (bits v mod 256))
      | None => st
      end
  | _ => st
  end.

(* C01: after the actions of a cycle every written wire holds exactly the value its definition
   yields from the values the wires hold at the end of that same cycle and the start-of-cycle
   registers and memory; known wires keep their value; and the state changes are those of the
   effect actions applied to the start-of-cycle state with the final wire values *)
Definition stmt_settles : Prop :=
  forall f o known acts s0 s1 t,
    valid_schedule known acts = true ->
    exec_actions f o acts s0 = Ok (s1, t) ->
    (forall a w, In a acts -> written a = Some w ->
       lookup (values s1) w = defined_value f (values s1) (mem s0) (regs s0) a /\
       lookup (values s1) w <> None) /\
    (forall k, In k known -> lookup (values s1) k = lookup (values s0) k) /\
    (mem s1, regs s1, last_status s1) =
      fold_left (apply_effect (values s1)) (effect_part acts) (mem s0, regs s0, last_status s0).

(* evaluation reads only the wires an expression mentions *)
Definition stmt_eval_ext : Prop :=
  forall f rho rho' e,
    (forall n, In n (refs e) -> rho n = rho' n) -> eval f rho e = eval f rho' e.

(* C01 / C12: any two valid schedules of the same actions - whatever order the scheduler's hash
   tables produced - settle to the same wire values and the same machine state *)
Definition stmt_order_independent : Prop :=
  forall f o known acts acts' s0 s1 t1 s2 t2,
    valid_schedule known acts = true -> valid_schedule known acts' = true ->
    Permutation (pure_part acts) (pure_part acts') ->
    effect_part acts = effect_part acts' ->
    exec_actions f o acts s0 = Ok (s1, t1) -> exec_actions f o acts' s0 = Ok (s2, t2) ->
    (forall k, lookup (values s1) k = lookup (values s2) k) /\
    mem s1 = mem s2 /\ regs s1 = regs s2 /\ last_status s1 = last_status s2 /\ cycle s1 = cycle s2.

(* ---- C07: a well-typed compiled program never fails ------------------------------------------ *)
Definition consts_of (p : program) : string -> option wval := lookup (p_consts p).

Definition action_typed (f : features) (G : string -> option width) (p : program) (a : action) : Prop :=
  match a with
  | AAssign n e w =>
      G n = Some w /\ wf_width w /\ wf_expr e /\
      exists we, check f G (consts_of p) e = Ok we /\ wcombine w we <> None
  | AReadReg num outp => G num = Some (Bits 4) /\ G outp = Some (Bits 64)
  | AReadMemory en addr outp n _ =>
      G addr = Some (Bits 64) /\ G outp = Some (Bits (n * 8)) /\ n <= 16 /\
      (forall w, en = Some w -> G w = Some (Bits 1))
  | AWriteReg num inp => G num = Some (Bits 4) /\ G inp = Some (Bits 64)
  | AWriteMemory en addr inp n =>
      G addr = Some (Bits 64) /\ G inp = Some (Bits 64) /\ n <= 16 /\
      (forall w, en = Some w -> G w = Some (Bits 1))
  | ASetStatus w => G w = Some (Bits 3)
  end.

(* wires that hold a value at the start of every cycle *)
Definition start_wires (p : program) : list string :=
  map fst (p_consts p) ++ all_outs (p_banks p) ++ all_ins (p_banks p) ++
  flat_map (fun b => [b_stall b; b_bubble b]) (p_banks p).

(* [known0 p]: start wires that no action writes *)
Definition known0 (p : program) : list string :=
  filter (fun k => negb (existsb (fun a => match written a with
                                           | Some w => String.eqb w k | None => false end)
                                 (p_actions p)))
         (start_wires p).

Definition program_ok (f : features) (G : string -> option width) (p : program) : Prop :=
  (forall a, In a (p_actions p) -> action_typed f G p a) /\
  valid_schedule (known0 p) (p_actions p) = true /\
  banks_wf (p_banks p) /\
  (forall n v, In (n, v) (p_consts p) -> G n = Some (wd v) /\ fits v) /\
  NoDup (map fst (p_consts p)) /\
  (forall b i o w, In b (p_banks p) -> In (i, o, w) (b_signals b) ->
     G i = Some w /\ G o = Some w /\ wf_width w /\
     exists d, lookup (b_defaults b) o = Some d /\ wd d = w /\ fits d) /\
  (forall b, In b (p_banks p) -> G (b_stall b) = Some (Bits 1) /\ G (b_bubble b) = Some (Bits 1)) /\
  (* constants are not bank signals *)
  (forall n, In n (map fst (p_consts p)) ->
     ~ In n (all_outs (p_banks p)) /\ ~ In n (all_ins (p_banks p)) /\
     forall b, In b (p_banks p) -> n <> b_stall b /\ n <> b_bubble b).

Definition state_ok (G : string -> option width) (p : program) (s : mstate) : Prop :=
  (* every start wire has a value *)
  (forall k, In k (start_wires p) -> lookup (values s) k <> None) /\
  (* every value of a declared wire has exactly its declared width and fits *)
  (forall n v w, lookup (values s) n = Some v -> G n = Some w -> wd v = w /\ fits v) /\
  List.length (regs s) = 16%nat /\ Forall (fun r => r < two64) (regs s) /\ wf_mem (mem s).

(* one cycle of a well-typed program in a well-typed state: a well-typed state again, or the
   explicit division-by-zero report; never a panic, a width error or an undeclared wire *)
Definition stmt_step_safe : Prop :=
  forall f o G p s,
    program_ok f G p -> state_ok G p s ->
    match step f o p s with
    | Ok (s', _) => state_ok G p s'
    | Err es => div_zero_only es
    end.

Definition stmt_initial_state_ok : Prop :=
  forall f G p,
    program_ok f G p ->
    exists s, initial_state p = Ok s /\ state_ok G p s.

(* any number of cycles, any image *)
Definition stmt_run_safe : Prop :=
  forall fuel f o G p s,
    program_ok f G p -> state_ok G p s ->
    (N.to_nat (o_timeout o - cycle s) <= fuel)%nat ->
    match run fuel f o p s with
    | Ok (s', _) => state_ok G p s'
    | Err es => div_zero_only es
    end.
