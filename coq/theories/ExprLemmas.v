(* Bit-level and width-level lemmas used by ExprProofs.v. *)
From HclV Require Import Base Expr ExprSpec.
Open Scope N_scope.

(* ---- powers of two ------------------------------------------------------------------- *)
Lemma pow2_pos (n : N) : 0 < 2 ^ n.
Proof. apply N.neq_0_lt_0, N.pow_nonzero; discriminate. Qed.

Lemma pow2_nz (n : N) : 2 ^ n <> 0.
Proof. apply N.pow_nonzero; discriminate. Qed.

Lemma two128_eq : two128 = 2 ^ 128.
Proof. reflexivity. Qed.

Lemma two128_split (W : N) : W <= 128 -> two128 = 2 ^ W * 2 ^ (128 - W).
Proof.
  intros HW. rewrite two128_eq, <- N.pow_add_r. f_equal. lia.
Qed.

Lemma pow2_le_mono (a b : N) : a <= b -> 2 ^ a <= 2 ^ b.
Proof. intros H. apply N.pow_le_mono_r; [discriminate | exact H]. Qed.

Lemma ones128_eq : ones128 = N.ones 128.
Proof. vm_compute. reflexivity. Qed.

Lemma ones_pred (n : N) : N.ones n = 2 ^ n - 1.
Proof. rewrite N.ones_equiv. pose proof (pow2_pos n). lia. Qed.

Lemma mod_mod_mul (a b c : N) : b <> 0 -> c <> 0 -> (a mod (b * c)) mod b = a mod b.
Proof.
  intros Hb Hc. rewrite N.mod_mul_r by assumption.
  rewrite (N.mul_comm b), N.mod_add by assumption.
  apply N.mod_mod; assumption.
Qed.

Lemma mod128_mod (x W : N) : W <= 128 -> (x mod two128) mod 2 ^ W = x mod 2 ^ W.
Proof.
  intros HW. rewrite (two128_split W HW). apply mod_mod_mul; apply pow2_nz.
Qed.

Lemma mod_pow2_lt (x n : N) : x mod 2 ^ n < 2 ^ n.
Proof. apply N.mod_lt, pow2_nz. Qed.

(* ---- mask ---------------------------------------------------------------------------- *)
Lemma mask_ones (w : width) : wf_width w -> mask w = N.ones (nbits w).
Proof.
  destruct w as [s|]; cbn [wf_width mask nbits bits_or_128]; intros Hw.
  - destruct (N.eqb_spec s 0) as [->|Hs0]; [reflexivity|].
    destruct (N.leb_spec 128 s) as [Hge|Hlt].
    + assert (s = 128) by lia. subst s. apply ones128_eq.
    + rewrite ones128_eq, N.shiftr_div_pow2, N.ones_div_pow2 by lia.
      f_equal. lia.
  - apply ones128_eq.
Qed.

Lemma land_mask (x : N) (w : width) : wf_width w -> N.land x (mask w) = x mod 2 ^ nbits w.
Proof. intros Hw. rewrite (mask_ones w Hw). apply N.land_ones. Qed.

Lemma land_mask_lt (x : N) (w : width) : wf_width w -> N.land x (mask w) < 2 ^ nbits w.
Proof. intros Hw. rewrite (land_mask x w Hw). apply mod_pow2_lt. Qed.

Lemma nbits_le (w : width) : wf_width w -> nbits w <= 128.
Proof. destruct w; cbn; lia. Qed.

(* ---- complement ---------------------------------------------------------------------- *)
Lemma lnot128_spec (x : N) : x < two128 -> lnot128 x = two128 - 1 - x.
Proof.
  intros Hx. unfold lnot128. rewrite ones128_eq.
  change (N.lxor x (N.ones 128)) with (N.lnot x 128).
  rewrite N.lnot_sub_low, ones_pred; [reflexivity|].
  destruct (N.eq_dec x 0) as [->|Hnz]; [reflexivity|].
  apply N.log2_lt_pow2; [lia | exact Hx].
Qed.

(* ---- disjoint or --------------------------------------------------------------------- *)
Lemma testbit_small (b k i : N) : b < 2 ^ k -> k <= i -> N.testbit b i = false.
Proof.
  intros Hb Hi. destruct (N.eq_dec b 0) as [->|Hnz]; [apply N.bits_0|].
  apply N.bits_above_log2.
  apply N.lt_le_trans with k; [|exact Hi].
  apply N.log2_lt_pow2; [lia | exact Hb].
Qed.

Lemma lor_disjoint (a b k : N) : b < 2 ^ k -> N.lor (a * 2 ^ k) b = a * 2 ^ k + b.
Proof.
  intros Hb.
  assert (Hland : N.land (a * 2 ^ k) b = 0).
  { apply N.bits_inj; intros i. rewrite N.land_spec, N.bits_0.
    destruct (N.lt_ge_cases i k) as [Hlt|Hge].
    - rewrite N.mul_pow2_bits_low by exact Hlt. reflexivity.
    - rewrite (testbit_small b k i Hb Hge). apply andb_false_r. }
  rewrite <- N.lxor_lor by exact Hland.
  symmetry. apply N.add_nocarry_lxor. exact Hland.
Qed.

(* ---- widths -------------------------------------------------------------------------- *)
Lemma wcombine_wmax (a b w : width) : wcombine a b = Some w -> wmax a b = w.
Proof.
  destruct a as [s|], b as [t|]; cbn [wcombine wmax]; intros H.
  - destruct (N.eqb_spec s t) as [->|Hne]; [|discriminate].
    injection H as <-. rewrite N.ltb_irrefl. reflexivity.
  - now injection H.
  - now injection H.
  - now injection H.
Qed.

Lemma wcombine_wf (a b w : width) : wf_width a -> wf_width b -> wcombine a b = Some w -> wf_width w.
Proof.
  destruct a as [s|], b as [t|]; cbn [wcombine]; intros Ha Hb H.
  - destruct (s =? t); [|discriminate]. now injection H as <-.
  - now injection H as <-.
  - now injection H as <-.
  - now injection H as <-.
Qed.

Lemma wmax_wf (a b : width) : wf_width a -> wf_width b -> wf_width (wmax a b).
Proof.
  destruct a as [s|], b as [t|]; cbn [wmax]; intros Ha Hb; try assumption.
  destruct (t <? s); assumption.
Qed.

Lemma sat_u8_small (x : N) : x <= 128 -> sat_u8 x = x.
Proof. intros H. unfold sat_u8. lia. Qed.

(* ---- subtraction modulo 2^W ------------------------------------------------------------ *)
Lemma sub_mod_spec (x y P Q : N) :
  P <> 0 -> y <= P * Q -> (x + P * Q - y) mod P = zsub_mod x y P.
Proof.
  intros HP Hy. unfold zsub_mod.
  rewrite <- (N2Z.id ((x + P * Q - y) mod P)). f_equal.
  rewrite N2Z.inj_mod, N2Z.inj_sub by lia.
  rewrite N2Z.inj_add, N2Z.inj_mul.
  replace (Z.of_N x + Z.of_N P * Z.of_N Q - Z.of_N y)%Z
    with (Z.of_N x - Z.of_N y + Z.of_N Q * Z.of_N P)%Z by ring.
  apply Z.mod_add. lia.
Qed.

Lemma b2n_lt2 (b : bool) : b2n b < 2.
Proof. destruct b; cbn; lia. Qed.

(* ---- raw operations against their arithmetic meaning ----------------------------------- *)
Lemma b2n_mod2 (b : bool) : b2n b mod 2 ^ 1 = b2n b.
Proof. destruct b; reflexivity. Qed.

Lemma apply_raw_den (op : binop) (W x y : N) :
  W <= 128 -> y < two128 -> (is_div op = true -> y <> 0) ->
  match kind op with BooleanCombine | BooleanFromEqualWidth => W = 1 | _ => True end ->
  apply_raw op x y mod 2 ^ W = den_bin op W x y.
Proof.
  intros HW Hy Hdiv Hk.
  destruct op; cbn [apply_raw den_bin kind] in *; try (subst W; apply b2n_mod2); try reflexivity.
  - (* Add *) unfold wrapping_add. apply mod128_mod. exact HW.
  - (* Sub *) unfold wrapping_sub. rewrite mod128_mod by exact HW.
    rewrite (two128_split W HW). apply sub_mod_spec; [apply pow2_nz|].
    rewrite <- (two128_split W HW). lia.
  - (* Mul *) unfold wrapping_mul. apply mod128_mod. exact HW.
  - (* LeftShift *)
    destruct (N.leb_spec 128 y) as [Hge|Hlt]; [apply N.mod_0_l, pow2_nz|].
    unfold wrapping_shl, as_u32.
    assert (H32 : y < 2 ^ 32) by (change (2 ^ 32) with 4294967296; lia).
    rewrite (N.mod_small y (2 ^ 32) H32), (N.mod_small y 128 Hlt), N.shiftl_mul_pow2.
    apply mod128_mod. exact HW.
  - (* RightShift *)
    destruct (N.leb_spec 128 y) as [Hge|Hlt]; [apply N.mod_0_l, pow2_nz|].
    unfold wrapping_shr, as_u32.
    assert (H32 : y < 2 ^ 32) by (change (2 ^ 32) with 4294967296; lia).
    rewrite (N.mod_small y (2 ^ 32) H32), (N.mod_small y 128 Hlt), N.shiftr_div_pow2.
    reflexivity.
Qed.

Lemma lt_pow2_128 (x W : N) : W <= 128 -> x < 2 ^ W -> x < two128.
Proof.
  intros HW Hx. apply N.lt_le_trans with (2 ^ W); [exact Hx|].
  rewrite two128_eq. apply pow2_le_mono. exact HW.
Qed.

Lemma unop_den (op : unop) (w : width) (v : wval) :
  wf_width w -> wd v = w -> bits v < 2 ^ nbits w ->
  bits (unop_apply op v) = den_un op (nbits w) (bits v).
Proof.
  intros Hw Hwd Hb. pose proof (nbits_le w Hw) as HW.
  pose proof (lt_pow2_128 _ _ HW Hb) as H128.
  unfold unop_apply. cbn [bits]. rewrite Hwd.
  destruct op; cbn [den_un].
  - (* Plus *) rewrite land_mask by exact Hw. apply N.mod_small. exact Hb.
  - (* Negate *)
    rewrite land_mask by exact Hw. unfold wrapping_add.
    rewrite mod128_mod by exact HW. rewrite lnot128_spec by exact H128.
    replace (two128 - 1 - bits v + 1) with (0 + two128 - bits v) by lia.
    rewrite (two128_split _ HW). apply sub_mod_spec; [apply pow2_nz|].
    rewrite <- (two128_split _ HW). lia.
  - (* Complement *)
    rewrite land_mask by exact Hw. rewrite lnot128_spec by exact H128.
    rewrite (two128_split _ HW).
    pose proof (pow2_pos (128 - nbits w)) as HQ.
    set (P := 2 ^ nbits w) in *. set (Q := 2 ^ (128 - nbits w)) in *.
    assert (E : P * Q - 1 - bits v = (P - 1 - bits v) + (Q - 1) * P) by nia.
    rewrite E, N.mod_add by lia. apply N.mod_small. lia.
  - (* Not *)
    rewrite land_mask by (cbn; lia). cbn [nbits bits_or_128].
    destruct (bits v =? 0); reflexivity.
Qed.

Lemma shr_or_zero_spec (x lo W : N) :
  lo <= 128 -> W <= 128 -> x < 2 ^ W -> shr_or_zero x lo = x / 2 ^ lo.
Proof.
  intros Hlo HW Hx. unfold shr_or_zero.
  destruct (N.ltb_spec lo 128) as [Hlt|Hge]; [apply N.shiftr_div_pow2|].
  assert (lo = 128) by lia. subst lo. symmetry. apply N.div_small.
  exact (lt_pow2_128 x W HW Hx).
Qed.

Lemma cat_spec (l r lw rw : N) :
  lw + rw <= 128 -> l < 2 ^ lw -> r < 2 ^ rw ->
  N.lor (shl_or_zero l rw) r mod 2 ^ (lw + rw) = l * 2 ^ rw + r.
Proof.
  intros Hle Hl Hr.
  assert (Hsum : l * 2 ^ rw + r < 2 ^ (lw + rw)).
  { rewrite N.pow_add_r. nia. }
  unfold shl_or_zero. destruct (N.ltb_spec rw 128) as [Hlt|Hge].
  - rewrite N.shiftl_mul_pow2.
    assert (Hsmall : l * 2 ^ rw < two128).
    { apply (lt_pow2_128 _ (lw + rw) Hle). lia. }
    rewrite (N.mod_small _ _ Hsmall), lor_disjoint by exact Hr.
    apply N.mod_small. exact Hsum.
  - assert (lw = 0) by lia. subst lw. assert (l = 0) by (cbn in Hl; lia). subst l.
    rewrite N.lor_0_l. rewrite N.mod_small by lia. lia.
Qed.
