(* Model of src/io.rs: FileContents (preamble + user text, newline table, file-name table),
   line_number_and_bounds, filename and show_region.  Text is a list of bytes. *)
From HclV Require Import Base Yo.
Open Scope list_scope.
Open Scope N_scope.

Record file_contents := mkFC {
  fc_data : list N;
  fc_plen : nat;                          (* preamble length *)
  fc_filename : list N;                   (* the user's file name *)
  fc_newlines : list (nat * nat)          (* (byte offset of a line start, line number) *)
}.

(* mark_newlines(offset, list, data): (offset, 1) then (offset + i + 1, k) for the k-1-th LF at i *)
Fixpoint mark_from (data : list N) (pos : nat) (index : nat) : list (nat * nat) :=
  match data with
  | [] => []
  | b :: r => if b =? 10 then (S pos, S index) :: mark_from r (S pos) (S index)
              else mark_from r (S pos) index
  end.
Definition mark_newlines (offset : nat) (data : list N) : list (nat * nat) :=
  (offset, 1%nat) :: mark_from data offset 1.

Definition new_from_data (preamble user filename : list N) : file_contents :=
  mkFC (preamble ++ user) (List.length preamble) filename
       (mark_newlines 0 preamble ++ mark_newlines (List.length preamble) user).

(* slice::binary_search_by_key on a list sorted by key, Ok(i) => i, Err(i) => i - 1:
   modelled as the LAST entry whose key is <= index (the pinned std returns the last of equal
   keys; validated by correspondence) *)
Fixpoint last_le (l : list (nat * nat)) (index : nat) (i : nat) (best : option nat) : option nat :=
  match l with
  | [] => best
  | (k, _) :: r => if (k <=? index)%nat then last_le r index (S i) (Some i) else last_le r index (S i) best
  end.

Definition builtin_name : list N := [60; 98; 117; 105; 108; 116; 105; 110; 62].    (* "<builtin>" *)

Definition filename (fc : file_contents) (index : nat) : list N :=
  if (fc_plen fc <=? index)%nat then fc_filename fc else builtin_name.

(* (line number, start of line, start of next line) ; None = the Rust code would panic *)
Definition line_number_and_bounds (fc : file_contents) (index : nat) : option (nat * nat * nat) :=
  match last_le (fc_newlines fc) index 0 None with
  | None => None
  | Some i =>
      let next := if (S i =? List.length (fc_newlines fc))%nat then List.length (fc_data fc)
                  else fst (nth (S i) (fc_newlines fc) (0, 0)%nat) in
      let cur := nth i (fc_newlines fc) (0, 0)%nat in
      Some (snd cur, fst cur, next)
  end.

(* str::lines(): split at LF, drop the CR of CRLF, no final empty line *)
Definition str_lines (seg : list N) : list (list N) := split_lines seg [].

Fixpoint repeat_byte (b : N) (n : nat) : list N := match n with O => [] | S k => b :: repeat_byte b k end.

Fixpoint dec_digits_fuel (fuel : nat) (n : nat) (acc : list N) : list N :=
  match fuel with
  | O => acc
  | S f => let acc' := (48 + N.of_nat (n mod 10)) :: acc in
           if (n <? 10)%nat then acc' else dec_digits_fuel f (n / 10) acc'
  end.
Definition dec_bytes (n : nat) : list N := dec_digits_fuel (S n) n [].

Definition pad4 (l : list N) : list N := repeat_byte 32 (4 - List.length l) ++ l.   (* {:>4} *)

Fixpoint render_lines (lines : list (list N)) (number begin_no end_no begin_off end_off : nat) : list N :=
  match lines with
  | [] => []
  | line :: r =>
      let this_start := if (number =? begin_no)%nat then begin_off else O in
      let this_end := if (number =? end_no)%nat then end_off else List.length line in
      pad4 (dec_bytes number) ++ [32; 124; 32] ++ line ++ [10] ++
      [32; 32; 32; 32; 32; 124; 32] ++ repeat_byte 32 this_start ++ repeat_byte 94 (this_end - this_start) ++ [10] ++
      render_lines r (S number) begin_no end_no begin_off end_off
  end.

(* None = the Rust code would panic (slice out of range / off a char boundary, arithmetic) *)
Definition show_region (fc : file_contents) (start end_ : nat) : option (list N) :=
  let len := List.length (fc_data fc) in
  let e := Nat.min end_ len in
  let s := Nat.min start e in
  match line_number_and_bounds fc s, line_number_and_bounds fc e with
  | Some (begin_no, begin_loc, _), Some (end_no, begin_last, end_loc) =>
      let end_loc := Nat.min end_loc len in
      match get_range (fc_data fc) begin_loc end_loc with
      | None => None
      | Some seg =>
          Some ([32; 32; 32; 32; 32; 45; 62; 32] ++ filename fc s ++ [58] ++ dec_bytes begin_no ++ [10] ++
                [32; 32; 32; 32; 32; 124; 10] ++
                render_lines (str_lines seg) begin_no begin_no end_no (s - begin_loc) (e - begin_last))
      end
  | _, _ => None
  end.
