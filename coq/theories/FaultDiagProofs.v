(* Proofs of FaultDiagSpec.v: every fault C09 lists is reported by Program::new with a
   diagnostic naming the wire.  No axioms. *)
From Coq Require Import Permutation Relations.
From HclV Require Import Base Expr ExprSpec ExprLemmas ExprProofs ExprRules ExprRulesProofs Machine
     Graph GraphSpec GraphProofs Build MachineSpec MachineProofs SchedSpec BuildSpec Generated
     BuildProofs LoopSpec LoopProofs CompleteSpec CompleteProofs FaultDiagSpec.
Open Scope string_scope.
Open Scope list_scope.
Open Scope N_scope.

(* ================================================================================== *)
(* Part 0: counting                                                                    *)
(* ================================================================================== *)
Lemma times_nil n : times n [] = O.
Proof. reflexivity. Qed.

Lemma times_app n l1 l2 : times n (l1 ++ l2) = (times n l1 + times n l2)%nat.
Proof. apply count_occ_app. Qed.

Lemma times_cons_eq n l : times n (n :: l) = S (times n l).
Proof. unfold times. apply count_occ_cons_eq. reflexivity. Qed.

Lemma times_cons_neq n k l : k <> n -> times n (k :: l) = times n l.
Proof. intros H. unfold times. apply count_occ_cons_neq. exact H. Qed.

Lemma times_pos n l : In n l <-> (times n l >= 1)%nat.
Proof. unfold times. rewrite (count_occ_In string_dec). lia. Qed.

Lemma times_perm n l1 l2 : Permutation l1 l2 -> times n l1 = times n l2.
Proof. intros H. unfold times. apply (Permutation_count_occ string_dec). exact H. Qed.

Lemma NoDup_times l : NoDup l <-> forall n, (times n l <= 1)%nat.
Proof. unfold times. apply (NoDup_count_occ string_dec). Qed.

(* a list with a repetition names a repeated element *)
Lemma not_NoDup_times l : ~ NoDup l -> exists n, (times n l >= 2)%nat.
Proof.
  induction l as [|a l IH]; intros H; [exfalso; apply H; constructor|].
  destruct (in_dec string_dec a l) as [Hin|Hin].
  - exists a. rewrite times_cons_eq. apply times_pos in Hin. lia.
  - destruct IH as [n Hn].
    + intros Hnd. apply H. constructor; assumption.
    + exists n. destruct (string_dec a n) as [->|Hne]; [rewrite times_cons_eq; lia|].
      rewrite (times_cons_neq n a l Hne). exact Hn.
Qed.

Lemma In_repeat_pos {A} (x : A) n : n <> O -> In x (repeat x n).
Proof. destruct n as [|n]; [intros H; contradiction H; reflexivity | intros _; left; reflexivity]. Qed.

Lemma fold_left_flat_map {A B C} (g : A -> B -> A) (h : C -> list B) (l : list C) : forall a,
  fold_left g (flat_map h l) a = fold_left (fun a c => fold_left g (h c) a) l a.
Proof.
  induction l as [|c l IH]; intros a; cbn [flat_map fold_left]; [reflexivity|].
  rewrite fold_left_app. apply IH.
Qed.

Lemma fold_left_map3 {A B C} (g : A -> B -> A) (h : C -> B) (l : list C) : forall a,
  fold_left g (map h l) a = fold_left (fun a x => g a (h x)) l a.
Proof. induction l as [|x l IH]; intros a; cbn [map fold_left]; [reflexivity | apply IH]. Qed.

(* the value a key has after a sequence of updates is the last one written *)
Lemma fold_updp_last {V} (l1 l2 : list (string * V)) k v m :
  ~ In k (map fst l2) -> lookup (fold_left updp (l1 ++ (k, v) :: l2) m) k = Some v.
Proof.
  intros H. rewrite fold_left_app. cbn [fold_left]. rewrite fold_upd_lookup_notin; [|exact H].
  unfold updp. cbn [fst snd]. apply lookup_upd_same.
Qed.

(* conversely the value found was written by a last update *)
Lemma fold_updp_last_inv {V} (l : list (string * V)) : forall m k v,
  lookup (fold_left updp l m) k = Some v ->
  (lookup m k = Some v /\ ~ In k (map fst l)) \/
  exists l1 l2, l = l1 ++ (k, v) :: l2 /\ ~ In k (map fst l2).
Proof.
  induction l as [|[k0 v0] l IH]; intros m k v H; cbn [fold_left] in H.
  - left. split; [exact H | intros []].
  - apply IH in H. destruct H as [[H1 H2]|[l1 [l2 [-> H2]]]].
    + unfold updp in H1. cbn [fst snd] in H1. rewrite lookup_upd in H1.
      destruct (String.eqb k k0) eqn:E.
      * apply String.eqb_eq in E. subst k0. injection H1 as ->. right. exists [], l. split; [reflexivity | exact H2].
      * left. split; [exact H1|]. cbn [map fst]. intros [Hk|Hk]; [|exact (H2 Hk)].
        subst k0. rewrite String.eqb_refl in E. discriminate E.
    + right. exists ((k0, v0) :: l1), l2. split; [reflexivity | exact H2].
Qed.

(* ================================================================================== *)
(* Part 1: the declaration pass, as a walk over a flat list of events                   *)
(* ================================================================================== *)
(* some lemmas of BuildProofs take the two letter classifiers although they do not use them *)
Definition dmy : string -> bool := fun _ => true.

Section Phase1.
  Variable fixed : list fixed_fn.
  Notation S1 stmts := (fold_left (step1 fixed) stmts (init1 fixed)).

  Inductive ev :=
  | EvC (d : string * expr)
  | EvW (d : string * width)
  | EvA (e : expr) (n : string)
  | EvB (name : string) (regs : list (string * width * expr)).

  Definition events (x : stmt) : list ev :=
    match x with
    | SConst d => map EvC d
    | SWire d => map EvW d
    | SAssign a => flat_map (fun ae => map (EvA (snd ae)) (fst ae)) a
    | SBank n r => [EvB n r]
    end.

  Definition step_ev (s : st1) (e : ev) : st1 :=
    match e with
    | EvC d => step1_const fixed s d
    | EvW d => step1_wire fixed s d
    | EvA e n => step1_assign_name fixed e s n
    | EvB name regs =>
        mkSt1 (s_wires s) (s_decls s) (s_assigns s) (s_assigned s) (s_needed s) (s_consts s)
              (s_banks s ++ [(name, regs)]) (s_types s) (s_errs s)
    end.

  Lemma step1_events s x : step1 fixed s x = fold_left step_ev (events x) s.
  Proof.
    destruct x as [d|d|a|bn regs]; cbn [step1 events].
    - rewrite fold_left_map3. reflexivity.
    - rewrite fold_left_map3. reflexivity.
    - rewrite fold_left_flat_map. apply fold_left_ext2. intros s0 ae.
      rewrite fold_left_map3. reflexivity.
    - reflexivity.
  Qed.

  Definition all_events (stmts : list stmt) : list ev := flat_map events stmts.

  Lemma S1_events stmts : forall s, fold_left (step1 fixed) stmts s = fold_left step_ev (all_events stmts) s.
  Proof.
    unfold all_events. intros s. rewrite fold_left_flat_map. apply fold_left_ext2. intros s0 x. apply step1_events.
  Qed.

  (* the name an event declares / assigns *)
  Definition ev_decl (e : ev) : list string :=
    match e with EvC d => [fst d] | EvW d => [fst d] | _ => [] end.
  Definition ev_asg (e : ev) : list string :=
    match e with EvA _ n => [n] | _ => [] end.

  Lemma events_decl x : flat_map ev_decl (events x) = dkey x.
  Proof.
    destruct x as [d|d|a|bn regs]; cbn [events dkey].
    - induction d as [|c d IH]; cbn [map flat_map ev_decl app]; [reflexivity | rewrite IH; reflexivity].
    - induction d as [|c d IH]; cbn [map flat_map ev_decl app]; [reflexivity | rewrite IH; reflexivity].
    - induction a as [|[ns e] a IH]; cbn [flat_map]; [reflexivity|].
      rewrite flat_map_app, IH, app_nil_r. cbn [fst snd].
      induction ns as [|n ns IHn]; cbn [map flat_map ev_decl app]; [reflexivity | exact IHn].
    - reflexivity.
  Qed.

  Lemma events_asg x : flat_map ev_asg (events x) = akey x.
  Proof.
    destruct x as [d|d|a|bn regs]; cbn [events akey].
    - induction d as [|c d IH]; cbn [map flat_map ev_asg app]; [reflexivity | exact IH].
    - induction d as [|c d IH]; cbn [map flat_map ev_asg app]; [reflexivity | exact IH].
    - induction a as [|[ns e] a IH]; cbn [flat_map]; [reflexivity|].
      rewrite flat_map_app, IH. f_equal. cbn [fst snd].
      induction ns as [|n ns IHn]; cbn [map flat_map ev_asg app]; [reflexivity | rewrite IHn; reflexivity].
    - reflexivity.
  Qed.

  Lemma all_events_decl stmts : flat_map ev_decl (all_events stmts) = decl_names stmts.
  Proof.
    unfold all_events, decl_names. induction stmts as [|x l IH]; cbn [flat_map]; [reflexivity|].
    rewrite flat_map_app, IH, events_decl. reflexivity.
  Qed.

  Lemma all_events_asg stmts : flat_map ev_asg (all_events stmts) = assigned_names stmts.
  Proof.
    unfold all_events, assigned_names. induction stmts as [|x l IH]; cbn [flat_map]; [reflexivity|].
    rewrite flat_map_app, IH, events_asg. reflexivity.
  Qed.

  (* what one event appends to the diagnostics *)
  Definition asg_errs (s : st1) (n : string) : list err :=
    if mem_str n (s_assigned s) then [mkErr DoubleAssignedWire [n]]
    else if mem_str n (fixed_out_names fixed) then [mkErr DoubleAssignedFixedOutWire [n]]
    else [].

  Definition ev_errs (s : st1) (e : ev) : list err :=
    match e with
    | EvC d => check_double_declare fixed s (fst d)
    | EvW d => check_double_declare fixed s (fst d)
    | EvA _ n => asg_errs s n
    | EvB _ _ => []
    end.

  Lemma step_ev_errs s e : s_errs (step_ev s e) = s_errs s ++ ev_errs s e.
  Proof.
    destruct e as [[n x]|[n w]|x n|bn regs]; cbn [step_ev ev_errs fst].
    - reflexivity.
    - reflexivity.
    - reflexivity.
    - cbn [s_errs]. rewrite app_nil_r. reflexivity.
  Qed.

  Lemma step_ev_decls s e : s_decls (step_ev s e) = fold_left (fun l x => add_set x l) (ev_decl e) (s_decls s).
  Proof. destruct e as [[n x]|[n w]|x n|bn regs]; reflexivity. Qed.

  Lemma step_ev_assigned s e : s_assigned (step_ev s e) = fold_left (fun l x => add_set x l) (ev_asg e) (s_assigned s).
  Proof. destruct e as [[n x]|[n w]|x n|bn regs]; reflexivity. Qed.

  Lemma fold_ev_errs_mono evs : forall s d, In d (s_errs s) -> In d (s_errs (fold_left step_ev evs s)).
  Proof.
    induction evs as [|e evs IH]; intros s d H; cbn [fold_left]; [exact H|].
    apply IH. rewrite step_ev_errs. apply in_or_app. left. exact H.
  Qed.

  (* ---- a set of names tracked along the walk, with a "seen before" and a "first time" diagnostic *)
  Section Tracked.
    Variable set : st1 -> list string.
    Variable key : ev -> list string.
    Variable K K2 : ekind.
    Variable P : string -> Prop.
    Hypothesis key_cases : forall e, key e = [] \/ exists k, key e = [k].
    Hypothesis step_set : forall s e, set (step_ev s e) = fold_left (fun l x => add_set x l) (key e) (set s).
    Hypothesis step_dup : forall s e k, key e = [k] -> In k (set s) -> In (mkErr K [k]) (ev_errs s e).
    Hypothesis step_first : forall s e k, key e = [k] -> ~ In k (set s) -> P k -> In (mkErr K2 [k]) (ev_errs s e).

    Lemma tracked_dup evs : forall s n,
      (In n (set s) /\ In n (flat_map key evs)) \/ (times n (flat_map key evs) >= 2)%nat ->
      In (mkErr K [n]) (s_errs (fold_left step_ev evs s)).
    Proof.
      induction evs as [|e evs IH]; intros s n H; cbn [fold_left flat_map] in *.
      - destruct H as [[_ []]|H]. rewrite times_nil in H. lia.
      - destruct (key_cases e) as [Hk|[k Hk]]; rewrite Hk in H; cbn [app] in H.
        + apply IH. rewrite step_set, Hk. cbn [fold_left]. exact H.
        + destruct (string_dec k n) as [->|Hne].
          * destruct H as [[H1 _]|H].
            -- apply fold_ev_errs_mono. rewrite step_ev_errs. apply in_or_app. right.
               apply step_dup; assumption.
            -- apply IH. left. rewrite step_set, Hk. cbn [fold_left]. split.
               ++ apply add_set_In. right. reflexivity.
               ++ rewrite times_cons_eq in H. apply times_pos. lia.
          * apply IH. rewrite step_set, Hk. cbn [fold_left]. destruct H as [[H1 H2]|H].
            -- left. split; [apply add_set_In; left; exact H1|].
               destruct H2 as [H2|H2]; [contradiction Hne | exact H2].
            -- right. rewrite (times_cons_neq n k _ Hne) in H. exact H.
    Qed.

    Lemma tracked_first evs : forall s n,
      ~ In n (set s) -> In n (flat_map key evs) -> P n ->
      In (mkErr K2 [n]) (s_errs (fold_left step_ev evs s)).
    Proof.
      induction evs as [|e evs IH]; intros s n Hs H HP; cbn [fold_left flat_map] in *; [contradiction|].
      destruct (key_cases e) as [Hk|[k Hk]]; rewrite Hk in H; cbn [app] in H.
      - apply IH; [|exact H|exact HP]. rewrite step_set, Hk. exact Hs.
      - destruct (string_dec k n) as [->|Hne].
        + apply fold_ev_errs_mono. rewrite step_ev_errs. apply in_or_app. right.
          apply step_first; assumption.
        + apply IH; [| |exact HP].
          * rewrite step_set, Hk. cbn [fold_left]. intros Hin. apply add_set_In in Hin.
            destruct Hin as [Hin|Hin]; [exact (Hs Hin) | apply Hne; symmetry; exact Hin].
          * destruct H as [H|H]; [contradiction Hne | exact H].
    Qed.

    (* the converse: every such diagnostic in the final list was already there or names a
       repetition / a first occurrence with P *)
    Hypothesis errs_only : forall s e d, In d (ev_errs s e) -> key e = [] -> ek d <> K /\ ek d <> K2.
    Hypothesis errs_key : forall s e k d, In d (ev_errs s e) -> key e = [k] ->
      (d = mkErr K [k] /\ In k (set s)) \/ (d = mkErr K2 [k] /\ ~ In k (set s) /\ P k).
    Hypothesis K_ne : K <> K2.

    Lemma tracked_dup_inv evs : forall s n,
      In (mkErr K [n]) (s_errs (fold_left step_ev evs s)) ->
      In (mkErr K [n]) (s_errs s) \/
      (In n (set s) /\ In n (flat_map key evs)) \/ (times n (flat_map key evs) >= 2)%nat.
    Proof.
      induction evs as [|e evs IH]; intros s n H; cbn [fold_left flat_map] in *; [left; exact H|].
      apply IH in H. rewrite step_ev_errs, step_set in H.
      destruct (key_cases e) as [Hk|[k Hk]]; rewrite Hk in *; cbn [app fold_left] in *.
      - destruct H as [H|H]; [|right; exact H].
        apply in_app_iff in H. destruct H as [H|H]; [left; exact H|].
        destruct (errs_only s e _ H Hk) as [Hx _]. contradiction Hx. reflexivity.
      - destruct H as [H|[[H1 H2]|H]].
        + apply in_app_iff in H. destruct H as [H|H]; [left; exact H|].
          destruct (errs_key s e k _ H Hk) as [[Hd Hin]|[Hd _]].
          * injection Hd as <-. right. left. split; [exact Hin | left; reflexivity].
          * injection Hd as Hd _. contradiction K_ne.
        + right. apply add_set_In in H1. destruct H1 as [H1|H1].
          * left. split; [exact H1 | right; exact H2].
          * subst k. right. rewrite times_cons_eq. apply times_pos in H2. lia.
        + right. right. destruct (string_dec k n) as [->|Hne].
          * rewrite times_cons_eq. lia.
          * rewrite (times_cons_neq n k _ Hne). exact H.
    Qed.

    Lemma tracked_first_inv evs : forall s n,
      In (mkErr K2 [n]) (s_errs (fold_left step_ev evs s)) ->
      In (mkErr K2 [n]) (s_errs s) \/ (In n (flat_map key evs) /\ P n).
    Proof.
      induction evs as [|e evs IH]; intros s n H; cbn [fold_left flat_map] in *; [left; exact H|].
      apply IH in H. rewrite step_ev_errs in H.
      destruct (key_cases e) as [Hk|[k Hk]]; rewrite Hk; cbn [app].
      - destruct H as [H|H]; [|right; exact H].
        apply in_app_iff in H. destruct H as [H|H]; [left; exact H|].
        destruct (errs_only s e _ H Hk) as [_ Hx]. contradiction Hx. reflexivity.
      - destruct H as [H|[H1 H2]].
        + apply in_app_iff in H. destruct H as [H|H]; [left; exact H|].
          destruct (errs_key s e k _ H Hk) as [[Hd _]|[Hd [_ HP]]].
          * injection Hd as Hd _. contradiction K_ne. symmetry. exact Hd.
          * injection Hd as <-. right. split; [left; reflexivity | exact HP].
        + right. split; [right; exact H1 | exact H2].
    Qed.
  End Tracked.

  Lemma ev_decl_cases e : ev_decl e = [] \/ exists k, ev_decl e = [k].
  Proof. destruct e as [[n x]|[n w]|x n|bn regs]; cbn [ev_decl fst]; eauto. Qed.
  Lemma ev_asg_cases e : ev_asg e = [] \/ exists k, ev_asg e = [k].
  Proof. destruct e as [[n x]|[n w]|x n|bn regs]; cbn [ev_asg]; eauto. Qed.

  Lemma ev_decl_errs s e k : ev_decl e = [k] -> ev_errs s e = check_double_declare fixed s k.
  Proof. destruct e as [[n x]|[n w]|x n|bn regs]; cbn [ev_decl ev_errs fst]; intros H; try discriminate H; injection H as <-; reflexivity. Qed.
  Lemma ev_asg_errs s e k : ev_asg e = [k] -> ev_errs s e = asg_errs s k.
  Proof. destruct e as [[n x]|[n w]|x n|bn regs]; cbn [ev_asg ev_errs]; intros H; try discriminate H; injection H as <-; reflexivity. Qed.

  Lemma decl_step_dup s e k : ev_decl e = [k] -> In k (s_decls s) -> In (mkErr RedeclaredWire [k]) (ev_errs s e).
  Proof.
    intros Hk Hin. rewrite (ev_decl_errs s e k Hk). unfold check_double_declare.
    apply mem_str_In in Hin. rewrite Hin. left. reflexivity.
  Qed.

  Lemma decl_step_first s e k : ev_decl e = [k] -> ~ In k (s_decls s) -> In k (fixed_names fixed) ->
    In (mkErr RedeclaredBuiltinWire [k]) (ev_errs s e).
  Proof.
    intros Hk Hin Hf. rewrite (ev_decl_errs s e k Hk). unfold check_double_declare.
    apply mem_str_false in Hin. rewrite Hin. apply mem_str_In in Hf. rewrite Hf. left. reflexivity.
  Qed.

  Lemma asg_step_dup s e k : ev_asg e = [k] -> In k (s_assigned s) -> In (mkErr DoubleAssignedWire [k]) (ev_errs s e).
  Proof.
    intros Hk Hin. rewrite (ev_asg_errs s e k Hk). unfold asg_errs.
    apply mem_str_In in Hin. rewrite Hin. left. reflexivity.
  Qed.

  Lemma asg_step_first s e k : ev_asg e = [k] -> ~ In k (s_assigned s) -> In k (fixed_out_names fixed) ->
    In (mkErr DoubleAssignedFixedOutWire [k]) (ev_errs s e).
  Proof.
    intros Hk Hin Hf. rewrite (ev_asg_errs s e k Hk). unfold asg_errs.
    apply mem_str_false in Hin. rewrite Hin. apply mem_str_In in Hf. rewrite Hf. left. reflexivity.
  Qed.

  (* the shape of what an event appends *)
  Lemma cdd_shape s k d : In d (check_double_declare fixed s k) ->
    (d = mkErr RedeclaredWire [k] /\ In k (s_decls s)) \/
    (d = mkErr RedeclaredBuiltinWire [k] /\ ~ In k (s_decls s) /\ In k (fixed_names fixed)).
  Proof.
    unfold check_double_declare. destruct (mem_str k (s_decls s)) eqn:E1.
    - intros [<-|[]]. left. split; [reflexivity | apply mem_str_In; exact E1].
    - destruct (mem_str k (fixed_names fixed)) eqn:E2; [|intros []].
      intros [<-|[]]. right. split; [reflexivity|]. split; [apply mem_str_false; exact E1 | apply mem_str_In; exact E2].
  Qed.

  Lemma asg_shape s k d : In d (asg_errs s k) ->
    (d = mkErr DoubleAssignedWire [k] /\ In k (s_assigned s)) \/
    (d = mkErr DoubleAssignedFixedOutWire [k] /\ ~ In k (s_assigned s) /\ In k (fixed_out_names fixed)).
  Proof.
    unfold asg_errs. destruct (mem_str k (s_assigned s)) eqn:E1.
    - intros [<-|[]]. left. split; [reflexivity | apply mem_str_In; exact E1].
    - destruct (mem_str k (fixed_out_names fixed)) eqn:E2; [|intros []].
      intros [<-|[]]. right. split; [reflexivity|]. split; [apply mem_str_false; exact E1 | apply mem_str_In; exact E2].
  Qed.

  Lemma decl_errs_only s e d : In d (ev_errs s e) -> ev_decl e = [] ->
    ek d <> RedeclaredWire /\ ek d <> RedeclaredBuiltinWire.
  Proof.
    destruct e as [[n x]|[n w]|x n|bn regs]; cbn [ev_decl ev_errs fst]; intros H Hk; try discriminate Hk; [|contradiction].
    apply asg_shape in H. destruct H as [[-> _]|[-> _]]; cbn [ek]; split; discriminate.
  Qed.

  Lemma asg_errs_only s e d : In d (ev_errs s e) -> ev_asg e = [] ->
    ek d <> DoubleAssignedWire /\ ek d <> DoubleAssignedFixedOutWire.
  Proof.
    destruct e as [[n x]|[n w]|x n|bn regs]; cbn [ev_asg ev_errs fst]; intros H Hk; try discriminate Hk; try contradiction.
    - apply cdd_shape in H. destruct H as [[-> _]|[-> _]]; cbn [ek]; split; discriminate.
    - apply cdd_shape in H. destruct H as [[-> _]|[-> _]]; cbn [ek]; split; discriminate.
  Qed.

  Lemma decl_errs_key s e k d : In d (ev_errs s e) -> ev_decl e = [k] ->
    (d = mkErr RedeclaredWire [k] /\ In k (s_decls s)) \/
    (d = mkErr RedeclaredBuiltinWire [k] /\ ~ In k (s_decls s) /\ In k (fixed_names fixed)).
  Proof. intros H Hk. rewrite (ev_decl_errs s e k Hk) in H. apply cdd_shape. exact H. Qed.

  Lemma asg_errs_key s e k d : In d (ev_errs s e) -> ev_asg e = [k] ->
    (d = mkErr DoubleAssignedWire [k] /\ In k (s_assigned s)) \/
    (d = mkErr DoubleAssignedFixedOutWire [k] /\ ~ In k (s_assigned s) /\ In k (fixed_out_names fixed)).
  Proof. intros H Hk. rewrite (ev_asg_errs s e k Hk) in H. apply asg_shape. exact H. Qed.

  Lemma times_declared stmts n : times n (declared_names stmts) = times n (decl_names stmts).
  Proof. symmetry. apply times_perm. apply decl_names_perm. Qed.

  Lemma In_declared stmts n : In n (declared_names stmts) <-> In n (decl_names stmts).
  Proof. unfold declared_names. rewrite in_app_iff. symmetry. apply In_decl_names. Qed.

  (* ---- the four diagnostics of the walk ---- *)
  Lemma S1_redeclared stmts n : (times n (declared_names stmts) >= 2)%nat <->
    In (mkErr RedeclaredWire [n]) (s_errs (S1 stmts)).
  Proof.
    rewrite times_declared, <- all_events_decl, S1_events. split.
    - intros H. apply (tracked_dup s_decls ev_decl RedeclaredWire RedeclaredBuiltinWire
                         (fun k => In k (fixed_names fixed)) ev_decl_cases step_ev_decls decl_step_dup decl_step_first).
      right. exact H.
    - intros H.
      apply (tracked_dup_inv s_decls ev_decl RedeclaredWire RedeclaredBuiltinWire
               (fun k => In k (fixed_names fixed)) ev_decl_cases step_ev_decls decl_step_dup decl_step_first
               decl_errs_only decl_errs_key) in H;
        [|discriminate].
      destruct H as [[]|[[[] _]|H]]. exact H.
  Qed.

  Lemma S1_redeclared_builtin stmts n : (In n (declared_names stmts) /\ In n (fixed_names fixed)) <->
    In (mkErr RedeclaredBuiltinWire [n]) (s_errs (S1 stmts)).
  Proof.
    rewrite In_declared, <- all_events_decl, S1_events. split.
    - intros [H1 H2].
      apply (tracked_first s_decls ev_decl RedeclaredBuiltinWire (fun k => In k (fixed_names fixed))
               ev_decl_cases step_ev_decls decl_step_first); [intros [] | exact H1 | exact H2].
    - intros H.
      apply (tracked_first_inv s_decls ev_decl RedeclaredWire RedeclaredBuiltinWire
               (fun k => In k (fixed_names fixed)) ev_decl_cases decl_errs_only decl_errs_key) in H;
        [|discriminate].
      destruct H as [[]|H]. exact H.
  Qed.

  Lemma S1_double_assigned stmts n : (times n (assigned_names stmts) >= 2)%nat <->
    In (mkErr DoubleAssignedWire [n]) (s_errs (S1 stmts)).
  Proof.
    rewrite <- all_events_asg, S1_events. split.
    - intros H. apply (tracked_dup s_assigned ev_asg DoubleAssignedWire DoubleAssignedFixedOutWire
                         (fun k => In k (fixed_out_names fixed)) ev_asg_cases step_ev_assigned asg_step_dup asg_step_first).
      right. exact H.
    - intros H.
      apply (tracked_dup_inv s_assigned ev_asg DoubleAssignedWire DoubleAssignedFixedOutWire
               (fun k => In k (fixed_out_names fixed)) ev_asg_cases step_ev_assigned asg_step_dup asg_step_first
               asg_errs_only asg_errs_key) in H;
        [|discriminate].
      destruct H as [[]|[[[] _]|H]]. exact H.
  Qed.

  Lemma S1_assigned_builtin_output stmts n : (In n (assigned_names stmts) /\ In n (fixed_out_names fixed)) <->
    In (mkErr DoubleAssignedFixedOutWire [n]) (s_errs (S1 stmts)).
  Proof.
    rewrite <- all_events_asg, S1_events. split.
    - intros [H1 H2].
      apply (tracked_first s_assigned ev_asg DoubleAssignedFixedOutWire (fun k => In k (fixed_out_names fixed))
               ev_asg_cases step_ev_assigned asg_step_first); [intros [] | exact H1 | exact H2].
    - intros H.
      apply (tracked_first_inv s_assigned ev_asg DoubleAssignedWire DoubleAssignedFixedOutWire
               (fun k => In k (fixed_out_names fixed)) ev_asg_cases asg_errs_only asg_errs_key) in H;
        [|discriminate].
      destruct H as [[]|H]. exact H.
  Qed.

  (* every diagnostic of the walk is one of the four *)
  Lemma fold_ev_errs_shape evs : forall s d, In d (s_errs (fold_left step_ev evs s)) ->
    In d (s_errs s) \/ exists n, d = mkErr RedeclaredWire [n] \/ d = mkErr RedeclaredBuiltinWire [n] \/
                                 d = mkErr DoubleAssignedWire [n] \/ d = mkErr DoubleAssignedFixedOutWire [n].
  Proof.
    induction evs as [|e evs IH]; intros s d H; cbn [fold_left] in H; [left; exact H|].
    apply IH in H. destruct H as [H|H]; [|right; exact H].
    rewrite step_ev_errs in H. apply in_app_iff in H. destruct H as [H|H]; [left; exact H|]. right.
    destruct e as [[n x]|[n w]|x n|bn regs]; cbn [ev_errs fst] in H; try contradiction; exists n.
    - apply cdd_shape in H. destruct H as [[-> _]|[-> _]]; tauto.
    - apply cdd_shape in H. destruct H as [[-> _]|[-> _]]; tauto.
    - apply asg_shape in H. destruct H as [[-> _]|[-> _]]; tauto.
  Qed.

  (* ---- the two checks after the walk ---- *)
  Lemma S1_constant_assigned stmts n : (In n (assigned_names stmts) /\ In n (const_names stmts)) <->
    In (mkErr ConstantAssigned [n]) (const_assigned_errors (S1 stmts)).
  Proof.
    unfold const_assigned_errors. rewrite in_flat_map. split.
    - intros [H1 H2]. exists n. split; [apply (S1_assigned_In fixed dmy dmy); exact H1|].
      apply (S1_consts_has fixed dmy dmy) in H2. rewrite H2. left. reflexivity.
    - intros [k [H1 H2]]. destruct (has (s_consts (S1 stmts)) k) eqn:E; [|contradiction].
      destruct H2 as [H2|[]]. injection H2 as ->. split.
      + apply (S1_assigned_In fixed dmy dmy). exact H1.
      + apply (S1_consts_has fixed dmy dmy). exact E.
  Qed.

  Lemma const_assigned_shape stmts d : In d (const_assigned_errors (S1 stmts)) -> exists n, d = mkErr ConstantAssigned [n].
  Proof.
    unfold const_assigned_errors. rewrite in_flat_map. intros [k [_ H]].
    destruct (has (s_consts (S1 stmts)) k); [|contradiction]. destruct H as [<-|[]]. exists k. reflexivity.
  Qed.

  Lemma S1_last_const stmts c e : last_const_def stmts c e <-> In (c, e) (s_consts (S1 stmts)).
  Proof.
    rewrite (S1_consts fixed). split.
    - intros [l1 [l2 [H1 H2]]]. apply lookup_In. rewrite H1. apply fold_updp_last. exact H2.
    - intros H. apply In_lookup in H.
      + apply fold_updp_last_inv in H. destruct H as [[H _]|H]; [discriminate H | exact H].
      + rewrite <- (S1_consts fixed). apply S1_consts_NoDup.
  Qed.

  Lemma s_wires_has stmts r : has (s_wires (S1 stmts)) r = true <-> In r (wire_names stmts) \/ In r (fixed_names fixed).
  Proof.
    destruct (has (s_wires (S1 stmts)) r) eqn:E.
    - split; [intros _ | reflexivity].
      destruct (in_dec string_dec r (wire_names stmts)) as [H1|H1]; [left; exact H1|].
      destruct (in_dec string_dec r (fixed_names fixed)) as [H2|H2]; [right; exact H2|].
      assert (H : has (s_wires (S1 stmts)) r = false) by (apply (s_wires_has_false fixed dmy dmy); split; assumption).
      rewrite H in E. discriminate E.
    - apply (s_wires_has_false fixed dmy dmy) in E. split; [discriminate | tauto].
  Qed.

  Lemma S1_const_ref stmts d :
    In d (const_ref_errors (S1 stmts)) <->
    exists c e r, last_const_def stmts c e /\ In r (refs e) /\ ~ In r (const_names stmts) /\
      ((d = mkErr NonConstantWireRead [r] /\ (In r (wire_names stmts) \/ In r (fixed_names fixed))) \/
       (d = mkErr UndeclaredWireRead [r] /\ ~ In r (wire_names stmts) /\ ~ In r (fixed_names fixed))).
  Proof.
    unfold const_ref_errors. rewrite in_flat_map. split.
    - intros [[c e] [H1 H2]]. cbn [snd] in H2. apply in_flat_map in H2. destruct H2 as [r [H2 H3]].
      apply (proj1 (nodup_str_In _ _)) in H2. exists c, e, r. split; [apply S1_last_const; exact H1|]. split; [exact H2|].
      destruct (has (s_consts (S1 stmts)) r) eqn:Ec.
      { rewrite andb_false_r in H3. cbn [negb] in H3. contradiction. }
      assert (Hnc : ~ In r (const_names stmts)).
      { intros Hc. apply (S1_consts_has fixed dmy dmy) in Hc. rewrite Hc in Ec. discriminate Ec. }
      split; [exact Hnc|]. cbn [negb] in H3. rewrite andb_true_r in H3.
      destruct (has (s_wires (S1 stmts)) r) eqn:Ew.
      + left. unfold errs_for in H3. apply repeat_spec in H3. split; [exact H3 | apply s_wires_has; exact Ew].
      + right. unfold errs_for in H3. apply repeat_spec in H3. split; [exact H3|].
        apply (s_wires_has_false fixed dmy dmy) in Ew. exact Ew.
    - intros [c [e [r [H1 [H2 [H3 H4]]]]]]. exists (c, e). split; [apply S1_last_const; exact H1|].
      cbn [snd]. apply in_flat_map. exists r. split; [apply (proj2 (nodup_str_In _ _)); exact H2|].
      assert (Ec : has (s_consts (S1 stmts)) r = false).
      { destruct (has (s_consts (S1 stmts)) r) eqn:E; [|reflexivity]. apply (S1_consts_has fixed dmy dmy) in E. contradiction. }
      rewrite Ec. cbn [negb]. rewrite andb_true_r.
      pose proof (count_str_pos r (refs e) H2) as Hpos.
      destruct H4 as [[-> Hw]|[-> [Hw1 Hw2]]].
      + apply s_wires_has in Hw. rewrite Hw. apply In_repeat_pos. exact Hpos.
      + assert (Hw : has (s_wires (S1 stmts)) r = false) by (apply (s_wires_has_false fixed dmy dmy); split; assumption).
        rewrite Hw. apply In_repeat_pos. exact Hpos.
  Qed.
End Phase1.

(* ================================================================================== *)
(* Part 2: the statements about pass 1                                                  *)
(* ================================================================================== *)
Section Pass1.
  Variable f : features.
  Variable fixed : list fixed_fn.
  Variable is_lower : string -> bool.
  Variable is_upper : string -> bool.

  Notation build := (build_program f fixed is_lower is_upper).
  Notation S1 stmts := (fold_left (step1 fixed) stmts (init1 fixed)).
  Notation reports := (reports f fixed is_lower is_upper).

  Definition errs1 (stmts : list stmt) : list err :=
    s_errs (S1 stmts) ++ const_assigned_errors (S1 stmts) ++ const_ref_errors (S1 stmts).

  Lemma build_errs1 stmts : errs1 stmts <> [] -> build stmts = Err (errs1 stmts).
  Proof.
    intros H. unfold build_program. fold (errs1 stmts).
    destruct (errs1 stmts) as [|d l]; [contradiction H; reflexivity | reflexivity].
  Qed.

  Lemma build_errs1_In stmts d : In d (errs1 stmts) -> reports stmts d.
  Proof.
    intros H. exists (errs1 stmts). split; [|exact H]. apply build_errs1. intros E. rewrite E in H. exact H.
  Qed.

  Lemma In_errs1_walk stmts d : In d (s_errs (S1 stmts)) -> In d (errs1 stmts).
  Proof. intros H. unfold errs1. apply in_or_app. left. exact H. Qed.
  Lemma In_errs1_assigned stmts d : In d (const_assigned_errors (S1 stmts)) -> In d (errs1 stmts).
  Proof. intros H. unfold errs1. apply in_or_app. right. apply in_or_app. left. exact H. Qed.
  Lemma In_errs1_ref stmts d : In d (const_ref_errors (S1 stmts)) -> In d (errs1 stmts).
  Proof. intros H. unfold errs1. apply in_or_app. right. apply in_or_app. right. exact H. Qed.

  Theorem redeclared_reported_holds : stmt_redeclared_reported f fixed is_lower is_upper.
  Proof. intros stmts n H. apply build_errs1_In, In_errs1_walk, S1_redeclared. exact H. Qed.

  Theorem redeclared_builtin_reported_holds : stmt_redeclared_builtin_reported f fixed is_lower is_upper.
  Proof. intros stmts n H1 H2. apply build_errs1_In, In_errs1_walk, S1_redeclared_builtin. split; assumption. Qed.

  Theorem double_assigned_reported_holds : stmt_double_assigned_reported f fixed is_lower is_upper.
  Proof. intros stmts n H. apply build_errs1_In, In_errs1_walk, S1_double_assigned. exact H. Qed.

  Theorem assigned_builtin_output_reported_holds : stmt_assigned_builtin_output_reported f fixed is_lower is_upper.
  Proof. intros stmts n H1 H2. apply build_errs1_In, In_errs1_walk, S1_assigned_builtin_output. split; assumption. Qed.

  Theorem assigned_constant_reported_holds : stmt_assigned_constant_reported f fixed is_lower is_upper.
  Proof. intros stmts n H1 H2. apply build_errs1_In, In_errs1_assigned, S1_constant_assigned. split; assumption. Qed.

  Theorem const_reads_wire_reported_holds : stmt_const_reads_wire_reported f fixed is_lower is_upper.
  Proof.
    intros stmts c e r H1 H2 H3 H4. apply build_errs1_In, In_errs1_ref, S1_const_ref.
    exists c, e, r. split; [exact H1|]. split; [exact H2|]. split; [exact H4|]. left. split; [reflexivity | exact H3].
  Qed.

  Theorem const_reads_undeclared_reported_holds : stmt_const_reads_undeclared_reported f fixed is_lower is_upper.
  Proof.
    intros stmts c e r H1 H2 H3 H4 H5. apply build_errs1_In, In_errs1_ref, S1_const_ref.
    exists c, e, r. split; [exact H1|]. split; [exact H2|]. split; [exact H5|]. right. split; [reflexivity|]. split; assumption.
  Qed.

  (* with a single definition per name, every definition is the last one *)
  Lemma last_def_of_NoDup stmts c e :
    NoDup (const_names stmts) -> In (c, e) (const_exprs stmts) -> last_const_def stmts c e.
  Proof.
    intros Hnd Hin. apply in_split in Hin. destruct Hin as [l1 [l2 Hs]]. exists l1, l2. split; [exact Hs|].
    rewrite <- const_exprs_names, Hs, map_app in Hnd. cbn [map fst] in Hnd.
    apply NoDup_remove_2 in Hnd. intros H. apply Hnd. apply in_or_app. right. exact H.
  Qed.

  Lemma last_def_In stmts c e : last_const_def stmts c e -> In (c, e) (const_exprs stmts).
  Proof. intros [l1 [l2 [H _]]]. rewrite H. apply in_or_app. right. left. reflexivity. Qed.

  Theorem const_reads_nonconst_any_def_holds : stmt_const_reads_nonconst_any_def f fixed is_lower is_upper.
  Proof.
    intros stmts c e r Hin Hr Hnc. pose proof Hin as Hsplit. apply in_split in Hsplit.
    destruct Hsplit as [l1 [l2 Hs]].
    destruct (in_dec string_dec c (map fst l2)) as [Hc|Hc].
    - right. right. apply redeclared_reported_holds. unfold declared_names. rewrite times_app.
      rewrite <- const_exprs_names, Hs, map_app, times_app. cbn [map fst]. rewrite times_cons_eq.
      apply times_pos in Hc. lia.
    - assert (Hl : last_const_def stmts c e) by (exists l1, l2; split; assumption).
      destruct (in_dec string_dec r (wire_names stmts)) as [Hw|Hw].
      { left. apply (const_reads_wire_reported_holds stmts c e r Hl Hr); [left; exact Hw | exact Hnc]. }
      destruct (in_dec string_dec r (fixed_names fixed)) as [Hf|Hf].
      { left. apply (const_reads_wire_reported_holds stmts c e r Hl Hr); [right; exact Hf | exact Hnc]. }
      right. left. apply (const_reads_undeclared_reported_holds stmts c e r Hl Hr); assumption.
  Qed.

  (* ---- cleanliness of the pass, declaratively ---- *)
  Lemma nil_of_no_elements {A} (l : list A) : (forall x, ~ In x l) -> l = [].
  Proof. destruct l as [|a l]; [reflexivity|]. intros H. exfalso. apply (H a). left. reflexivity. Qed.

  Lemma decls_clean_exact_sec : stmt_decls_clean_exact fixed.
  Proof.
    intros stmts. split.
    - intros [C1 C2 C3 C4 C5]. unfold decl_pass_clean, decls_of. cbv zeta.
      assert (E1 : s_errs (S1 stmts) = []).
      { apply step1_errs_ok.
        - reflexivity.
        - cbn [init1 s_decls app]. apply decl_names_NoDup. exact C1.
        - intros n Hn. apply C2. apply In_declared. exact Hn.
        - cbn [init1 s_assigned app]. exact C3.
        - intros n Hn. apply (C4 n Hn). }
      assert (E2 : const_assigned_errors (S1 stmts) = []).
      { apply nil_of_no_elements. intros d Hd. destruct (const_assigned_shape fixed stmts d Hd) as [n ->].
        apply S1_constant_assigned in Hd. destruct Hd as [H1 H2]. destruct (C4 n H1) as [_ H]. exact (H H2). }
      assert (E3 : const_ref_errors (S1 stmts) = []).
      { apply nil_of_no_elements. intros d Hd. apply S1_const_ref in Hd.
        destruct Hd as [c [e [r [H1 [H2 [H3 _]]]]]]. apply H3. apply (C5 c e r); [apply last_def_In; exact H1 | exact H2]. }
      rewrite E1, E2, E3. reflexivity.
    - intros Hc. unfold decl_pass_clean, decls_of in Hc. cbv zeta in Hc.
      apply app_eq_nil in Hc. destruct Hc as [E1 Hc]. apply app_eq_nil in Hc. destruct Hc as [E2 E3].
      assert (C1 : NoDup (declared_names stmts)).
      { apply NoDup_times. intros n. destruct (le_lt_dec (times n (declared_names stmts)) 1) as [H|H]; [exact H|].
        exfalso. assert (H' : (times n (declared_names stmts) >= 2)%nat) by lia.
        apply (S1_redeclared fixed) in H'. rewrite E1 in H'. exact H'. }
      assert (C3 : NoDup (assigned_names stmts)).
      { apply NoDup_times. intros n. destruct (le_lt_dec (times n (assigned_names stmts)) 1) as [H|H]; [exact H|].
        exfalso. assert (H' : (times n (assigned_names stmts) >= 2)%nat) by lia.
        apply (S1_double_assigned fixed) in H'. rewrite E1 in H'. exact H'. }
      constructor.
      + exact C1.
      + intros n H1 H2. assert (H : In (mkErr RedeclaredBuiltinWire [n]) (s_errs (S1 stmts))).
        { apply S1_redeclared_builtin. split; assumption. }
        rewrite E1 in H. exact H.
      + exact C3.
      + intros n H1. split.
        * intros H2. assert (H : In (mkErr DoubleAssignedFixedOutWire [n]) (s_errs (S1 stmts))).
          { apply S1_assigned_builtin_output. split; assumption. }
          rewrite E1 in H. exact H.
        * intros H2. assert (H : In (mkErr ConstantAssigned [n]) (const_assigned_errors (S1 stmts))).
          { apply S1_constant_assigned. split; assumption. }
          rewrite E2 in H. exact H.
      + intros n e r H1 H2. destruct (in_dec string_dec r (const_names stmts)) as [Hr|Hr]; [exact Hr|]. exfalso.
        assert (Hl : last_const_def stmts n e).
        { apply last_def_of_NoDup; [|exact H1]. unfold declared_names in C1. apply (NoDup_app_l _ _ C1). }
        assert (H : exists d, In d (const_ref_errors (S1 stmts))).
        { destruct (in_dec string_dec r (wire_names stmts)) as [Hw|Hw];
            [|destruct (in_dec string_dec r (fixed_names fixed)) as [Hf|Hf]].
          - exists (mkErr NonConstantWireRead [r]). apply S1_const_ref. exists n, e, r.
            repeat split; try assumption. left. split; [reflexivity | left; exact Hw].
          - exists (mkErr NonConstantWireRead [r]). apply S1_const_ref. exists n, e, r.
            repeat split; try assumption. left. split; [reflexivity | right; exact Hf].
          - exists (mkErr UndeclaredWireRead [r]). apply S1_const_ref. exists n, e, r.
            repeat split; try assumption. right. split; [reflexivity | split; assumption]. }
        destruct H as [d Hd]. rewrite E3 in Hd. exact Hd.
  Qed.

  Lemma not_clean_errs1 stmts : ~ decls_clean fixed stmts -> errs1 stmts <> [].
  Proof. intros H E. apply H. apply decls_clean_exact_sec. exact E. Qed.

  Theorem decl_faults_preempt_holds : stmt_decl_faults_preempt f fixed is_lower is_upper.
  Proof.
    intros stmts H. apply not_clean_errs1 in H. exists (errs1 stmts).
    split; [apply build_errs1; exact H|]. split; [exact H|]. apply decl_pass_kinds.
  Qed.

  Theorem decl_faults_together_holds : stmt_decl_faults_together f fixed is_lower is_upper.
  Proof.
    intros stmts H. apply not_clean_errs1 in H. exists (errs1 stmts). split; [apply build_errs1; exact H|].
    split; [|split; [|split; [|split; [|split]]]].
    - intros n Hn. apply In_errs1_walk, S1_redeclared. exact Hn.
    - intros n H1 H2. apply In_errs1_walk, S1_redeclared_builtin. split; assumption.
    - intros n Hn. apply In_errs1_walk, S1_double_assigned. exact Hn.
    - intros n H1 H2. apply In_errs1_walk, S1_assigned_builtin_output. split; assumption.
    - intros n H1 H2. apply In_errs1_assigned, S1_constant_assigned. split; assumption.
    - intros c e r H1 H2 H3. split.
      + intros H4. apply In_errs1_ref, S1_const_ref. exists c, e, r. repeat split; try assumption.
        left. split; [reflexivity | exact H4].
      + intros H4 H5. apply In_errs1_ref, S1_const_ref. exists c, e, r. repeat split; try assumption.
        right. split; [reflexivity | split; assumption].
  Qed.

  Theorem decl_diags_are_real_holds : stmt_decl_diags_are_real f fixed is_lower is_upper.
  Proof.
    intros stmts es d Hb Hnc Hin. apply not_clean_errs1 in Hnc. rewrite (build_errs1 stmts Hnc) in Hb.
    injection Hb as <-. unfold errs1 in Hin. apply in_app_iff in Hin. destruct Hin as [Hin|Hin].
    - pose proof Hin as Hsh. rewrite S1_events in Hsh. apply fold_ev_errs_shape in Hsh.
      destruct Hsh as [[]|[n [-> | [-> | [-> | ->]]]]]; exists n; (split; [reflexivity|]); cbn [ek].
      + apply (S1_redeclared fixed). exact Hin.
      + apply (S1_redeclared_builtin fixed). exact Hin.
      + apply (S1_double_assigned fixed). exact Hin.
      + apply (S1_assigned_builtin_output fixed). exact Hin.
    - apply in_app_iff in Hin. destruct Hin as [Hin|Hin].
      + destruct (const_assigned_shape fixed stmts d Hin) as [n ->]. exists n. split; [reflexivity|]. cbn [ek].
        apply (S1_constant_assigned fixed). exact Hin.
      + apply S1_const_ref in Hin. destruct Hin as [c [e [r [H1 [H2 [H3 [[-> H4] | [-> [H4 H5]]]]]]]]];
          exists r; (split; [reflexivity|]); cbn [ek].
        * split; [exists c, e; split; assumption|]. split; assumption.
        * split; [exists c, e; split; assumption|]. repeat split; assumption.
  Qed.
End Pass1.

Theorem decls_clean_exact_holds fixed : stmt_decls_clean_exact fixed.
Proof. exact (decls_clean_exact_sec fixed dmy dmy). Qed.

(* ---- pass 1 on the compiled table: one program per fault, its exact diagnostics ---------- *)
Notation gbuild := (build_program gen_features gen_fixed ascii_lower ascii_upper).
Definition gdiags (s : string) : list err := match gbuild (hcl s) with Ok _ => [] | Err es => es end.

Example ex_redeclared :
  gdiags "wire x : 8; wire x : 8; x = 1; pc = 0; Stat = 1;" = [mkErr RedeclaredWire ["x"]] /\
  (* three declarations of one name (two wires and a constant): two diagnostics, one per repetition *)
  gdiags "wire x : 8, x : 8; const x = 2; x = 1; pc = 0; Stat = 1;"
    = [mkErr RedeclaredWire ["x"]; mkErr RedeclaredWire ["x"]; mkErr ConstantAssigned ["x"]].
Proof. vm_compute. split; reflexivity. Qed.

Example ex_redeclared_builtin :
  gdiags "const mem_output = 1; pc = 0; Stat = 1;" = [mkErr RedeclaredBuiltinWire ["mem_output"]] /\
  (* declared twice AND built-in: the first declaration collides with the component, the second
     with the first *)
  gdiags "wire pc : 64; wire pc : 64; pc = 0; Stat = 1;"
    = [mkErr RedeclaredBuiltinWire ["pc"]; mkErr RedeclaredWire ["pc"]].
Proof. vm_compute. split; reflexivity. Qed.

Example ex_double_assigned :
  gdiags "pc = 0; pc = 1; pc = 2; Stat = 1;" = [mkErr DoubleAssignedWire ["pc"]; mkErr DoubleAssignedWire ["pc"]].
Proof. vm_compute. reflexivity. Qed.

Example ex_assigned_builtin_output :
  gdiags "i10bytes = 0; i10bytes = 1; pc = 0; Stat = 1;"
    = [mkErr DoubleAssignedFixedOutWire ["i10bytes"]; mkErr DoubleAssignedWire ["i10bytes"]].
Proof. vm_compute. reflexivity. Qed.

Example ex_assigned_constant :
  (* one ConstantAssigned per name, however often it is assigned *)
  gdiags "const A = 1; A = 2; A = 3; pc = 0; Stat = 1;" = [mkErr DoubleAssignedWire ["A"]; mkErr ConstantAssigned ["A"]].
Proof. vm_compute. reflexivity. Qed.

Example ex_const_reads :
  (* one diagnostic per occurrence of the wire in the definition *)
  gdiags "wire w : 8; w = 1; const A = w + w, B = pc; pc = 0; Stat = 1;"
    = [mkErr NonConstantWireRead ["w"]; mkErr NonConstantWireRead ["w"]; mkErr NonConstantWireRead ["pc"]] /\
  (* a register output read by a constant is "undeclared": the banks are processed later *)
  gdiags "const A = nosuch, B = Y_a; register xY { a : 8 = 0; } x_a = Y_a; pc = 0; Stat = 1;"
    = [mkErr UndeclaredWireRead ["nosuch"]; mkErr UndeclaredWireRead ["Y_a"]].
Proof. vm_compute. split; reflexivity. Qed.

(* all faults of pass 1 in one list; the faults of later passes (u is never assigned, the initial
   value of a reads a wire, x_a is never assigned) are not looked for *)
Example ex_pass1_together :
  gdiags "wire x : 8, x : 8; pc = 0; pc = 1; i10bytes = 0; const A = 1; A = 2; const B = x; const C = nosuch; wire u : 3; register xY { a : 8 = u; } Stat = 1;"
    = [mkErr RedeclaredWire ["x"]; mkErr DoubleAssignedWire ["pc"]; mkErr DoubleAssignedFixedOutWire ["i10bytes"];
       mkErr ConstantAssigned ["A"]; mkErr NonConstantWireRead ["x"]; mkErr UndeclaredWireRead ["nosuch"]].
Proof. vm_compute. reflexivity. Qed.

(* non-vacuity of the hypotheses *)
Example ex_last_const_def : last_const_def (hcl "wire w : 1; w = 1; const A = w; const A = 1; pc = 0; Stat = 1;") "A" (EConst (mkV 1 Unl)).
Proof. exists [("A", EWire "w")], []. split; [vm_compute; reflexivity | intros []]. Qed.

(* the draft about ANY definition is false: "const A = w; const A = 1" names A, not w *)
Definition cex_any_def : list stmt := hcl "wire w : 1; w = 1; const A = w; const A = 1; pc = 0; Stat = 1;".

Example cex_any_def_diags : gbuild cex_any_def = Err [mkErr RedeclaredWire ["A"]].
Proof. vm_compute. reflexivity. Qed.

Theorem const_reads_wire_reported_any_def_refuted :
  ~ stmt_const_reads_wire_reported_any_def gen_features gen_fixed ascii_lower ascii_upper.
Proof.
  intros H. destruct (H cex_any_def "A" (EWire "w") "w") as [es [Hb Hin]].
  - vm_compute. left. reflexivity.
  - left. reflexivity.
  - left. vm_compute. left. reflexivity.
  - intros Hx. vm_compute in Hx. destruct Hx as [Hx|[Hx|[]]]; discriminate Hx.
  - rewrite cex_any_def_diags in Hb. injection Hb as <-. destruct Hin as [Hin|[]]. discriminate Hin.
Qed.

Example ex_decls_clean : decls_clean gen_fixed (hcl ex_pipeline) /\ ~ decls_clean gen_fixed cex_any_def.
Proof.
  split.
  - apply (proj2 (decls_clean_exact_holds gen_fixed _)). vm_compute. reflexivity.
  - intros H. apply (proj1 (decls_clean_exact_holds gen_fixed _)) in H. vm_compute in H. discriminate H.
Qed.

(* ================================================================================== *)
(* Part 3: pass 2 (the constants resolve), declaratively                                *)
(* ================================================================================== *)
Section Pass2.
  Variable f : features.
  Variable fixed : list fixed_fn.
  Notation S1 stmts := (fold_left (step1 fixed) stmts (init1 fixed)).

  (* ph_c of CompleteProofs, from the clauses about constants alone *)
  Lemma consts_resolve_ok stmts cv :
    NoDup (const_names stmts) ->
    (forall n e r, In (n, e) (const_exprs stmts) -> In r (refs e) -> In r (const_names stmts)) ->
    consts_resolve f cv stmts ->
    exists consts, resolve_constants f (const_exprs stmts) = Ok consts /\ forall n, lookup consts n = cv n.
  Proof.
    intros Hcn Hclosed [Hacyc Hdom Hev Hwd].
    set (cs := const_exprs stmts).
    assert (Hnd : NoDup (map fst cs)) by (unfold cs; rewrite const_exprs_names; exact Hcn).
    destruct (CompleteProofs.const_graph_facts cs Hnd) as [W [E [N1 N2]]].
    assert (Hac : ~ has_cycle string String.eqb (const_graph cs)).
    { apply (acyclic_no_cycle (const_reads stmts)); [exact Hacyc|].
      intros a b Hab. apply E in Hab. exact Hab. }
    destruct (toposort_exact string String.eqb String.eqb_eq (const_graph cs) W) as [_ Hto].
    destruct (Hto Hac) as [order [Hts [L1 [L2 L3]]]].
    assert (Hnode : forall n, In n (g_nodes (const_graph cs)) -> In n (const_names stmts)).
    { intros n Hn. apply N2 in Hn. destruct Hn as [Hn|[y [e [H1 H2]]]].
      - unfold cs in Hn. rewrite const_exprs_names in Hn. exact Hn.
      - apply (Hclosed y e n H1 H2). }
    assert (Hcvn : forall n, ~ In n (const_names stmts) -> cv n = None).
    { intros n H. destruct (cv n) as [v|] eqn:Ev; [|reflexivity]. exfalso. apply H. apply Hdom. rewrite Ev. discriminate. }
    destruct (eval_consts_ok f cv cs) with (rest := order) (done := @nil string) (vals := @nil (string * wval))
      as [vals [E1 [E2 E3]]].
    - intros n e Hl. apply lookup_In in Hl. destruct (Hev n e Hl) as [v [H1 H2]]. destruct (Hwd n e Hl) as [w Hw].
      exists v. split; [exact H1|]. split; [exact H2|]. exists w. apply check_iff. exact Hw.
    - intros k [].
    - intros k _. reflexivity.
    - intros n Hn. apply L2 in Hn. apply Hnode in Hn.
      rewrite <- const_exprs_names in Hn. apply has_In in Hn. apply has_lookup in Hn. exact Hn.
    - intros l1 n l2 e Hord Hl r Hr. cbn [app].
      assert (Hedge : gedge (const_graph cs) r n).
      { apply E. exists e. split; [apply lookup_In; exact Hl | exact Hr]. }
      destruct (L3 r n Hedge) as [a [b [c Habc]]].
      assert (Hl1 : l1 = a ++ r :: b).
      { apply (NoDup_split_unique n l1 l2 (a ++ r :: b) c).
        - rewrite <- Hord. exact L1.
        - rewrite <- Hord, Habc, <- app_assoc. reflexivity. }
      rewrite Hl1. apply in_or_app. right. left. reflexivity.
    - exists vals. split.
      + unfold resolve_constants. fold cs. rewrite Hts. cbn [bind]. rewrite E1. reflexivity.
      + intros n. cbn [app] in E2, E3. destruct (in_dec string_dec n order) as [Hin|Hin].
        * apply E2. exact Hin.
        * rewrite (E3 n Hin). symmetry. apply Hcvn. intros Hc. apply Hin. apply L2. apply N1.
          unfold cs. rewrite const_exprs_names. exact Hc.
  Qed.

  Lemma clean_consts_exact stmts : decls_clean fixed stmts -> s_consts (S1 stmts) = const_exprs stmts.
  Proof.
    intros [C1 _ _ _ _]. apply S1_consts_exact2. unfold declared_names in C1. apply (NoDup_app_l _ _ C1).
  Qed.

  Lemma clean_assigns_exact stmts : decls_clean fixed stmts -> s_assigns (S1 stmts) = assign_exprs stmts.
  Proof. intros [_ _ C3 _ _]. apply S1_assigns_exact2. exact C3. Qed.

  Theorem front_clean_exact_holds : stmt_front_clean_exact f fixed.
  Proof.
    intros stmts cv. unfold decls_of. split.
    - intros [Hd Hc]. split; [apply (decls_clean_exact_holds fixed); exact Hd|].
      rewrite (clean_consts_exact stmts Hd). destruct Hd as [C1 C2 C3 C4 C5].
      apply consts_resolve_ok; [unfold declared_names in C1; apply (NoDup_app_l _ _ C1) | exact C5 | exact Hc].
    - intros [Hd [consts [Hr Hcv]]]. apply (decls_clean_exact_holds fixed) in Hd.
      split; [exact Hd|]. rewrite (clean_consts_exact stmts Hd) in Hr. destruct Hd as [C1 C2 C3 C4 C5].
      assert (Hnd : NoDup (map fst (const_exprs stmts))).
      { rewrite const_exprs_names. unfold declared_names in C1. apply (NoDup_app_l _ _ C1). }
      destruct (resolve_constants_inv f _ _ Hnd Hr) as [Hac [Hdom Hall]].
      destruct (CompleteProofs.const_graph_facts _ Hnd) as [W [E _]].
      destruct (resolve_constants_keys f _ _ Hr) as [_ Hkeys].
      assert (Hagree : forall n, lookup consts n = cv n /\ cenv consts n = cwidth cv n).
      { intros n. split; [apply Hcv|]. unfold cenv, cwidth. rewrite Hcv. reflexivity. }
      constructor.
      + apply (no_cycle_acyclic (const_reads stmts) (const_graph (const_exprs stmts))); [|exact Hac].
        intros a b Hab. apply E. exact Hab.
      + intros n. rewrite <- Hcv. split.
        * intros H. rewrite <- const_exprs_names. apply has_In. apply Hkeys. apply has_In.
          apply has_lookup. destruct (lookup consts n) as [v|]; [exists v; reflexivity | contradiction H; reflexivity].
        * intros H. apply Hdom. rewrite const_exprs_names. exact H.
      + intros n e Hne. destruct (Hall n e Hne) as [v [w [H1 [H2 _]]]]. exists v. rewrite <- Hcv.
        split; [exact H1|]. rewrite <- (eval_ext f (lookup consts) cv); [exact H2|]. intros r _. apply Hcv.
      + intros n e Hne. destruct (Hall n e Hne) as [v [w [_ [_ H3]]]]. exists w. apply check_iff.
        rewrite <- (check_ext f (cenv consts) (cwidth cv) (lookup consts) cv); [exact H3|].
        intros r _. destruct (Hagree r) as [A B]. split; [exact B | exact A].
  Qed.
End Pass2.

(* ================================================================================== *)
(* Part 4: passes 3 and 4 at the level of the model                                     *)
(* ================================================================================== *)
Section BankPass.
  Variable f : features.
  Variable is_lower is_upper : string -> bool.

  Notation racc := (st3 * list (string * string * width) * list (string * wval))%type.

  (* the three lists of the register's own complaints that do not depend on the other registers *)
  Definition nc_errs (s : st1) (consts : list (string * wval)) (d : expr) : list err :=
    flat_map (fun rf => if has (s_wires s) rf && negb (has consts rf)
                        then errs_for NonConstantWireRead rf (count_str rf (refs d)) else [])
             (nodup_str (refs d)).
  Definition redecl_errs (s : st1) (names : list string) : list err :=
    flat_map (fun n => if mem_str n (s_decls s) then [mkErr RedeclaredWire [n]] else []) names.
  Definition own_errs (s : st1) (consts : list (string * wval)) (inp outp : string) (r : string * width * expr) : list err :=
    redecl_errs s [(inp ++ "_" ++ fst (fst r))%string; (outp ++ "_" ++ fst (fst r))%string] ++
    nc_errs s consts (snd r) ++
    (if has (s_assigns s) (outp ++ "_" ++ fst (fst r))%string
     then [mkErr DoubleAssignedRegisterWire [(outp ++ "_" ++ fst (fst r))%string]] else []).

  (* one register: its own complaints are reported; the diagnostics only grow; either it joins
     the bank's signals (and its input is recorded) or a diagnostic is added *)
  Lemma step3_register_facts s consts bn inp outp (a : racc) r :
    let a' := step3_register f s consts bn inp outp a r in
    (forall x, In x (t_errs (r_t a)) -> In x (t_errs (r_t a'))) /\
    (forall x, In x (own_errs s consts inp outp r) -> In x (t_errs (r_t a'))) /\
    t_banks (r_t a') = t_banks (r_t a) /\
    (forall n, In n (t_in_spans (r_t a)) -> In n (t_in_spans (r_t a'))) /\
    (forall sg, In sg (r_sigs a) -> In sg (r_sigs a')) /\
    ((r_sigs a' = r_sigs a ++ [((inp ++ "_" ++ fst (fst r))%string, (outp ++ "_" ++ fst (fst r))%string, snd (fst r))] /\
      In (inp ++ "_" ++ fst (fst r))%string (t_in_spans (r_t a')) /\
      mem_str (inp ++ "_" ++ fst (fst r))%string (s_decls s) = false) \/
     (r_sigs a' = r_sigs a /\ exists x, In x (t_errs (r_t a')) /\ bank_diag (ek x) = true)).
  Proof.
    destruct a as [[t sigs] dfl]. destruct r as [[rname w] d]. cbn [fst snd r_t r_sigs].
    unfold own_errs, step3_register. cbv beta iota zeta. cbn [fst snd].
    set (in_name := (inp ++ "_" ++ rname)%string). set (out_name := (outp ++ "_" ++ rname)%string).
    fold (redecl_errs s [in_name; out_name]). fold (nc_errs s consts d).
    match goal with
    | |- context [match ?p with [] => _ | _ :: _ => _ end] => set (pre := p)
    end.
    assert (Hown : forall x, In x (redecl_errs s [in_name; out_name] ++ nc_errs s consts d ++
                                   (if has (s_assigns s) out_name then [mkErr DoubleAssignedRegisterWire [out_name]] else [])) ->
                             In x pre).
    { intros x Hx. unfold pre. rewrite !in_app_iff in *. tauto. }
    assert (Hpk : Forall (fun x => bank_diag (ek x) = true) pre).
    { unfold pre. rewrite !Forall_app. repeat split.
      - unfold redecl_errs. apply Forall_flat_map. apply Forall_forall. intros n _.
        destruct (mem_str n (s_decls s)); repeat constructor.
      - unfold nc_errs. apply Forall_flat_map. apply Forall_forall. intros rf _.
        destruct (has (s_wires s) rf && negb (has consts rf)); [|constructor].
        apply Forall_forall. intros x Hx. apply repeat_spec in Hx. subst x. reflexivity.
      - destruct (has dfl out_name); repeat constructor.
      - destruct (has (s_assigns s) out_name); repeat constructor.
      - destruct (mem_str out_name (t_seen t)); repeat constructor.
      - destruct (mem_str in_name (add_set out_name (t_seen t))); repeat constructor. }
    destruct pre as [|p0 pre0] eqn:Epre.
    - assert (Hd : mem_str in_name (s_decls s) = false).
      { destruct (mem_str in_name (s_decls s)) eqn:E; [|reflexivity]. exfalso.
        apply (Hown (mkErr RedeclaredWire [in_name])). apply in_or_app. left.
        unfold redecl_errs. cbn [flat_map]. rewrite E. left. reflexivity. }
      match goal with
      | |- context [check ?a ?b ?c ?e] => destruct (check a b c e) as [wc|esc] eqn:Ec
      end.
      2:{ cbn [fst snd t_errs t_banks t_in_spans r_t r_sigs].
          split; [intros x Hx; apply in_or_app; left; exact Hx|]. split; [intros x Hx; contradiction (Hown x Hx)|].
          split; [reflexivity|]. split; [intros n Hn; exact Hn|]. split; [intros sg Hsg; exact Hsg|].
          right. split; [reflexivity|]. apply check_kinds in Ec. destruct Ec as [Hne Hk].
          destruct esc as [|x0 esc]; [contradiction Hne; reflexivity|]. exists x0. split.
          - apply in_or_app. right. left. reflexivity.
          - apply Forall_inv in Hk. unfold bank_diag. rewrite Hk. reflexivity. }
      destruct (eval f (lookup consts) d) as [v|es] eqn:Ee; cbn [fst snd t_errs t_banks t_in_spans r_t r_sigs].
      + split; [intros x Hx; apply in_or_app; left; exact Hx|]. split; [intros x Hx; contradiction (Hown x Hx)|].
        split; [reflexivity|]. split; [intros n Hn; apply add_set_In; left; exact Hn|].
        split; [intros sg Hsg; apply in_or_app; left; exact Hsg|].
        left. split; [reflexivity|]. split; [apply add_set_In; right; reflexivity | exact Hd].
      + split; [intros x Hx; apply in_or_app; left; exact Hx|]. split; [intros x Hx; contradiction (Hown x Hx)|].
        split; [reflexivity|]. split; [intros n Hn; exact Hn|]. split; [intros sg Hsg; exact Hsg|].
        right. split; [reflexivity|]. apply LoopProofs.eval_err in Ee. destruct Ee as [Hne Hk].
        destruct es as [|x0 es]; [contradiction Hne; reflexivity|]. exists x0. split.
        * apply in_or_app. right. left. reflexivity.
        * apply Forall_inv in Hk. unfold bank_diag. rewrite Hk. reflexivity.
    - cbn [fst snd t_errs t_banks t_in_spans r_t r_sigs].
      split; [intros x Hx; apply in_or_app; left; exact Hx|].
      split; [intros x Hx; apply in_or_app; right; apply Hown; exact Hx|].
      split; [reflexivity|]. split; [intros n Hn; exact Hn|]. split; [intros sg Hsg; exact Hsg|].
      right. split; [reflexivity|]. exists p0. split; [apply in_or_app; right; left; reflexivity|].
      apply Forall_inv in Hpk. exact Hpk.
  Qed.
End BankPass.

Section BankPass2.
  Variable f : features.
  Variable is_lower is_upper : string -> bool.

  Notation racc := (st3 * list (string * string * width) * list (string * wval))%type.

  Lemma expr_bank k : expr_diag k = true -> bank_diag k = true.
  Proof. intros H. unfold bank_diag. rewrite H. reflexivity. Qed.

  Lemma step3_register_bank_kinds s consts bn inp outp (a : racc) r :
    kinds bank_diag (t_errs (r_t a)) ->
    kinds bank_diag (t_errs (r_t (step3_register f s consts bn inp outp a r))).
  Proof.
    destruct a as [[t sigs] defaults]. destruct r as [[rname w] dflt]. cbn [fst r_t]. intros Ht.
    unfold step3_register. cbv beta iota zeta.
    match goal with
    | |- context [match ?pre with [] => _ | _ :: _ => _ end] =>
        assert (Hpre : kinds bank_diag pre); [|destruct pre as [|e0 pre0]]
    end.
    - assert (Hif : forall (b : bool) k names, bank_diag k = true ->
                      kinds bank_diag (if b then [mkErr k names] else [])).
      { intros b k names Hk. destruct b; [apply kinds_one; exact Hk | apply kinds_nil]. }
      apply kinds_app; split.
      { apply kinds_flat_map. intros n _. apply Hif. reflexivity. }
      apply kinds_app; split.
      { apply kinds_flat_map. intros rf _.
        destruct (has (s_wires s) rf && negb (has consts rf)); [apply kinds_repeat; reflexivity | apply kinds_nil]. }
      apply kinds_app; split; [apply Hif; reflexivity|].
      apply kinds_app; split; [apply Hif; reflexivity|].
      apply kinds_app; split; apply Hif; reflexivity.
    - match goal with
      | |- context [check ?a ?b ?c ?d] => destruct (check a b c d) as [wc|esc] eqn:Ec
      end.
      2:{ cbn [fst t_errs]. apply kinds_app. split; [exact Ht|]. apply check_kinds in Ec.
          destruct Ec as [_ Ec]. apply (kinds_mono expr_diag bank_diag esc expr_bank Ec). }
      destruct (eval f (lookup consts) dflt) as [v|es] eqn:Ee; cbn [fst t_errs].
      + apply kinds_app. split; [exact Ht|].
        destruct (wcombine (wd v) w); [apply kinds_nil | apply kinds_one; reflexivity].
      + apply kinds_app. split; [exact Ht|]. apply LoopProofs.eval_err in Ee. destruct Ee as [_ Ee].
        apply (kinds_mono expr_diag bank_diag es expr_bank Ee).
    - cbn [fst t_errs]. apply kinds_app. split; [exact Ht | exact Hpre].
  Qed.

  Lemma step3_bank_bank_kinds s consts t b :
    kinds bank_diag (t_errs t) -> kinds bank_diag (t_errs (step3_bank f is_lower is_upper s consts t b)).
  Proof.
    destruct b as [name regs]. intros Ht. unfold step3_bank. cbv beta iota.
    assert (Hbad : kinds bank_diag (t_errs t ++ [mkErr InvalidRegisterBankName [name]])).
    { apply kinds_app. split; [exact Ht | apply kinds_one; reflexivity]. }
    destruct (utf8_chars name "") as [|inp [|outp [|x l]]]; cbn [t_errs]; try exact Hbad.
    destruct (negb (is_lower inp) || negb (is_upper outp)); cbn [t_errs]; [exact Hbad|].
    match goal with
    | |- context [fold_left ?F regs ?A] =>
        pose proof (fold_kinds (fun a => t_errs (r_t a)) bank_diag F
                               (fun a r => step3_register_bank_kinds s consts name inp outp a r) regs A) as Hf;
        destruct (fold_left F regs A) as [[t2 sigs] defaults]
    end.
    cbn [fst r_t t_errs] in *. apply Hf. apply kinds_app. split; [exact Ht|].
    apply kinds_flat_map. intros n _.
    destruct (mem_str n (s_decls s)); [apply kinds_one; reflexivity | apply kinds_nil].
  Qed.

  Lemma T3_bank_kinds s consts : kinds bank_diag (t_errs (LoopProofs.T3 f is_lower is_upper s consts)).
  Proof. unfold LoopProofs.T3. apply (fold_kinds t_errs); [intros t b; apply step3_bank_bank_kinds | apply kinds_nil]. Qed.

  (* ---- all registers of one bank ---- *)
  Lemma fold_regs_facts s consts bn inp outp : forall regs (a : racc),
    let a' := fold_left (step3_register f s consts bn inp outp) regs a in
    (forall x, In x (t_errs (r_t a)) -> In x (t_errs (r_t a'))) /\
    (forall r x, In r regs -> In x (own_errs s consts inp outp r) -> In x (t_errs (r_t a'))) /\
    t_banks (r_t a') = t_banks (r_t a) /\
    (forall n, In n (t_in_spans (r_t a)) -> In n (t_in_spans (r_t a'))) /\
    (forall sg, In sg (r_sigs a) -> In sg (r_sigs a')) /\
    (forall sg, In sg (r_sigs a') ->
       In sg (r_sigs a) \/ (In (sg_in sg) (t_in_spans (r_t a')) /\ mem_str (sg_in sg) (s_decls s) = false)) /\
    (forall r, In r regs ->
       In (reg_sig inp outp r) (r_sigs a') \/ exists x, In x (t_errs (r_t a')) /\ bank_diag (ek x) = true).
  Proof.
    induction regs as [|r regs IH]; intros a; cbn [fold_left].
    - cbv zeta. repeat split; try (intros; assumption); try (intros ? ? []); try (intros ? []).
      intros sg Hsg. left. exact Hsg.
    - destruct (step3_register_facts f is_lower is_upper s consts bn inp outp a r) as [F1 [F2 [F3 [F4 [F5 F6]]]]].
      cbv zeta in *. destruct (IH (step3_register f s consts bn inp outp a r)) as [I1 [I2 [I3 [I4 [I5 [I6 I7]]]]]].
      split; [intros x Hx; apply I1, F1; exact Hx|].
      split.
      { intros r0 x [<-|Hr] Hx; [apply I1, F2; exact Hx | apply (I2 r0 x Hr Hx)]. }
      split; [rewrite I3; exact F3|].
      split; [intros n Hn; apply I4, F4; exact Hn|].
      split; [intros sg Hsg; apply I5, F5; exact Hsg|].
      split.
      { intros sg Hsg. destruct (I6 sg Hsg) as [H|H]; [|right; exact H].
        destruct F6 as [[E1 [E2 E3]]|[E1 _]].
        - rewrite E1 in H. apply in_app_iff in H. destruct H as [H|[<-|[]]]; [left; exact H|].
          right. cbn [sg_in fst]. split; [apply I4; exact E2 | exact E3].
        - rewrite E1 in H. left. exact H. }
      intros r0 [<-|Hr]; [|apply (I7 r0 Hr)].
      destruct F6 as [[E1 _]|[_ [x [Hx Hk]]]].
      + left. apply I5. rewrite E1. apply in_or_app. right. left. reflexivity.
      + right. exists x. split; [apply I1; exact Hx | exact Hk].
  Qed.

  (* the register inputs of the banks built so far are recorded and are not declared names *)
  Definition spans_ok (s : st1) (t : st3) : Prop :=
    forall sg, In sg (sigs_of (t_banks t)) ->
      In (sg_in sg) (t_in_spans t) /\ mem_str (sg_in sg) (s_decls s) = false.

  Lemma sigs_of_app b1 b2 : sigs_of (b1 ++ b2) = sigs_of b1 ++ sigs_of b2.
  Proof. unfold sigs_of. apply flat_map_app. Qed.

  Lemma bank_letters_chars name i o : bank_letters name = Some (i, o) <-> utf8_chars name "" = [i; o].
  Proof.
    unfold bank_letters. destruct (utf8_chars name "") as [|a [|b [|c l]]]; split; intros H; try discriminate H.
    - injection H as -> ->. reflexivity.
    - injection H as -> ->. reflexivity.
  Qed.

  (* ---- one bank ---- *)
  Lemma step3_bank_facts s consts t b :
    let t' := step3_bank f is_lower is_upper s consts t b in
    (forall x, In x (t_errs t) -> In x (t_errs t')) /\
    (forall n, In n (t_in_spans t) -> In n (t_in_spans t')) /\
    (exists nb, t_banks t' = t_banks t ++ nb) /\
    (spans_ok s t -> spans_ok s t') /\
    ((forall i o, bank_letters (fst b) = Some (i, o) -> ~ (is_lower i = true /\ is_upper o = true)) ->
     In (mkErr InvalidRegisterBankName [fst b]) (t_errs t')) /\
    (forall i o, bank_letters (fst b) = Some (i, o) -> is_lower i = true -> is_upper o = true ->
       (forall n, In n [("stall_" ++ o)%string; ("bubble_" ++ o)%string] -> In n (s_decls s) ->
                  In (mkErr RedeclaredWire [n]) (t_errs t')) /\
       (forall r x, In r (snd b) -> In x (own_errs s consts i o r) -> In x (t_errs t')) /\
       (forall r, In r (snd b) ->
          In (reg_sig i o r) (sigs_of (t_banks t')) \/ exists x, In x (t_errs t') /\ bank_diag (ek x) = true)).
  Proof.
    destruct b as [name regs]. cbn [fst snd]. unfold step3_bank. cbv beta iota.
    assert (Hbad : let t' := mkSt3 (t_banks t) (t_defaulted t) (t_types t) (t_seen t) (t_in_spans t)
                                   (t_errs t ++ [mkErr InvalidRegisterBankName [name]]) in
            (forall x, In x (t_errs t) -> In x (t_errs t')) /\
            (forall n, In n (t_in_spans t) -> In n (t_in_spans t')) /\
            (exists nb, t_banks t' = t_banks t ++ nb) /\
            (spans_ok s t -> spans_ok s t') /\
            In (mkErr InvalidRegisterBankName [name]) (t_errs t')).
    { cbv zeta. cbn [t_errs t_in_spans t_banks]. split; [intros x Hx; apply in_or_app; left; exact Hx|].
      split; [intros n Hn; exact Hn|]. split; [exists []; rewrite app_nil_r; reflexivity|].
      split; [intros H; exact H|]. apply in_or_app. right. left. reflexivity. }
    cbv zeta in Hbad. destruct Hbad as [B1 [B2 [B3 [B4 B5]]]].
    destruct (utf8_chars name "") as [|inp [|outp [|x l]]] eqn:Eu;
      try (split; [exact B1|]; split; [exact B2|]; split; [exact B3|]; split; [exact B4|];
           split; [intros _; exact B5|]; intros i o Hl; apply bank_letters_chars in Hl; rewrite Eu in Hl; discriminate Hl).
    destruct (negb (is_lower inp) || negb (is_upper outp)) eqn:Ecase.
    { split; [exact B1|]. split; [exact B2|]. split; [exact B3|]. split; [exact B4|].
      split; [intros _; exact B5|]. intros i o Hl Hi Ho. apply bank_letters_chars in Hl. rewrite Eu in Hl.
      injection Hl as -> ->. rewrite Hi, Ho in Ecase. discriminate Ecase. }
    match goal with
    | |- context [fold_left (step3_register f s consts name inp outp) regs ?A] => set (A0 := A)
    end.
    destruct (fold_regs_facts s consts name inp outp regs A0) as [R1 [R2 [R3 [R4 [R5 [R6 R7]]]]]].
    cbv zeta in *. destruct (fold_left (step3_register f s consts name inp outp) regs A0) as [[t2 sigs] dfl] eqn:Ef.
    unfold A0 in *. cbn [fst snd r_t r_sigs t_errs t_banks t_in_spans] in *.
    split; [intros x Hx; apply R1; apply in_or_app; left; exact Hx|].
    split; [exact R4|].
    split; [exists [mkBank name sigs dfl ("stall_" ++ outp) ("bubble_" ++ outp)]; rewrite R3; reflexivity|].
    split.
    { unfold spans_ok. cbn [t_banks t_in_spans]. intros Hok sg Hsg. rewrite sigs_of_app in Hsg. apply in_app_iff in Hsg. destruct Hsg as [Hsg|Hsg].
      - rewrite R3 in Hsg. destruct (Hok sg Hsg) as [H1 H2]. split; [apply R4; exact H1 | exact H2].
      - unfold sigs_of in Hsg. cbn [flat_map b_signals] in Hsg. rewrite app_nil_r in Hsg.
        destruct (R6 sg Hsg) as [[]|H]. exact H. }
    split.
    { intros Hbadname. exfalso. apply (Hbadname inp outp); [apply bank_letters_chars; exact Eu|].
      apply orb_false_iff in Ecase. destruct Ecase as [E1 E2]. apply negb_false_iff in E1, E2. split; assumption. }
    intros i o Hl _ _. apply bank_letters_chars in Hl. rewrite Eu in Hl. injection Hl as <- <-.
    split.
    { intros n Hn Hd. apply R1. apply in_or_app. right. apply in_flat_map. exists n. split; [exact Hn|].
      apply mem_str_In in Hd. rewrite Hd. left. reflexivity. }
    split; [exact R2|].
    intros r Hr. destruct (R7 r Hr) as [H|H]; [|right; exact H]. left.
    rewrite sigs_of_app. apply in_or_app. right. unfold sigs_of. cbn [flat_map b_signals]. rewrite app_nil_r. exact H.
  Qed.

  (* ---- all banks ---- *)
  Lemma fold_banks_facts s consts : forall banks t,
    let t' := fold_left (step3_bank f is_lower is_upper s consts) banks t in
    (forall x, In x (t_errs t) -> In x (t_errs t')) /\
    (exists nb, t_banks t' = t_banks t ++ nb) /\
    (spans_ok s t -> spans_ok s t') /\
    (forall b, In b banks ->
       ((forall i o, bank_letters (fst b) = Some (i, o) -> ~ (is_lower i = true /\ is_upper o = true)) ->
        In (mkErr InvalidRegisterBankName [fst b]) (t_errs t')) /\
       (forall i o, bank_letters (fst b) = Some (i, o) -> is_lower i = true -> is_upper o = true ->
          (forall n, In n [("stall_" ++ o)%string; ("bubble_" ++ o)%string] -> In n (s_decls s) ->
                     In (mkErr RedeclaredWire [n]) (t_errs t')) /\
          (forall r x, In r (snd b) -> In x (own_errs s consts i o r) -> In x (t_errs t')) /\
          (forall r, In r (snd b) ->
             In (reg_sig i o r) (sigs_of (t_banks t')) \/ exists x, In x (t_errs t') /\ bank_diag (ek x) = true))).
  Proof.
    induction banks as [|b banks IH]; intros t; cbn [fold_left]; cbv zeta.
    - split; [intros x Hx; exact Hx|]. split; [exists []; rewrite app_nil_r; reflexivity|].
      split; [intros H; exact H|]. intros b [].
    - destruct (step3_bank_facts s consts t b) as [F1 [F2 [[nb1 F3] [F4 [F5 F6]]]]]. cbv zeta in *.
      destruct (IH (step3_bank f is_lower is_upper s consts t b)) as [I1 [[nb2 I2] [I3 I4]]]. cbv zeta in *.
      split; [intros x Hx; apply I1, F1; exact Hx|].
      split; [exists (nb1 ++ nb2); rewrite I2, F3, app_assoc; reflexivity|].
      split; [intros H; apply I3, F4; exact H|].
      intros b0 [<-|Hb]; [|apply (I4 b0 Hb)].
      split; [intros H; apply I1, F5; exact H|].
      intros i o Hl Hi Ho. destruct (F6 i o Hl Hi Ho) as [G1 [G2 G3]].
      split; [intros n Hn Hd; apply I1, G1; assumption|].
      split; [intros r x Hr Hx; apply I1, (G2 r x Hr Hx)|].
      intros r Hr. destruct (G3 r Hr) as [H|[x [Hx Hk]]].
      + left. rewrite I2, sigs_of_app. apply in_or_app. left. exact H.
      + right. exists x. split; [apply I1; exact Hx | exact Hk].
  Qed.
End BankPass2.

(* ================================================================================== *)
(* Part 5: the statements about passes 3 and 4                                          *)
(* ================================================================================== *)
Section Mid.
  Variable f : features.
  Variable fixed : list fixed_fn.
  Variable is_lower : string -> bool.
  Variable is_upper : string -> bool.

  Notation build := (build_program f fixed is_lower is_upper).
  Notation S1 stmts := (fold_left (step1 fixed) stmts (init1 fixed)).
  Notation reports := (reports f fixed is_lower is_upper).
  Notation reports_unless := (reports_unless f fixed is_lower is_upper).
  Notation TT s c := (LoopProofs.T3 f is_lower is_upper s c).
  Notation E4 s c := (errs4_of f is_lower is_upper s c).
  Notation addf := (fun (l : list string) (x : string) => add_set x l).

  Lemma build_errs4 stmts consts :
    errs1 fixed stmts = [] -> resolve_constants f (s_consts (S1 stmts)) = Ok consts ->
    E4 (S1 stmts) consts <> [] -> build stmts = Err (E4 (S1 stmts) consts).
  Proof.
    intros H1 Hr H4. unfold build_program. cbv zeta. unfold errs1 in H1. rewrite H1, Hr. cbn [bind].
    fold (TT (S1 stmts) consts). fold (E4 (S1 stmts) consts).
    destruct (E4 (S1 stmts) consts) as [|x l]; [contradiction H4; reflexivity | reflexivity].
  Qed.

  (* passes 1 and 2: either they reject, or both are clean *)
  Lemma front_cases stmts :
    (exists es, build stmts = Err es /\ before_banks es) \/
    (errs1 fixed stmts = [] /\ exists consts, resolve_constants f (s_consts (S1 stmts)) = Ok consts).
  Proof.
    destruct (errs1 fixed stmts) as [|x l] eqn:E1.
    2:{ left. exists (x :: l). assert (Hne : errs1 fixed stmts <> []) by (rewrite E1; discriminate).
        split; [rewrite <- E1; apply build_errs1; exact Hne|]. left. split; [discriminate|].
        rewrite <- E1. apply decl_pass_kinds. }
    assert (Hc : decl_pass_clean fixed stmts) by exact E1.
    destruct (const_edges fixed dmy dmy stmts Hc) as [Hnd [Hcl _]].
    destruct (resolve_cases f (s_consts (S1 stmts)) Hnd Hcl)
      as [[cyc [_ [_ Hr]]]|[_ [[es [Hr Hg]]|[consts [Hr _]]]]].
    - left. exists [mkErr WireLoop cyc]. split; [|right; left; exists cyc; reflexivity].
      unfold build_program. cbv zeta. unfold errs1 in E1. rewrite E1, Hr. reflexivity.
    - left. exists es. split; [|right; right; exact Hg].
      unfold build_program. cbv zeta. unfold errs1 in E1. rewrite E1, Hr. reflexivity.
    - right. split; [reflexivity|]. exists consts. exact Hr.
  Qed.

  Lemma front_clean_model stmts cv : front_clean f fixed cv stmts ->
    errs1 fixed stmts = [] /\ exists consts, resolve_constants f (s_consts (S1 stmts)) = Ok consts /\
                                             forall n, lookup consts n = cv n.
  Proof. intros H. apply front_clean_exact_holds in H. exact H. Qed.

  (* (a): with passes 1-2 clean, a diagnostic of the bank pass is reported *)
  Lemma wrap_a stmts cv d : front_clean f fixed cv stmts ->
    (forall consts, errs1 fixed stmts = [] -> resolve_constants f (s_consts (S1 stmts)) = Ok consts ->
                    (forall n, lookup consts n = cv n) -> In d (E4 (S1 stmts) consts)) ->
    reports stmts d.
  Proof.
    intros Hf H. destruct (front_clean_model stmts cv Hf) as [E1 [consts [Hr Hcv]]].
    pose proof (H consts E1 Hr Hcv) as Hin. exists (E4 (S1 stmts) consts). split; [|exact Hin].
    apply build_errs4; [exact E1 | exact Hr|]. intros E. rewrite E in Hin. exact Hin.
  Qed.

  (* (b): in general, reported unless passes 1-2 reject (or the bank pass answers E) *)
  Lemma wrap_b stmts d (E : list err -> Prop) :
    (forall consts, errs1 fixed stmts = [] -> resolve_constants f (s_consts (S1 stmts)) = Ok consts ->
                    In d (E4 (S1 stmts) consts) \/ (E4 (S1 stmts) consts <> [] /\ E (E4 (S1 stmts) consts))) ->
    reports_unless (fun es => before_banks es \/ E es) stmts d.
  Proof.
    intros H. destruct (front_cases stmts) as [[es [Hb Hk]]|[E1 [consts Hr]]].
    - exists es. split; [exact Hb|]. right. left. exact Hk.
    - exists (E4 (S1 stmts) consts). destruct (H consts E1 Hr) as [Hin|[Hne HE]].
      + split; [|left; exact Hin]. apply build_errs4; [exact E1 | exact Hr|]. intros E0. rewrite E0 in Hin. exact Hin.
      + split; [|right; right; exact HE]. apply build_errs4; assumption.
  Qed.

  Lemma wrap_b0 stmts d :
    (forall consts, errs1 fixed stmts = [] -> resolve_constants f (s_consts (S1 stmts)) = Ok consts ->
                    In d (E4 (S1 stmts) consts)) ->
    reports_unless before_banks stmts d.
  Proof.
    intros H. destruct (wrap_b stmts d (fun _ => False)) as [es [Hb Hd]].
    - intros consts E1 Hr. left. apply H; assumption.
    - exists es. split; [exact Hb|]. destruct Hd as [Hd|[Hd|[]]]; [left | right]; exact Hd.
  Qed.

  Lemma wrap_ab stmts d :
    (forall consts, errs1 fixed stmts = [] -> resolve_constants f (s_consts (S1 stmts)) = Ok consts ->
                    In d (E4 (S1 stmts) consts)) ->
    (forall cv, front_clean f fixed cv stmts -> reports stmts d) /\ reports_unless before_banks stmts d.
  Proof.
    intros H. split; [|apply wrap_b0; exact H].
    intros cv Hf. apply (wrap_a stmts cv d Hf). intros consts E1 Hr _. apply H; assumption.
  Qed.

  Lemma S1_banks_eq stmts : s_banks (S1 stmts) = bank_decls stmts.
  Proof. rewrite S1_banks, fold_snoc. reflexivity. Qed.

  Lemma In_E4_bank s consts x : In x (t_errs (TT s consts)) -> In x (E4 s consts).
  Proof. intros H. unfold errs4_of. apply in_or_app. left. exact H. Qed.

  (* what the bank pass knows of every bank of the program *)
  Lemma banks_facts stmts consts b : In b (bank_decls stmts) ->
    let s := S1 stmts in
    ((forall i o, bank_letters (fst b) = Some (i, o) -> ~ (is_lower i = true /\ is_upper o = true)) ->
     In (mkErr InvalidRegisterBankName [fst b]) (t_errs (TT s consts))) /\
    (forall i o, bank_letters (fst b) = Some (i, o) -> is_lower i = true -> is_upper o = true ->
       (forall n, In n [("stall_" ++ o)%string; ("bubble_" ++ o)%string] -> In n (s_decls s) ->
                  In (mkErr RedeclaredWire [n]) (t_errs (TT s consts))) /\
       (forall r x, In r (snd b) -> In x (own_errs s consts i o r) -> In x (t_errs (TT s consts))) /\
       (forall r, In r (snd b) ->
          In (reg_sig i o r) (sigs_of (t_banks (TT s consts))) \/
          exists x, In x (t_errs (TT s consts)) /\ bank_diag (ek x) = true)).
  Proof.
    intros Hb. cbv zeta. rewrite <- S1_banks_eq in Hb.
    destruct (fold_banks_facts f is_lower is_upper (S1 stmts) consts (s_banks (S1 stmts))
                (mkSt3 [] [] (s_types (S1 stmts)) [] [] [])) as [_ [_ [_ H]]].
    apply (H b Hb).
  Qed.

  Lemma T3_spans_ok stmts consts : spans_ok (S1 stmts) (TT (S1 stmts) consts).
  Proof.
    destruct (fold_banks_facts f is_lower is_upper (S1 stmts) consts (s_banks (S1 stmts))
                (mkSt3 [] [] (s_types (S1 stmts)) [] [] [])) as [_ [_ [H _]]].
    apply H. intros sg [].
  Qed.

  Lemma consts_keys_names stmts consts n :
    resolve_constants f (s_consts (S1 stmts)) = Ok consts -> has consts n = true -> In n (const_names stmts).
  Proof.
    intros Hr Hn. destruct (resolve_constants_keys f _ _ Hr) as [_ Hk].
    apply (S1_consts_has fixed dmy dmy). apply Hk. apply has_In. exact Hn.
  Qed.

  (* ---- the register's own complaints, from the statement list ---- *)
  Lemma own_assigned stmts consts i o r w d :
    In (o ++ "_" ++ r)%string (assigned_names stmts) ->
    In (mkErr DoubleAssignedRegisterWire [(o ++ "_" ++ r)%string]) (own_errs (S1 stmts) consts i o (r, w, d)).
  Proof.
    intros H. unfold own_errs. cbn [fst snd]. apply in_or_app. right. apply in_or_app. right.
    apply (S1_assigns_has fixed dmy dmy) in H. rewrite H. left. reflexivity.
  Qed.

  Lemma own_nonconst stmts consts i o r w d rf :
    resolve_constants f (s_consts (S1 stmts)) = Ok consts ->
    In rf (refs d) -> In rf (wire_names stmts) \/ In rf (fixed_names fixed) -> ~ In rf (const_names stmts) ->
    In (mkErr NonConstantWireRead [rf]) (own_errs (S1 stmts) consts i o (r, w, d)).
  Proof.
    intros Hr H1 H2 H3. unfold own_errs. cbn [fst snd]. apply in_or_app. right. apply in_or_app. left.
    unfold nc_errs. apply in_flat_map. exists rf. split; [apply (proj2 (nodup_str_In _ _)); exact H1|].
    apply (s_wires_has fixed) in H2. rewrite H2.
    assert (Hc : has consts rf = false).
    { destruct (has consts rf) eqn:E; [|reflexivity]. exfalso. apply H3. apply (consts_keys_names stmts consts rf Hr E). }
    rewrite Hc. cbn [negb andb]. apply In_repeat_pos. apply count_str_pos. exact H1.
  Qed.

  Lemma own_redeclared stmts consts i o r w d n :
    n = (i ++ "_" ++ r)%string \/ n = (o ++ "_" ++ r)%string -> In n (declared_names stmts) ->
    In (mkErr RedeclaredWire [n]) (own_errs (S1 stmts) consts i o (r, w, d)).
  Proof.
    intros Hn Hd. unfold own_errs. cbn [fst snd]. apply in_or_app. left. unfold redecl_errs.
    apply in_flat_map. exists n. split; [destruct Hn as [->| ->]; [left | right; left]; reflexivity|].
    assert (Hm : mem_str n (s_decls (S1 stmts)) = true).
    { apply mem_str_In. apply (S1_decls_In fixed dmy dmy). unfold declared_names in Hd. apply in_app_iff in Hd. exact Hd. }
    rewrite Hm. left. reflexivity.
  Qed.

  Lemma declared_register_bank stmts bn i o r w d :
    declared_register is_lower is_upper stmts bn i o r w d ->
    exists b, In b (bank_decls stmts) /\ bank_letters (fst b) = Some (i, o) /\
              is_lower i = true /\ is_upper o = true /\ In (r, w, d) (snd b).
  Proof. intros [regs [H1 [H2 [H3 [H4 H5]]]]]. exists (bn, regs). cbn [fst snd]. repeat split; assumption. Qed.

  Lemma own_reported stmts consts bn i o r w d x :
    declared_register is_lower is_upper stmts bn i o r w d ->
    In x (own_errs (S1 stmts) consts i o (r, w, d)) -> In x (E4 (S1 stmts) consts).
  Proof.
    intros Hreg Hx. destruct (declared_register_bank _ _ _ _ _ _ _ Hreg) as [b [Hb [Hl [Hi [Ho Hr]]]]].
    apply In_E4_bank. destruct (banks_facts stmts consts b Hb) as [_ H]. cbv zeta in H.
    destruct (H i o Hl Hi Ho) as [_ [H2 _]]. apply (H2 (r, w, d) x Hr Hx).
  Qed.

  Theorem bank_name_reported_holds : stmt_bank_name_reported f fixed is_lower is_upper.
  Proof.
    intros stmts name regs Hb Hbad. apply wrap_ab. intros consts _ _. apply In_E4_bank.
    destruct (banks_facts stmts consts (name, regs) Hb) as [H _]. apply H. exact Hbad.
  Qed.

  Theorem assigned_register_output_reported_holds : stmt_assigned_register_output_reported f fixed is_lower is_upper.
  Proof.
    intros stmts bn i o r w d Hreg Ha. apply wrap_ab. intros consts _ _.
    apply (own_reported stmts consts bn i o r w d _ Hreg). apply own_assigned. exact Ha.
  Qed.

  Theorem init_reads_wire_reported_holds : stmt_init_reads_wire_reported f fixed is_lower is_upper.
  Proof.
    intros stmts bn i o r w d rf Hreg H1 H2 H3. apply wrap_ab. intros consts _ Hr.
    apply (own_reported stmts consts bn i o r w d _ Hreg). apply own_nonconst; assumption.
  Qed.

  Theorem register_signal_declared_reported_holds : stmt_register_signal_declared_reported f fixed is_lower is_upper.
  Proof.
    intros stmts bn i o r w d n Hreg H1 H2. apply wrap_ab. intros consts _ _.
    apply (own_reported stmts consts bn i o r w d _ Hreg). apply own_redeclared; assumption.
  Qed.

  Theorem control_signal_declared_reported_holds : stmt_control_signal_declared_reported f fixed is_lower is_upper.
  Proof.
    intros stmts bn regs i o n Hb Hl Hi Ho Hn Hd. apply wrap_ab. intros consts _ _. apply In_E4_bank.
    destruct (banks_facts stmts consts (bn, regs) Hb) as [_ H]. cbv zeta in H. cbn [fst snd] in H.
    destruct (H i o Hl Hi Ho) as [H1 _]. apply H1.
    - destruct Hn as [->| ->]; [left | right; left]; reflexivity.
    - apply (S1_decls_In fixed dmy dmy). unfold declared_names in Hd. apply in_app_iff in Hd. exact Hd.
  Qed.

  (* ---- pass 4 ---- *)
  Lemma In_E4_unset s consts x :
    In x (unset_errors s (TT s consts) (fold_left addf (all_in_names (t_banks (TT s consts))) (s_needed s))) ->
    In x (E4 s consts).
  Proof. intros H. unfold errs4_of. apply in_or_app. right. exact H. Qed.

  Theorem unset_wire_reported_holds : stmt_unset_wire_reported f fixed is_lower is_upper.
  Proof.
    intros stmts n Hw Ha. apply wrap_ab. intros consts _ _. apply In_E4_unset.
    unfold unset_errors. apply in_flat_map. exists n. split.
    - apply fold_add_set_In. left. apply (S1_needed_In fixed dmy dmy). exact Hw.
    - assert (H1 : has (s_assigns (S1 stmts)) n = false).
      { destruct (has (s_assigns (S1 stmts)) n) eqn:E; [|reflexivity].
        apply (S1_assigns_has fixed dmy dmy) in E. contradiction. }
      assert (H2 : mem_str n (s_decls (S1 stmts)) = true).
      { apply mem_str_In. apply (S1_decls_In fixed dmy dmy). right. exact Hw. }
      rewrite H1, H2. left. reflexivity.
  Qed.

  Lemma sigs_in_names banks sg : In sg (sigs_of banks) -> In (sg_in sg) (all_in_names banks).
  Proof.
    unfold sigs_of, all_in_names. intros H. apply in_flat_map in H. destruct H as [b [H1 H2]].
    apply in_flat_map. exists b. split; [exact H1|]. apply in_map_iff. exists sg. split; [reflexivity | exact H2].
  Qed.

  Lemma in_names_sigs banks n : In n (all_in_names banks) -> exists sg, In sg (sigs_of banks) /\ sg_in sg = n.
  Proof.
    unfold sigs_of, all_in_names. intros H. apply in_flat_map in H. destruct H as [b [H1 H2]].
    apply in_map_iff in H2. destruct H2 as [sg [H2 H3]]. exists sg. split; [|exact H2].
    apply in_flat_map. exists b. split; assumption.
  Qed.

  (* a register that joined its bank and is never assigned *)
  Lemma unset_input_core stmts consts i o r w d :
    In (reg_sig i o (r, w, d)) (sigs_of (t_banks (TT (S1 stmts) consts))) ->
    ~ In (i ++ "_" ++ r)%string (assigned_names stmts) ->
    In (mkErr UnsetRegisterInputWire [(i ++ "_" ++ r)%string]) (E4 (S1 stmts) consts).
  Proof.
    intros Hsg Ha. apply In_E4_unset. destruct (T3_spans_ok stmts consts _ Hsg) as [K1 K2].
    unfold reg_sig in K1, K2. cbn [sg_in fst snd] in K1, K2.
    unfold unset_errors. apply in_flat_map. exists (i ++ "_" ++ r)%string. split.
    - apply fold_add_set_In. right. apply (sigs_in_names _ _ Hsg).
    - assert (H1 : has (s_assigns (S1 stmts)) (i ++ "_" ++ r)%string = false).
      { destruct (has (s_assigns (S1 stmts)) (i ++ "_" ++ r)%string) eqn:E; [|reflexivity].
        apply (S1_assigns_has fixed dmy dmy) in E. contradiction. }
      rewrite H1, K2. apply mem_str_In in K1. rewrite K1. left. reflexivity.
  Qed.

  (* ph_d of CompleteProofs, from the clauses about banks alone *)
  Lemma banks_clean_ok stmts cv consts :
    banks_clean f is_lower is_upper cv stmts -> (forall n, cv n <> None <-> In n (const_names stmts)) ->
    (forall n, lookup consts n = cv n) ->
    t_errs (TT (S1 stmts) consts) = [] /\
    Forall2 bank_matches (bank_decls stmts) (t_banks (TT (S1 stmts) consts)).
  Proof.
    intros [B1 B2 B3 B4 B5 B6 B7] Hdom Hcv. unfold LoopProofs.T3. rewrite S1_banks_eq.
    assert (Hundecl : forall n, In n (bank_signal_names stmts ++ bank_specials stmts) -> ~ In n (s_decls (S1 stmts))).
    { intros n Hn Hd. apply (S1_decls_In fixed dmy dmy) in Hd. apply (B3 n Hn). unfold declared_names. apply in_or_app. exact Hd. }
    destruct (step3_banks_ok f is_lower is_upper (S1 stmts) consts (bank_decls stmts)
                (mkSt3 [] [] (s_types (S1 stmts)) [] [] [])) as [nb [E1 [E2 E3]]].
    - intros b Hb. destruct (B1 b Hb) as [i [o [Hl [Hi Ho]]]]. exists i, o.
      split; [exact Hl|]. split; [exact Hi|]. split; [exact Ho|].
      assert (Hsp : forall x, In x [("stall_" ++ o)%string; ("bubble_" ++ o)%string] -> ~ In x (s_decls (S1 stmts))).
      { intros x Hx. apply Hundecl. apply in_or_app. right. unfold bank_specials. apply in_flat_map.
        exists b. split; [exact Hb|]. rewrite Hl. exact Hx. }
      split; [apply Hsp; left; reflexivity|]. split; [apply Hsp; right; left; reflexivity|].
      intros r Hr.
      assert (Hx : In ((i ++ "_" ++ fst (fst r))%string, (o ++ "_" ++ fst (fst r))%string, snd (fst r), snd r) (bank_regs stmts)).
      { unfold bank_regs. apply in_flat_map. exists b. split; [exact Hb|]. rewrite Hl.
        apply in_map_iff. exists r. split; [reflexivity | exact Hr]. }
      split; [|split; [|split]].
      + intros rf Hrf. pose proof (B4 _ rf Hx Hrf) as Hc. apply Hdom in Hc.
        assert (Hh : has consts rf = true).
        { unfold has. rewrite Hcv. destruct (cv rf); [reflexivity | contradiction Hc; reflexivity]. }
        rewrite Hh. apply andb_false_r.
      + destruct (has (s_assigns (S1 stmts)) (o ++ "_" ++ fst (fst r))%string) eqn:Eh; [|reflexivity]. exfalso.
        apply (S1_assigns_has fixed dmy dmy) in Eh. revert Eh. apply B7.
        unfold bank_outputs. apply in_map_iff. eexists. split; [|exact Hx]. reflexivity.
      + destruct (B5 _ Hx) as [wc Hwc]. cbn [reg_init snd] in Hwc. exists wc.
        rewrite (check_ext f (cenv consts) (cwidth cv) (lookup consts) cv); [apply check_iff; exact Hwc|].
        intros n _. unfold cenv, cwidth. rewrite Hcv. split; reflexivity.
      + destruct (B6 _ Hx) as [v [H1 H2]]. cbn [reg_init reg_width fst snd] in H1, H2.
        exists v. split; [|exact H2]. rewrite (eval_ext f (lookup consts) cv); [exact H1|]. intros n _. apply Hcv.
    - rewrite <- bank_signal_names_eq. exact B2.
    - intros x Hx. cbn [t_seen]. split; [intros []|]. apply Hundecl. apply in_or_app. left.
      rewrite bank_signal_names_eq. exact Hx.
    - cbn [t_errs t_banks app] in E1, E2. split; [exact E1|]. rewrite E2. exact E3.
  Qed.

  Theorem unset_register_input_reported_holds : stmt_unset_register_input_reported f fixed is_lower is_upper.
  Proof.
    intros stmts bn i o r w d Hreg Ha.
    destruct (declared_register_bank _ _ _ _ _ _ _ Hreg) as [b [Hb [Hl [Hi [Ho Hr]]]]].
    assert (Hcore : forall consts,
              In (mkErr UnsetRegisterInputWire [(i ++ "_" ++ r)%string]) (E4 (S1 stmts) consts) \/
              exists x, In x (t_errs (TT (S1 stmts) consts)) /\ bank_diag (ek x) = true).
    { intros consts. destruct (banks_facts stmts consts b Hb) as [_ H]. cbv zeta in H.
      destruct (H i o Hl Hi Ho) as [_ [_ H3]]. destruct (H3 (r, w, d) Hr) as [Hsg|Hx]; [left | right; exact Hx].
      apply (unset_input_core stmts consts i o r w d Hsg Ha). }
    split.
    - intros cv Hf Hbc. apply (wrap_a stmts cv _ Hf). intros consts _ _ Hcv.
      destruct (Hcore consts) as [H|[x [Hx _]]]; [exact H|]. exfalso.
      destruct Hf as [_ [_ Hdom _ _]].
      destruct (banks_clean_ok stmts cv consts Hbc Hdom Hcv) as [E _]. rewrite E in Hx. exact Hx.
    - apply (wrap_b stmts _ (fun es => exists x, In x es /\ bank_diag (ek x) = true)).
      intros consts _ _. destruct (Hcore consts) as [H|[x [Hx Hk]]]; [left; exact H|]. right.
      assert (Hin : In x (E4 (S1 stmts) consts)) by (apply In_E4_bank; exact Hx).
      split; [intros E; rewrite E in Hin; exact Hin|]. exists x. split; assumption.
  Qed.

  (* ---- the kinds of a rejection by passes 3-4: the third branch of the check is dead ---- *)
  Lemma E4_kinds stmts consts :
    kinds (fun k => bank_diag k || unset_diag k) (E4 (S1 stmts) consts).
  Proof.
    unfold errs4_of. apply kinds_app. split.
    - apply (kinds_mono bank_diag); [intros k Hk; rewrite Hk; reflexivity | apply T3_bank_kinds].
    - unfold unset_errors. apply kinds_flat_map. intros n Hn. apply fold_add_set_In in Hn.
      destruct (has (s_assigns (S1 stmts)) n); [apply kinds_nil|].
      destruct (mem_str n (s_decls (S1 stmts))) eqn:Ed; [apply kinds_one; apply orb_true_r|].
      destruct Hn as [Hn|Hn].
      + exfalso. apply (S1_needed_In fixed dmy dmy) in Hn. apply mem_str_false in Ed. apply Ed.
        apply (S1_decls_In fixed dmy dmy). right. exact Hn.
      + apply in_names_sigs in Hn. destruct Hn as [sg [Hsg <-]].
        destruct (T3_spans_ok stmts consts sg Hsg) as [K1 _]. apply mem_str_In in K1. rewrite K1.
        apply kinds_one. apply orb_true_r.
  Qed.
End Mid.

(* ---- the cleanliness groups are groups of clauses of fault_free_with -------------------------- *)
Lemma fault_free_front_clean f fixed il iu cv G stmts :
  fault_free_with f fixed il iu cv G stmts -> front_clean f fixed cv stmts.
Proof.
  intros FF. split.
  - constructor.
    + apply (ff_declared_once _ _ _ _ _ _ _ FF).
    + apply (ff_not_builtin _ _ _ _ _ _ _ FF).
    + apply (ff_assigned_once _ _ _ _ _ _ _ FF).
    + intros n Hn. destruct (ff_no_driver _ _ _ _ _ _ _ FF n Hn) as [H1 [H2 _]]. split; assumption.
    + apply (ff_consts_closed _ _ _ _ _ _ _ FF).
  - constructor.
    + apply (ff_consts_acyclic _ _ _ _ _ _ _ FF).
    + apply (ff_cv_domain _ _ _ _ _ _ _ FF).
    + apply (ff_consts_eval _ _ _ _ _ _ _ FF).
    + apply (ff_consts_width _ _ _ _ _ _ _ FF).
Qed.

Lemma fault_free_banks_clean f fixed il iu cv G stmts :
  fault_free_with f fixed il iu cv G stmts -> banks_clean f il iu cv stmts.
Proof.
  intros FF. constructor.
  - apply (ff_bank_name _ _ _ _ _ _ _ FF).
  - apply (ff_bank_signals_distinct _ _ _ _ _ _ _ FF).
  - apply (ff_bank_signals_undeclared _ _ _ _ _ _ _ FF).
  - apply (ff_init_closed _ _ _ _ _ _ _ FF).
  - apply (ff_init_width _ _ _ _ _ _ _ FF).
  - apply (ff_init_eval _ _ _ _ _ _ _ FF).
  - intros n Hn Ha. destruct (ff_no_driver _ _ _ _ _ _ _ FF n Ha) as [_ [_ H]]. exact (H Hn).
Qed.

(* ---- passes 1-2 clean, by computation ---------------------------------------------------------- *)
Definition cv_of (stmts : list stmt) : string -> option wval :=
  match resolve_constants gen_features (s_consts (decls_of gen_fixed stmts)) with
  | Ok c => lookup c
  | Err _ => fun _ => None
  end.

Lemma front_clean_by_computation stmts :
  errs1 gen_fixed stmts = [] ->
  is_ok (resolve_constants gen_features (s_consts (decls_of gen_fixed stmts))) = true ->
  front_clean gen_features gen_fixed (cv_of stmts) stmts.
Proof.
  intros H1 H2. apply front_clean_exact_holds. split; [exact H1|]. unfold cv_of.
  destruct (resolve_constants gen_features (s_consts (decls_of gen_fixed stmts))) as [c|es]; [|discriminate H2].
  exists c. split; reflexivity.
Qed.

(* ---- passes 3-4 on the compiled table ---------------------------------------------------------- *)
Example ex_bank_name :
  gdiags "register PP { a : 8 = 0; } register abc { a : 8 = 0; } pc = 0; Stat = 1;"
    = [mkErr InvalidRegisterBankName ["PP"]; mkErr InvalidRegisterBankName ["abc"]].
Proof. vm_compute. reflexivity. Qed.

Example ex_assigned_register_output :
  gdiags "register xY { a : 8 = 0; } x_a = 0; Y_a = 1; pc = 0; Stat = 1;" = [mkErr DoubleAssignedRegisterWire ["Y_a"]].
Proof. vm_compute. reflexivity. Qed.

Example ex_init_reads_wire :
  (* one diagnostic per occurrence, as for constants *)
  gdiags "wire w : 8; w = 1; register xY { a : 8 = w + w; b : 64 = pc; } x_a = Y_a; x_b = Y_b; pc = 0; Stat = 1;"
    = [mkErr NonConstantWireRead ["w"]; mkErr NonConstantWireRead ["w"]; mkErr NonConstantWireRead ["pc"]].
Proof. vm_compute. reflexivity. Qed.

Example ex_bank_signal_declared :
  gdiags "wire x_a : 8, Y_b : 8, stall_Y : 1; x_a = 1; Y_b = 1; stall_Y = 0; register xY { a : 8 = 0; b : 8 = 0; } x_b = 1; pc = 0; Stat = 1;"
    = [mkErr RedeclaredWire ["stall_Y"]; mkErr RedeclaredWire ["x_a"]; mkErr RedeclaredWire ["Y_b"];
       mkErr DoubleAssignedRegisterWire ["Y_b"]].
Proof. vm_compute. reflexivity. Qed.

Example ex_unset :
  (* every missing assignment is reported, wires and register inputs together *)
  gdiags "wire u : 8, v : 8; pc = 0; Stat = 1;" = [mkErr UnsetWire ["u"]; mkErr UnsetWire ["v"]] /\
  gdiags "register xY { a : 8 = 0; b : 8 = 0; } pc = 0; Stat = 1;"
    = [mkErr UnsetRegisterInputWire ["x_a"]; mkErr UnsetRegisterInputWire ["x_b"]] /\
  (* ... and the later faults (reg_dstE without reg_inputE, y undeclared, Stat missing) are not looked for *)
  gdiags "wire u : 8; register xY { a : 8 = 0; } reg_dstE = 0; y = 1; pc = 0;"
    = [mkErr UnsetWire ["u"]; mkErr UnsetRegisterInputWire ["x_a"]].
Proof. vm_compute. repeat split; reflexivity. Qed.

(* passes 3 and 4 are reported together - but a register with a complaint is dropped, so its
   never-assigned input is NOT asked for (x_a, x_b below): the exception in
   stmt_unset_register_input_reported is real.  The Rust code does the same ("if found_error
   { continue }" precedes the insertion into register_in_spans / signals). *)
Example ex_banks_and_unset_together :
  gdiags "wire u : 8; register xY { a : 8 = 0; b : 8 = u; } Y_a = 1; pc = 0; Stat = 1;"
    = [mkErr DoubleAssignedRegisterWire ["Y_a"]; mkErr NonConstantWireRead ["u"]; mkErr UnsetWire ["u"]] /\
  gdiags "register xY { a : 8 = 0; } Y_a = 1; pc = 0; Stat = 1;" = [mkErr DoubleAssignedRegisterWire ["Y_a"]].
Proof. vm_compute. split; reflexivity. Qed.

(* an initial value reading a REGISTER signal: not in the class of stmt_init_reads_wire_reported
   (the bank signals are not "wires" yet); the checker then reports the first name it does not
   know, as undeclared - one diagnostic, whatever else the expression reads *)
Example ex_init_reads_register_signal :
  gdiags "register xY { a : 8 = Y_b; b : 8 = 0; } x_a = 0; x_b = 0; pc = 0; Stat = 1;" = [mkErr UndeclaredWireRead ["Y_b"]] /\
  gdiags "register xY { a : 8 = Y_b + x_a; b : 8 = 0; } x_a = 0; x_b = 0; pc = 0; Stat = 1;" = [mkErr UndeclaredWireRead ["Y_b"]] /\
  gdiags "wire w : 8; w = 0; register xY { a : 8 = Y_b + w; b : 8 = 0; } x_a = 0; x_b = 0; pc = 0; Stat = 1;"
    = [mkErr NonConstantWireRead ["w"]].
Proof. vm_compute. repeat split; reflexivity. Qed.

(* non-vacuity of the hypotheses of the (a) forms *)
Definition ex_unset_prog : list stmt := hcl "const K = 3; wire u : 8; register xY { a : 8 = K; } pc = 0; Stat = 1;".

Example ex_unset_front_clean : front_clean gen_features gen_fixed (cv_of ex_unset_prog) ex_unset_prog.
Proof. apply front_clean_by_computation; vm_compute; reflexivity. Qed.

Example ex_unset_declared_register :
  declared_register ascii_lower ascii_upper ex_unset_prog "xY" "x" "Y" "a" (Bits 8) (EWire "K").
Proof. exists [("a", Bits 8, EWire "K")]. vm_compute. repeat split; try reflexivity; left; reflexivity. Qed.

Example ex_unset_banks_clean : banks_clean gen_features ascii_lower ascii_upper (cv_of ex_unset_prog) ex_unset_prog.
Proof.
  constructor.
  - intros b Hb. vm_compute in Hb. destruct Hb as [<-|[]]. exists "x", "Y". vm_compute. repeat split; reflexivity.
  - vm_compute. repeat constructor; intros H; repeat (destruct H as [H|H]; [discriminate H|]); exact H.
  - intros n Hn Hd. vm_compute in Hn, Hd.
    repeat (destruct Hn as [Hn|Hn]; [subst n; repeat (destruct Hd as [Hd|Hd]; [discriminate Hd|]); exact Hd|]). exact Hn.
  - intros x r Hx Hr. vm_compute in Hx. destruct Hx as [<-|[]]. vm_compute in Hr. destruct Hr as [<-|[]]. vm_compute. left. reflexivity.
  - intros x Hx. vm_compute in Hx. destruct Hx as [<-|[]]. exists Unl. apply check_iff. vm_compute. reflexivity.
  - intros x Hx. vm_compute in Hx. destruct Hx as [<-|[]]. exists (mkV 3 Unl). split; [vm_compute; reflexivity | vm_compute; discriminate].
  - intros n Hn Ha. vm_compute in Hn, Ha. repeat (destruct Ha as [Ha|Ha]; [subst n; repeat (destruct Hn as [Hn|Hn]; [discriminate Hn|]); exact Hn|]). exact Ha.
Qed.

Example ex_unset_instance :
  reports gen_features gen_fixed ascii_lower ascii_upper ex_unset_prog (mkErr UnsetWire ["u"]) /\
  reports gen_features gen_fixed ascii_lower ascii_upper ex_unset_prog (mkErr UnsetRegisterInputWire ["x_a"]).
Proof.
  split.
  - apply (proj1 (unset_wire_reported_holds _ _ _ _ ex_unset_prog "u" ltac:(vm_compute; left; reflexivity)
                    ltac:(vm_compute; intros [H|[H|[]]]; discriminate H)) _ ex_unset_front_clean).
  - apply (proj1 (unset_register_input_reported_holds _ _ _ _ ex_unset_prog _ _ _ _ _ _ ex_unset_declared_register
                    ltac:(vm_compute; intros [H|[H|[]]]; discriminate H)) _ ex_unset_front_clean ex_unset_banks_clean).
Qed.

(* ================================================================================== *)
(* Part 6: pass 5a (built-in components) at the level of the model                      *)
(* ================================================================================== *)
Section Pre.
  Variable f : features.
  Variable consts : list (string * wval).
  Variable assigns : list (string * expr).

  Notation pacc := (graph string * list (string * fixed_fn) * list fixed_fn * list err)%type.
  Definition acc_g (a : pacc) : graph string := fst (fst (fst a)).
  Definition acc_by (a : pacc) : list (string * fixed_fn) := snd (fst (fst a)).

  Definition miss (ff : fixed_fn) : list string := filter (fun n => negb (has assigns n)) (fixed_in_names ff).
  Definition given (ff : fixed_fn) : list string := filter (fun n => has assigns n) (fixed_in_names ff).
  (* the builder's test "the component is switched off" *)
  Definition off (ff : fixed_fn) : bool :=
    match ff_enable ff with
    | Some en =>
        match lookup assigns en with
        | Some ee => match eval f (lookup consts) ee with
                     | Ok v => negb (is_true v)
                     | Err _ => false
                     end
        | None => false
        end
    | None => false
    end.

  Lemma preprocess_one_facts g by_out no_out errs ff :
    let a' := preprocess_one f consts assigns (g, by_out, no_out, errs) ff in
    (forall x, In x errs -> In x (snd a')) /\
    (forall x, In x (g_nodes g) -> In x (g_nodes (acc_g a'))) /\
    (forall n, has (acc_by a') n = true -> has by_out n = true \/ exists w, ff_out ff = Some (n, w)) /\
    (ff_mandatory ff = true -> forall j, In j (miss ff) -> In (mkErr UnsetBuiltinWire [j]) (snd a')) /\
    (ff_mandatory ff = false -> forall o w, ff_out ff = Some (o, w) -> In o (g_nodes g) ->
       forall j, In j (miss ff) -> In (mkErr UnsetBuiltinWire [j]) (snd a')) /\
    (ff_mandatory ff = false -> miss ff <> [] -> given ff <> [] -> off ff = false ->
       In (mkErr PartialFixedInput (given ff ++ ["/"] ++ miss ff)) (snd a')).
  Proof.
    unfold preprocess_one. cbv beta iota zeta. fold (miss ff). fold (given ff). fold (off ff).
    assert (Hinst : forall errs1, (forall x, In x errs -> In x errs1) ->
              let a' := match ff_out ff with
                        | Some (o, _) => (fold_left (fun g1 n => graph_insert g1 n o) (fixed_in_names ff) g, upd by_out o ff, no_out, errs1)
                        | None => (g, by_out, no_out ++ [ff], errs1)
                        end in
              (forall x, In x errs -> In x (snd a')) /\
              (forall x, In x (g_nodes g) -> In x (g_nodes (acc_g a'))) /\
              (forall n, has (acc_by a') n = true -> has by_out n = true \/ exists w, ff_out ff = Some (n, w)) /\
              snd a' = errs1).
    { intros errs1 Hsub. cbv zeta. destruct (ff_out ff) as [[o w]|]; cbn [fst snd acc_g acc_by].
      - split; [exact Hsub|]. split; [intros x Hx; apply CompleteProofs.insert_fold_nodes_mono; exact Hx|].
        split; [|reflexivity]. intros n Hn. rewrite has_upd in Hn. apply orb_true_iff in Hn.
        destruct Hn as [Hn|Hn]; [|left; exact Hn]. apply String.eqb_eq in Hn. subst n. right. exists w. reflexivity.
      - split; [exact Hsub|]. split; [intros x Hx; exact Hx|]. split; [|reflexivity]. intros n Hn. left. exact Hn. }
    destruct (miss ff) as [|m ms] eqn:Em.
    - destruct (Hinst errs (fun x Hx => Hx)) as [H1 [H2 [H3 H4]]]. cbv zeta in *.
      split; [exact H1|]. split; [exact H2|]. split; [exact H3|].
      split; [intros _ j []|]. split; [intros _ o w _ _ j []|]. intros _ Hne. contradiction Hne. reflexivity.
    - destruct (ff_mandatory ff) eqn:Eman.
      + destruct (Hinst (errs ++ map (fun n => mkErr UnsetBuiltinWire [n]) (m :: ms)))
          as [H1 [H2 [H3 H4]]]; [intros x Hx; apply in_or_app; left; exact Hx|]. cbv zeta in *.
        split; [exact H1|]. split; [exact H2|]. split; [exact H3|].
        split; [|split; intros Hx; discriminate Hx].
        intros _ j Hj. rewrite H4. apply in_or_app. right. apply in_map_iff. exists j. split; [reflexivity | exact Hj].
      + cbn [fst snd acc_g acc_by].
        split; [intros x Hx; apply in_or_app; left; exact Hx|]. split; [intros x Hx; exact Hx|].
        split; [intros n Hn; left; exact Hn|]. split; [intros Hx; discriminate Hx|].
        split.
        * intros _ o w Ho Hnode j Hj. apply in_or_app. right. apply in_or_app. left. rewrite Ho.
          unfold graph_has_node. apply mem_str_In in Hnode. rewrite Hnode.
          apply in_map_iff. exists j. split; [reflexivity | exact Hj].
        * intros _ _ Hg Hoff. apply in_or_app. right. apply in_or_app. right.
          assert (Hlen : (List.length (m :: ms) =? List.length (ff_ins ff))%nat = false).
          { apply Nat.eqb_neq. destruct (given ff) as [|i0 gs] eqn:Eg; [contradiction Hg; reflexivity|].
            assert (Hi : In i0 (given ff)) by (rewrite Eg; left; reflexivity).
            unfold given in Hi. apply filter_In in Hi. destruct Hi as [Hi1 Hi2].
            pose proof (filter_length_lt (fun n => negb (has assigns n)) (fixed_in_names ff) i0 Hi1) as Hlt.
            cbv beta in Hlt. rewrite Hi2 in Hlt. specialize (Hlt eq_refl). fold (miss ff) in Hlt. rewrite Em in Hlt.
            unfold fixed_in_names in Hlt. rewrite map_length in Hlt. lia. }
          rewrite Hlen, Hoff. left. reflexivity.
  Qed.

  Lemma preprocess_fold_facts : forall l g by_out no_out errs,
    let a' := fold_left (preprocess_one f consts assigns) l (g, by_out, no_out, errs) in
    (forall x, In x errs -> In x (snd a')) /\
    (forall x, In x (g_nodes g) -> In x (g_nodes (acc_g a'))) /\
    (forall n, has (acc_by a') n = true -> has by_out n = true \/ In n (fixed_out_names l)) /\
    (forall ff, In ff l ->
       (ff_mandatory ff = true -> forall j, In j (miss ff) -> In (mkErr UnsetBuiltinWire [j]) (snd a')) /\
       (ff_mandatory ff = false -> forall o w, ff_out ff = Some (o, w) -> In o (g_nodes g) ->
          forall j, In j (miss ff) -> In (mkErr UnsetBuiltinWire [j]) (snd a')) /\
       (ff_mandatory ff = false -> miss ff <> [] -> given ff <> [] -> off ff = false ->
          In (mkErr PartialFixedInput (given ff ++ ["/"] ++ miss ff)) (snd a'))).
  Proof.
    induction l as [|c l IH]; intros g by_out no_out errs; cbn [fold_left]; cbv zeta.
    - cbn [snd acc_g acc_by fst]. split; [intros x Hx; exact Hx|]. split; [intros x Hx; exact Hx|].
      split; [intros n Hn; left; exact Hn|]. intros ff [].
    - destruct (preprocess_one_facts g by_out no_out errs c) as [F1 [F2 [F3 [F4 [F5 F6]]]]]. cbv zeta in *.
      destruct (preprocess_one f consts assigns (g, by_out, no_out, errs) c) as [[[g1 by1] no1] errs1] eqn:E1.
      cbn [fst snd acc_g acc_by] in *.
      destruct (IH g1 by1 no1 errs1) as [I1 [I2 [I3 I4]]]. cbv zeta in *.
      split; [intros x Hx; apply I1, F1; exact Hx|].
      split; [intros x Hx; apply I2, F2; exact Hx|].
      split.
      { intros n Hn. destruct (I3 n Hn) as [H|H].
        - destruct (F3 n H) as [H'|[w Hw]]; [left; exact H'|]. right. rewrite fixed_out_names_cons, Hw. left. reflexivity.
        - right. rewrite fixed_out_names_cons. apply in_or_app. right. exact H. }
      intros ff [<-|Hff].
      + split; [intros Hm j Hj; apply I1; apply (F4 Hm j Hj)|].
        split; [intros Hm o w Ho Hn j Hj; apply I1; apply (F5 Hm o w Ho Hn j Hj)|].
        intros Hm H1 H2 H3. apply I1. apply (F6 Hm H1 H2 H3).
      + destruct (I4 ff Hff) as [G1 [G2 G3]]. split; [exact G1|]. split; [|exact G3].
        intros Hm o w Ho Hn j Hj. apply (G2 Hm o w Ho (F2 o Hn) j Hj).
  Qed.
End Pre.

(* ================================================================================== *)
(* Part 7: the statements about pass 5a                                                 *)
(* ================================================================================== *)
Section Pass5a.
  Variable f : features.
  Variable fixed : list fixed_fn.
  Variable is_lower : string -> bool.
  Variable is_upper : string -> bool.

  Notation build := (build_program f fixed is_lower is_upper).
  Notation S1 stmts := (fold_left (step1 fixed) stmts (init1 fixed)).
  Notation reports := (reports f fixed is_lower is_upper).
  Notation reports_unless := (reports_unless f fixed is_lower is_upper).
  Notation TT s c := (LoopProofs.T3 f is_lower is_upper s c).
  Notation E4 s c := (errs4_of f is_lower is_upper s c).
  Notation PRE s c := (pre_of f fixed is_lower is_upper s c).
  Notation KN s c := (known_of f is_lower is_upper s c).
  Notation addf := (fun (l : list string) (x : string) => add_set x l).

  Lemma build_pre5 stmts consts :
    errs1 fixed stmts = [] -> resolve_constants f (s_consts (S1 stmts)) = Ok consts ->
    E4 (S1 stmts) consts = [] -> snd (PRE (S1 stmts) consts) <> [] ->
    build stmts = Err (snd (PRE (S1 stmts) consts)).
  Proof.
    intros H1 Hr H4 H5. unfold build_program. cbv zeta. unfold errs1 in H1. rewrite H1, Hr. cbn [bind].
    fold (TT (S1 stmts) consts). fold (E4 (S1 stmts) consts). rewrite H4.
    unfold assignments_to_actions. fold (KN (S1 stmts) consts). fold (PRE (S1 stmts) consts).
    destruct (PRE (S1 stmts) consts) as [[[g by_out] no_out] errs0]. cbn [snd] in H5.
    destruct errs0 as [|x l]; [contradiction H5; reflexivity | reflexivity].
  Qed.

  (* passes 1 to 4: either they reject, or all four are clean *)
  Lemma middle_cases stmts :
    (exists es, build stmts = Err es /\ before_components es) \/
    (errs1 fixed stmts = [] /\ exists consts, resolve_constants f (s_consts (S1 stmts)) = Ok consts /\
                                              E4 (S1 stmts) consts = []).
  Proof.
    destruct (front_cases f fixed is_lower is_upper stmts) as [[es [Hb Hk]]|[E1 [consts Hr]]].
    - left. exists es. split; [exact Hb | left; exact Hk].
    - destruct (E4 (S1 stmts) consts) as [|x l] eqn:E.
      + right. split; [exact E1|]. exists consts. split; [exact Hr | exact E].
      + left. exists (x :: l). split.
        * rewrite <- E. apply build_errs4; [exact E1 | exact Hr | rewrite E; discriminate].
        * right. split; [discriminate|]. rewrite <- E. apply E4_kinds.
  Qed.

  Lemma middle_clean_model stmts cv : middle_clean f fixed is_lower is_upper cv stmts ->
    errs1 fixed stmts = [] /\ exists consts, resolve_constants f (s_consts (S1 stmts)) = Ok consts /\
      (forall n, lookup consts n = cv n) /\ E4 (S1 stmts) consts = [] /\
      Forall2 bank_matches (bank_decls stmts) (t_banks (TT (S1 stmts) consts)).
  Proof.
    intros [Hf [Hb Hd]]. destruct (front_clean_model f fixed stmts cv Hf) as [E1 [consts [Hr Hcv]]].
    split; [exact E1|]. exists consts. split; [exact Hr|]. split; [exact Hcv|].
    destruct Hf as [_ [_ Hdom _ _]].
    destruct (banks_clean_ok f fixed is_lower is_upper stmts cv consts Hb Hdom Hcv) as [Ht Hm].
    split; [|exact Hm]. unfold errs4_of. rewrite Ht. cbn [app].
    unfold unset_errors. apply flat_map_all_nil. intros n Hn. apply fold_add_set_In in Hn.
    assert (Ha : has (s_assigns (S1 stmts)) n = true).
    { apply (S1_assigns_has fixed dmy dmy). apply Hd. apply in_or_app. destruct Hn as [Hn|Hn].
      - left. apply (S1_needed_In fixed dmy dmy). exact Hn.
      - right. rewrite bank_inputs_eq. rewrite <- (banks_match_ins _ _ Hm). exact Hn. }
    rewrite Ha. reflexivity.
  Qed.

  Lemma wrap5_a stmts cv d : middle_clean f fixed is_lower is_upper cv stmts ->
    (forall consts, errs1 fixed stmts = [] -> resolve_constants f (s_consts (S1 stmts)) = Ok consts ->
                    (forall n, lookup consts n = cv n) -> E4 (S1 stmts) consts = [] ->
                    In d (snd (PRE (S1 stmts) consts))) ->
    reports stmts d.
  Proof.
    intros Hm H. destruct (middle_clean_model stmts cv Hm) as [E1 [consts [Hr [Hcv [H4 _]]]]].
    pose proof (H consts E1 Hr Hcv H4) as Hin. exists (snd (PRE (S1 stmts) consts)). split; [|exact Hin].
    apply build_pre5; try assumption. intros E. rewrite E in Hin. exact Hin.
  Qed.

  Lemma wrap5_b stmts d :
    (forall consts, errs1 fixed stmts = [] -> resolve_constants f (s_consts (S1 stmts)) = Ok consts ->
                    E4 (S1 stmts) consts = [] -> In d (snd (PRE (S1 stmts) consts))) ->
    reports_unless before_components stmts d.
  Proof.
    intros H. destruct (middle_cases stmts) as [[es [Hb Hk]]|[E1 [consts [Hr H4]]]].
    - exists es. split; [exact Hb | right; exact Hk].
    - pose proof (H consts E1 Hr H4) as Hin. exists (snd (PRE (S1 stmts) consts)). split; [|left; exact Hin].
      apply build_pre5; try assumption. intros E. rewrite E in Hin. exact Hin.
  Qed.

  (* the builder's "is assigned" test is membership in assigned_names *)
  Lemma has_assigns_mem stmts n : has (s_assigns (S1 stmts)) n = mem_str n (assigned_names stmts).
  Proof.
    destruct (mem_str n (assigned_names stmts)) eqn:E.
    - apply mem_str_In in E. apply (S1_assigns_has fixed dmy dmy). exact E.
    - destruct (has (s_assigns (S1 stmts)) n) eqn:Eh; [|reflexivity].
      apply (S1_assigns_has fixed dmy dmy) in Eh. apply mem_str_false in E. contradiction.
  Qed.

  Lemma miss_missing stmts c : miss (s_assigns (S1 stmts)) c = missing_inputs stmts c.
  Proof. unfold miss, missing_inputs. apply filter_ext. intros n. rewrite has_assigns_mem. reflexivity. Qed.

  Lemma given_given stmts c : given (s_assigns (S1 stmts)) c = given_inputs stmts c.
  Proof. unfold given, given_inputs. apply filter_ext. intros n. apply has_assigns_mem. Qed.

  Lemma In_missing stmts c j : In j (fixed_in_names c) -> ~ In j (assigned_names stmts) -> In j (missing_inputs stmts c).
  Proof.
    intros H1 H2. unfold missing_inputs. apply filter_In. split; [exact H1|].
    apply mem_str_false in H2. rewrite H2. reflexivity.
  Qed.

  Lemma In_given stmts c i : In i (fixed_in_names c) -> In i (assigned_names stmts) -> In i (given_inputs stmts c).
  Proof.
    intros H1 H2. unfold given_inputs. apply filter_In. split; [exact H1|]. apply mem_str_In. exact H2.
  Qed.

  Lemma pre_facts stmts consts c : In c fixed ->
    let a := s_assigns (S1 stmts) in
    (ff_mandatory c = true -> forall j, In j (miss a c) -> In (mkErr UnsetBuiltinWire [j]) (snd (PRE (S1 stmts) consts))) /\
    (ff_mandatory c = false -> forall o w, ff_out c = Some (o, w) ->
       In o (g_nodes (assign_graph a (KN (S1 stmts) consts))) ->
       forall j, In j (miss a c) -> In (mkErr UnsetBuiltinWire [j]) (snd (PRE (S1 stmts) consts))) /\
    (ff_mandatory c = false -> miss a c <> [] -> given a c <> [] -> off f consts a c = false ->
       In (mkErr PartialFixedInput (given a c ++ ["/"] ++ miss a c)) (snd (PRE (S1 stmts) consts))).
  Proof.
    intros Hc. cbv zeta. unfold pre_of.
    destruct (preprocess_fold_facts f consts (s_assigns (S1 stmts)) fixed
                (assign_graph (s_assigns (S1 stmts)) (KN (S1 stmts) consts)) [] [] []) as [_ [_ [_ H]]].
    apply (H c Hc).
  Qed.

  Theorem mandatory_input_reported_holds : stmt_mandatory_input_reported f fixed is_lower is_upper.
  Proof.
    intros stmts c j Hc Hm Hj Ha.
    assert (Hcore : forall consts, In (mkErr UnsetBuiltinWire [j]) (snd (PRE (S1 stmts) consts))).
    { intros consts. destruct (pre_facts stmts consts c Hc) as [H _]. cbv zeta in H. apply (H Hm).
      rewrite miss_missing. apply In_missing; assumption. }
    split.
    - intros cv Hmc. apply (wrap5_a stmts cv _ Hmc). intros consts _ _ _ _. apply Hcore.
    - apply wrap5_b. intros consts _ _ _. apply Hcore.
  Qed.

  (* a name the sorter's graph does not treat as known *)
  Lemma bank_output_In stmts x : bank_output stmts x -> In x (bank_outputs stmts).
  Proof.
    intros [name [regs [inp [outp [rname [w [dflt [H1 [H2 [H3 ->]]]]]]]]]].
    unfold bank_outputs, bank_regs. apply in_map_iff.
    exists ((inp ++ "_" ++ rname)%string, (outp ++ "_" ++ rname)%string, w, dflt). split; [reflexivity|].
    apply in_flat_map. exists (name, regs). split.
    - unfold bank_decls. apply in_flat_map. exists (SBank name regs). split; [exact H1 | left; reflexivity].
    - cbn [fst snd]. unfold bank_letters. rewrite H2. apply in_map_iff. exists (rname, w, dflt). split; [reflexivity | exact H3].
  Qed.

  Lemma defaulted_control_In stmts x : defaulted_control stmts x -> In x (bank_specials stmts).
  Proof.
    intros [name [regs [inp [outp [H1 [H2 [H3 _]]]]]]].
    unfold bank_specials. apply in_flat_map. exists (name, regs). split.
    - unfold bank_decls. apply in_flat_map. exists (SBank name regs). split; [exact H1 | left; reflexivity].
    - cbn [fst]. unfold bank_letters. rewrite H2. destruct H3 as [->| ->]; [left | right; left]; reflexivity.
  Qed.

  Lemma not_known stmts consts x :
    resolve_constants f (s_consts (S1 stmts)) = Ok consts -> E4 (S1 stmts) consts = [] ->
    ~ In x (bank_outputs stmts) -> ~ In x (bank_specials stmts) -> ~ In x (const_names stmts) ->
    mem_str x (KN (S1 stmts) consts) = false.
  Proof.
    intros Hr H4 K1 K2 K3. apply mem_str_false. unfold known_of. rewrite !in_app_iff.
    unfold errs4_of in H4. apply app_eq_nil in H4. destruct H4 as [Hte _].
    intros [H|[H|H]].
    - apply (T3_outs f is_lower is_upper fixed stmts consts Hte x) in H. apply K1. apply bank_output_In. exact H.
    - apply (T3_dfl f is_lower is_upper fixed stmts consts Hte x) in H. apply K2. apply (defaulted_control_In _ _ H).
    - apply K3. apply (consts_keys_names f fixed stmts consts x Hr). apply has_In. exact H.
  Qed.

  Lemma clean_model_decls stmts : errs1 fixed stmts = [] -> decls_clean fixed stmts.
  Proof. intros H. apply (decls_clean_exact_holds fixed). exact H. Qed.

  (* a name read by an assignment and not known is a node of the graph *)
  Lemma read_is_node stmts consts y e x :
    errs1 fixed stmts = [] -> In (y, e) (assign_exprs stmts) -> In x (refs e) ->
    mem_str x (KN (S1 stmts) consts) = false ->
    In x (g_nodes (assign_graph (s_assigns (S1 stmts)) (KN (S1 stmts) consts))).
  Proof.
    intros E1 Hye Hx Hk. pose proof (clean_model_decls stmts E1) as Hd.
    destruct (assign_graph_facts (s_assigns (S1 stmts)) (KN (S1 stmts) consts) (S1_assigns_NoDup fixed stmts))
      as [W [G2 _]].
    assert (Hedge : gedge (assign_graph (s_assigns (S1 stmts)) (KN (S1 stmts) consts)) x y).
    { apply G2. exists e. rewrite (clean_assigns_exact fixed stmts Hd). repeat split; assumption. }
    apply (gedge_source_node _ x y W Hedge).
  Qed.

  Theorem needed_output_reported_holds : stmt_needed_output_reported f fixed is_lower is_upper.
  Proof.
    intros stmts c o w y e j Hc Hm Ho Hye Hoe K1 K2 Hj Ha.
    assert (Hcore : forall consts, errs1 fixed stmts = [] -> resolve_constants f (s_consts (S1 stmts)) = Ok consts ->
              E4 (S1 stmts) consts = [] -> In (mkErr UnsetBuiltinWire [j]) (snd (PRE (S1 stmts) consts))).
    { intros consts E1 Hr H4. destruct (pre_facts stmts consts c Hc) as [_ [H _]]. cbv zeta in H.
      apply (H Hm o w Ho); [|rewrite miss_missing; apply In_missing; assumption].
      apply (read_is_node stmts consts y e o E1 Hye Hoe). apply (not_known stmts consts o Hr H4 K1 K2).
      destruct (clean_model_decls stmts E1) as [_ C2 _ _ _]. intros Hcn. apply (C2 o).
      - unfold declared_names. apply in_or_app. left. exact Hcn.
      - apply fixed_out_in_names. apply (In_fixed_out_names fixed c o w Hc Ho). }
    split.
    - intros cv Hmc. apply (wrap5_a stmts cv _ Hmc). intros consts E1 Hr _ H4. apply Hcore; assumption.
    - apply wrap5_b. intros consts E1 Hr H4. apply Hcore; assumption.
  Qed.

  (* not switched off, in the builder's terms *)
  Lemma off_false stmts consts cv c :
    errs1 fixed stmts = [] -> (forall n, lookup consts n = cv n) ->
    ~ switched_off f cv stmts c -> off f consts (s_assigns (S1 stmts)) c = false.
  Proof.
    intros E1 Hcv Hns. pose proof (clean_model_decls stmts E1) as Hd. unfold off.
    destruct (ff_enable c) as [en|] eqn:Een; [|reflexivity].
    destruct (lookup (s_assigns (S1 stmts)) en) as [ee|] eqn:El; [|reflexivity].
    destruct (eval f (lookup consts) ee) as [v|es] eqn:Ev; [|reflexivity].
    destruct (is_true v) eqn:Et; [reflexivity|]. exfalso. apply Hns. exists en, ee, v.
    split; [exact Een|]. split.
    - apply lookup_In in El. rewrite (clean_assigns_exact fixed stmts Hd) in El. exact El.
    - split; [|exact Et]. rewrite <- (eval_ext f (lookup consts) cv); [exact Ev|]. intros n _. apply Hcv.
  Qed.

  Theorem partial_component_reported_holds : stmt_partial_component_reported f fixed is_lower is_upper.
  Proof.
    intros stmts c i j Hc Hm Hi Hia Hj Hja.
    assert (Hcore : forall consts, off f consts (s_assigns (S1 stmts)) c = false ->
              In (mkErr PartialFixedInput (given_inputs stmts c ++ ["/"] ++ missing_inputs stmts c))
                 (snd (PRE (S1 stmts) consts))).
    { intros consts Hoff. destruct (pre_facts stmts consts c Hc) as [_ [_ H]]. cbv zeta in H.
      rewrite miss_missing, given_given in H. apply (H Hm); [| |exact Hoff].
      - intros E. pose proof (In_missing stmts c j Hj Hja) as Hin. rewrite E in Hin. exact Hin.
      - intros E. pose proof (In_given stmts c i Hi Hia) as Hin. rewrite E in Hin. exact Hin. }
    split.
    - intros cv Hmc Hns. apply (wrap5_a stmts cv _ Hmc). intros consts E1 _ Hcv _. apply Hcore.
      apply (off_false stmts consts cv c E1 Hcv Hns).
    - intros Hns. apply wrap5_b. intros consts E1 Hr _. apply Hcore.
      apply (off_false stmts consts (lookup consts) c E1 (fun n => eq_refl)). apply Hns.
      apply front_clean_exact_holds. split; [exact E1|]. exists consts. split; [exact Hr | intros n; reflexivity].
  Qed.
End Pass5a.

(* ================================================================================== *)
(* Part 8: pass 5b (the scheduler) at the level of the model                            *)
(* ================================================================================== *)
Section Sched.
  Variable f : features.
  Variable widths : list (string * width).
  Variable consts : list (string * wval).
  Variable assigns : list (string * expr).
  Variable by_out : list (string * fixed_fn).
  Variable decls : list string.

  Lemma schedule_facts : forall order acts errs und acts' errs' und',
    schedule f widths consts assigns by_out decls order acts errs und = (acts', errs', und') ->
    (forall x, In x errs -> In x errs') /\ (forall n, In n und -> In n und') /\
    (forall n, In n order ->
       (forall e, lookup assigns n = Some e -> lookup widths n = None ->
                  In (mkErr UndeclaredWireAssigned [n]) errs') /\
       (lookup assigns n = None -> lookup by_out n = None -> mem_str n decls = false -> In n und') /\
       (forall e w es, lookup assigns n = Some e -> lookup widths n = Some w ->
                       check f (lookup widths) (lookup consts) e = Err es -> forall x, In x es -> In x errs')).
  Proof.
    induction order as [|n r IH]; intros acts errs und acts' errs' und' H; cbn [schedule] in H.
    - injection H as <- <- <-. split; [intros x Hx; exact Hx|]. split; [intros n Hn; exact Hn|]. intros n [].
    - destruct (lookup assigns n) as [e|] eqn:El.
      + destruct (lookup widths n) as [w|] eqn:Ew.
        * destruct (check f (lookup widths) (lookup consts) e) as [we|es] eqn:Ec.
          -- destruct (IH _ _ _ _ _ _ H) as [I1 [I2 I3]].
             split; [intros x Hx; apply I1; apply in_or_app; left; exact Hx|]. split; [exact I2|].
             intros m [Hm|Hm]; [subst m|apply (I3 m Hm)].
             split; [intros e0 _ Hw; congruence|]. split; [intros Hx; congruence|].
             intros e0 w0 es0 He0 _ Hc. congruence.
          -- destruct (IH _ _ _ _ _ _ H) as [I1 [I2 I3]].
             split; [intros x Hx; apply I1; apply in_or_app; left; exact Hx|]. split; [exact I2|].
             intros m [Hm|Hm]; [subst m|apply (I3 m Hm)].
             split; [intros e0 _ Hw; congruence|]. split; [intros Hx; congruence|].
             intros e0 w0 es0 He0 _ Hc x Hx. assert (e0 = e) by congruence. subst e0.
             assert (es0 = es) by congruence. subst es0. apply I1. apply in_or_app. right. exact Hx.
        * destruct (IH _ _ _ _ _ _ H) as [I1 [I2 I3]].
          split; [intros x Hx; apply I1; apply in_or_app; left; exact Hx|]. split; [exact I2|].
          intros m [Hm|Hm]; [subst m|apply (I3 m Hm)].
          split; [intros e0 _ _; apply I1; apply in_or_app; right; left; reflexivity|].
          split; [intros Hx; congruence|]. intros e0 w0 es0 _ Hw. congruence.
      + destruct (lookup by_out n) as [ff|] eqn:Eb.
        * destruct (IH _ _ _ _ _ _ H) as [I1 [I2 I3]].
          split; [exact I1|]. split; [exact I2|].
          intros m [Hm|Hm]; [subst m|apply (I3 m Hm)].
          split; [intros e0 He; congruence|]. split; [intros _ Hx; congruence|].
          intros e0 w0 es0 He. congruence.
        * destruct (mem_str n decls) eqn:Ed.
          -- destruct (IH _ _ _ _ _ _ H) as [I1 [I2 I3]].
             split; [intros x Hx; apply I1; apply in_or_app; left; exact Hx|]. split; [exact I2|].
             intros m [Hm|Hm]; [subst m|apply (I3 m Hm)].
             split; [intros e0 He; congruence|]. split; [intros _ _ Hx; congruence|].
             intros e0 w0 es0 He. congruence.
          -- destruct (IH _ _ _ _ _ _ H) as [I1 [I2 I3]].
             split; [exact I1|]. split; [intros m Hm; apply I2; apply add_set_In; left; exact Hm|].
             intros m [Hm|Hm]; [subst m|apply (I3 m Hm)].
             split; [intros e0 He; congruence|].
             split; [intros _ _ _; apply I2; apply add_set_In; right; reflexivity|].
             intros e0 w0 es0 He. congruence.
  Qed.
End Sched.

(* the kinds of the built-in component pass *)
Lemma preprocess_one_comp_kinds f consts assigns acc ff :
  kinds component_diag (snd acc) -> kinds component_diag (snd (preprocess_one f consts assigns acc ff)).
Proof.
  destruct acc as [[[g by_out] no_out] errs]. cbn [snd]. intros He.
  unfold preprocess_one. cbv beta iota zeta.
  assert (Hm : forall l : list string, kinds component_diag (map (fun n => mkErr UnsetBuiltinWire [n]) l)).
  { intros l. apply (kinds_map component_diag UnsetBuiltinWire (fun n => [n])). reflexivity. }
  destruct (filter (fun n => negb (has assigns n)) (fixed_in_names ff)) as [|m ms].
  - destruct (ff_out ff) as [[o w]|]; cbn [snd]; exact He.
  - destruct (ff_mandatory ff).
    + destruct (ff_out ff) as [[o w]|]; cbn [snd]; (apply kinds_app; split; [exact He | apply Hm]).
    + cbn [snd]. apply kinds_app. split; [exact He|]. apply kinds_app. split.
      * destruct (ff_out ff) as [[o w]|]; [|apply kinds_nil].
        destruct (graph_has_node g o); [apply Hm | apply kinds_nil].
      * match goal with |- context [if ?b then _ else _] => destruct b end; [apply kinds_nil|].
        match goal with |- context [if ?b then _ else _] => destruct b end;
          [apply kinds_nil | apply kinds_one; reflexivity].
Qed.

Lemma preprocess_comp_kinds f fixed consts assigns g0 :
  kinds component_diag (snd (fold_left (preprocess_one f consts assigns) fixed (g0, [], [], []))).
Proof. apply (fold_kinds snd); [intros acc ff; apply preprocess_one_comp_kinds | apply kinds_nil]. Qed.

(* ---- where the banks of the bank pass come from ------------------------------------------------ *)
Section BankOrigin.
  Variable f : features.
  Variable is_lower is_upper : string -> bool.

  Notation racc := (st3 * list (string * string * width) * list (string * wval))%type.

  Lemma fold_regs_origin s consts bn inp outp : forall regs (a : racc) sg,
    In sg (r_sigs (fold_left (step3_register f s consts bn inp outp) regs a)) ->
    In sg (r_sigs a) \/ exists r, In r regs /\ sg = reg_sig inp outp r.
  Proof.
    induction regs as [|r regs IH]; intros a sg H; cbn [fold_left] in H; [left; exact H|].
    apply IH in H. destruct H as [H|[r0 [H1 H2]]]; [|right; exists r0; split; [right; exact H1 | exact H2]].
    destruct (step3_register_facts f is_lower is_upper s consts bn inp outp a r) as [_ [_ [_ [_ [_ F6]]]]].
    cbv zeta in F6. destruct F6 as [[E _]|[E _]]; rewrite E in H.
    - apply in_app_iff in H. destruct H as [H|[<-|[]]]; [left; exact H|]. right. exists r. split; [left; reflexivity | reflexivity].
    - left. exact H.
  Qed.

  Definition bank_origin (bd : list (string * list (string * width * expr))) (bk : bank) : Prop :=
    exists b i o, In b bd /\ bank_letters (fst b) = Some (i, o) /\
      (forall sg, In sg (b_signals bk) -> exists r, In r (snd b) /\ sg = reg_sig i o r) /\
      b_stall bk = ("stall_" ++ o)%string /\ b_bubble bk = ("bubble_" ++ o)%string.

  Lemma step3_bank_origin bd s consts t b :
    In b bd -> (forall bk, In bk (t_banks t) -> bank_origin bd bk) ->
    forall bk, In bk (t_banks (step3_bank f is_lower is_upper s consts t b)) -> bank_origin bd bk.
  Proof.
    destruct b as [name regs]. intros Hb Ht. unfold step3_bank. cbv beta iota.
    destruct (utf8_chars name "") as [|inp [|outp [|x l]]] eqn:Eu; try exact Ht.
    destruct (negb (is_lower inp) || negb (is_upper outp)); [exact Ht|].
    match goal with
    | |- context [fold_left (step3_register f s consts name inp outp) regs ?A] => set (A0 := A)
    end.
    pose proof (fold_regs_origin s consts name inp outp regs A0) as Ho.
    destruct (fold_regs_facts f is_lower is_upper s consts name inp outp regs A0) as [_ [_ [R3 _]]]. cbv zeta in R3.
    destruct (fold_left (step3_register f s consts name inp outp) regs A0) as [[t2 sigs] dfl].
    unfold A0 in *. cbn [fst snd r_t r_sigs t_banks] in *.
    intros bk Hbk. apply in_app_iff in Hbk. destruct Hbk as [Hbk|[<-|[]]].
    - apply Ht. rewrite <- R3. exact Hbk.
    - exists (name, regs), inp, outp. split; [exact Hb|]. split; [apply bank_letters_chars; exact Eu|].
      split; [|split; reflexivity]. cbn [b_signals snd]. intros sg Hsg. destruct (Ho sg Hsg) as [[]|H]. exact H.
  Qed.

  Lemma fold_banks_origin bd s consts : forall banks t,
    (forall b, In b banks -> In b bd) -> (forall bk, In bk (t_banks t) -> bank_origin bd bk) ->
    forall bk, In bk (t_banks (fold_left (step3_bank f is_lower is_upper s consts) banks t)) -> bank_origin bd bk.
  Proof.
    induction banks as [|b banks IH]; intros t Hsub Ht; cbn [fold_left]; [exact Ht|].
    apply IH; [intros b0 Hb0; apply Hsub; right; exact Hb0|].
    apply step3_bank_origin; [apply Hsub; left; reflexivity | exact Ht].
  Qed.
End BankOrigin.

(* ================================================================================== *)
(* Part 9: the statements about pass 5b                                                 *)
(* ================================================================================== *)
Section Pass5b.
  Variable f : features.
  Variable fixed : list fixed_fn.
  Variable is_lower : string -> bool.
  Variable is_upper : string -> bool.
  Hypothesis TD : table_distinct fixed.

  Notation build := (build_program f fixed is_lower is_upper).
  Notation S1 stmts := (fold_left (step1 fixed) stmts (init1 fixed)).
  Notation reports := (reports f fixed is_lower is_upper).
  Notation reports_unless := (reports_unless f fixed is_lower is_upper).
  Notation TT s c := (LoopProofs.T3 f is_lower is_upper s c).
  Notation E4 s c := (errs4_of f is_lower is_upper s c).
  Notation PRE s c := (pre_of f fixed is_lower is_upper s c).
  Notation KN s c := (known_of f is_lower is_upper s c).
  Notation WG s c := (wire_graph f fixed is_lower is_upper s c).
  Notation WD s c := (widths_of s (TT s c) c).

  Lemma TD_loop : fixed_table_distinct fixed.
  Proof.
    destruct TD as [H1 H2]. split; [|exact H2]. apply Forall_forall. intros c Hc. apply (H1 c Hc).
  Qed.

  (* the diagnostics of the scheduler for a given order *)
  Definition sched_errs (stmts : list stmt) (consts : list (string * wval)) (order : list string) : list err :=
    let '(acts, errs, und) :=
      schedule f (WD (S1 stmts) consts) consts (s_assigns (S1 stmts)) (acc_by (PRE (S1 stmts) consts))
               (s_decls (S1 stmts)) order [] [] [] in
    errs ++ map (fun n => mkErr UnsetUndeclaredWire [n]) und.

  Lemma build_sorted stmts consts :
    errs1 fixed stmts = [] -> resolve_constants f (s_consts (S1 stmts)) = Ok consts ->
    E4 (S1 stmts) consts = [] -> snd (PRE (S1 stmts) consts) = [] ->
    (forall cyc, toposort string String.eqb (WG (S1 stmts) consts) = Ok (inr cyc) ->
                 build stmts = Err [mkErr WireLoop cyc]) /\
    (forall order, toposort string String.eqb (WG (S1 stmts) consts) = Ok (inl order) ->
                   sched_errs stmts consts order <> [] -> build stmts = Err (sched_errs stmts consts order)).
  Proof.
    intros H1 Hr H4 H5. unfold build_program. cbv zeta. unfold errs1 in H1. rewrite H1, Hr. cbn [bind].
    fold (TT (S1 stmts) consts). fold (E4 (S1 stmts) consts). rewrite H4.
    fold (WD (S1 stmts) consts).
    unfold assignments_to_actions. fold (KN (S1 stmts) consts). fold (PRE (S1 stmts) consts).
    unfold sched_errs, wire_graph.
    destruct (PRE (S1 stmts) consts) as [[[g by_out] no_out] errs0]. cbn [snd fst acc_by] in *. subst errs0.
    split.
    - intros cyc Ht. rewrite Ht. reflexivity.
    - intros order Ht Hne. rewrite Ht. cbn [bind].
      destruct (schedule f (WD (S1 stmts) consts) consts (s_assigns (S1 stmts)) by_out (s_decls (S1 stmts)) order [] [] [])
        as [[acts errs] und].
      destruct (errs ++ map (fun n => mkErr UnsetUndeclaredWire [n]) und) as [|x l];
        [contradiction Hne; reflexivity | reflexivity].
  Qed.

  Lemma sched_reach stmts consts :
    errs1 fixed stmts = [] -> resolve_constants f (s_consts (S1 stmts)) = Ok consts ->
    E4 (S1 stmts) consts = [] -> snd (PRE (S1 stmts) consts) = [] ->
    (exists cyc, gcycle (WG (S1 stmts) consts) cyc /\ build stmts = Err [mkErr WireLoop cyc]) \/
    (exists order, toposort string String.eqb (WG (S1 stmts) consts) = Ok (inl order) /\
                   forall n, In n order <-> In n (g_nodes (WG (S1 stmts) consts))).
  Proof.
    intros H1 Hr H4 H5.
    assert (Hready : sort_ready f fixed is_lower is_upper stmts consts) by (repeat split; assumption).
    destruct (wire_edges f fixed is_lower is_upper stmts consts TD_loop Hready) as [W _].
    destruct (build_sorted stmts consts H1 Hr H4 H5) as [B1 _].
    destruct (toposort_total _ W) as [[order [Ht _]]|[cyc [Ht Hc]]].
    - right. exists order. split; [exact Ht|].
      destruct (order_valid string String.eqb String.eqb_eq _ order W Ht) as [_ [L2 _]]. exact L2.
    - left. exists cyc. split; [exact Hc | apply B1; exact Ht].
  Qed.

  (* (b): reported unless an earlier pass (or the sorter) rejects *)
  Lemma wrap_sched_b stmts d :
    (forall consts order, errs1 fixed stmts = [] -> resolve_constants f (s_consts (S1 stmts)) = Ok consts ->
        E4 (S1 stmts) consts = [] -> snd (PRE (S1 stmts) consts) = [] ->
        (forall n, In n order <-> In n (g_nodes (WG (S1 stmts) consts))) ->
        In d (sched_errs stmts consts order)) ->
    reports_unless before_schedule stmts d.
  Proof.
    intros H. destruct (middle_cases f fixed is_lower is_upper stmts) as [[es [Hb Hk]]|[E1 [consts [Hr H4]]]].
    - exists es. split; [exact Hb | right; left; exact Hk].
    - destruct (snd (PRE (S1 stmts) consts)) as [|x l] eqn:E5.
      2:{ exists (x :: l). split.
          - rewrite <- E5. apply build_pre5; try assumption. rewrite E5. discriminate.
          - right. right. left. split; [discriminate|]. rewrite <- E5. unfold pre_of. apply preprocess_comp_kinds. }
      destruct (sched_reach stmts consts E1 Hr H4 E5) as [[cyc [_ Hb]]|[order [Ht Hn]]].
      + exists [mkErr WireLoop cyc]. split; [exact Hb|]. right. right. right. exists cyc. reflexivity.
      + pose proof (H consts order E1 Hr H4 E5 Hn) as Hin. exists (sched_errs stmts consts order).
        split; [|left; exact Hin]. destruct (build_sorted stmts consts E1 Hr H4 E5) as [_ B2].
        apply B2; [exact Ht|]. intros E. rewrite E in Hin. exact Hin.
  Qed.

  (* the built-in components have no complaint *)
  Lemma components_clean_ok stmts cv consts :
    errs1 fixed stmts = [] -> resolve_constants f (s_consts (S1 stmts)) = Ok consts ->
    (forall n, lookup consts n = cv n) -> E4 (S1 stmts) consts = [] ->
    components_clean f fixed cv stmts -> snd (PRE (S1 stmts) consts) = [].
  Proof.
    intros E1 Hr Hcv H4 [C1 C2 C3]. pose proof (clean_model_decls fixed stmts E1) as Hd.
    pose proof (clean_assigns_exact fixed stmts Hd) as HA. destruct Hd as [D1 D2 D3 D4 D5].
    unfold pre_of. set (A := s_assigns (S1 stmts)) in *. set (known := KN (S1 stmts) consts).
    assert (HA1 : NoDup (map fst A)) by apply S1_assigns_NoDup.
    assert (Hhas : forall n, has A n = true <-> In n (assigned_names stmts)).
    { intros n. unfold A. apply (S1_assigns_has fixed dmy dmy). }
    destruct (assign_graph_facts A known HA1) as [G1 [G2 G3]].
    assert (Hnotout : forall o, In o (fixed_out_names fixed) -> ~ In o (assigned_names stmts)).
    { intros o Ho Ha. destruct (D4 o Ha) as [H _]. exact (H Ho). }
    assert (Hall : forall c, inputs_assigned stmts c -> all_assigned A c).
    { intros c Hc i Hi. apply Hhas. apply Hc. exact Hi. }
    destruct (preprocess_ok f consts A fixed (assign_graph A known) [] [] G1)
      as [g' [by' [no' [F1 _]]]].
    - apply TD.
    - apply Forall_forall. intros c Hc. apply (proj1 TD c Hc).
    - intros o Ho x Hxo. apply G2 in Hxo. destruct Hxo as [e [Hoe _]].
      apply (Hnotout o Ho). apply Hhas. apply has_In. apply (in_map fst) in Hoe. exact Hoe.
    - intros c o w Hc Ho Hnode. apply Hall.
      apply assign_graph_nodes in Hnode. destruct Hnode as [Hnode|[y [e [H1 [H2 _]]]]].
      + exfalso. apply (Hnotout o (In_fixed_out_names fixed c o w Hc Ho)). apply Hhas. apply has_In. exact Hnode.
      + rewrite HA in H1. apply (C3 c o w y e Hc Ho H1 H2).
    - intros o Ho. destruct (has A o) eqn:E; [|reflexivity]. exfalso. apply (Hnotout o Ho). apply Hhas. exact E.
    - intros c Hc. split.
      + intros Hm. apply Hall. apply (C1 c Hc Hm).
      + intros Hm i j Hi Hit Hj Hjf.
        destruct (C2 c i j Hc Hm Hi) as [en [e [v [K1 [K2 [K3 K4]]]]]].
        * apply Hhas. exact Hit.
        * exact Hj.
        * intros Hja. apply Hhas in Hja. rewrite Hja in Hjf. discriminate Hjf.
        * exists en, e, v. split; [exact K1|]. split.
          -- apply In_lookup; [exact HA1|]. rewrite HA. exact K2.
          -- split; [|exact K4]. rewrite (eval_ext f (lookup consts) cv); [exact K3|]. intros n _. apply Hcv.
    - rewrite F1. reflexivity.
  Qed.

  (* (a): reported when everything before the scheduler is clean *)
  Lemma wrap_sched_a stmts cv d :
    middle_clean f fixed is_lower is_upper cv stmts -> components_clean f fixed cv stmts ->
    (forall c, ~ wire_cycle fixed stmts c) ->
    (forall consts order, errs1 fixed stmts = [] -> resolve_constants f (s_consts (S1 stmts)) = Ok consts ->
        E4 (S1 stmts) consts = [] -> snd (PRE (S1 stmts) consts) = [] ->
        (forall n, In n order <-> In n (g_nodes (WG (S1 stmts) consts))) ->
        In d (sched_errs stmts consts order)) ->
    reports stmts d.
  Proof.
    intros Hm Hc Hac H. destruct (middle_clean_model f fixed is_lower is_upper stmts cv Hm) as [E1 [consts [Hr [Hcv [H4 _]]]]].
    pose proof (components_clean_ok stmts cv consts E1 Hr Hcv H4 Hc) as E5.
    destruct (sched_reach stmts consts E1 Hr H4 E5) as [[cyc [Hcyc _]]|[order [Ht Hn]]].
    - exfalso. apply (Hac cyc).
      apply (wire_cycle_iff f fixed is_lower is_upper stmts consts cyc TD_loop); [|exact Hcyc]. repeat split; assumption.
    - pose proof (H consts order E1 Hr H4 E5 Hn) as Hin. exists (sched_errs stmts consts order).
      split; [|exact Hin]. destruct (build_sorted stmts consts E1 Hr H4 E5) as [_ B2].
      apply B2; [exact Ht|]. intros E. rewrite E in Hin. exact Hin.
  Qed.

  Lemma sched_errs_facts stmts consts order n : In n order ->
    (forall e, lookup (s_assigns (S1 stmts)) n = Some e -> lookup (WD (S1 stmts) consts) n = None ->
               In (mkErr UndeclaredWireAssigned [n]) (sched_errs stmts consts order)) /\
    (lookup (s_assigns (S1 stmts)) n = None -> lookup (acc_by (PRE (S1 stmts) consts)) n = None ->
     mem_str n (s_decls (S1 stmts)) = false -> In (mkErr UnsetUndeclaredWire [n]) (sched_errs stmts consts order)).
  Proof.
    intros Hn. unfold sched_errs.
    destruct (schedule f (WD (S1 stmts) consts) consts (s_assigns (S1 stmts)) (acc_by (PRE (S1 stmts) consts))
                       (s_decls (S1 stmts)) order [] [] []) as [[acts errs] und] eqn:Es.
    destruct (schedule_facts f _ _ _ _ _ _ _ _ _ _ _ _ Es) as [_ [_ H]]. destruct (H n Hn) as [K1 [K2 _]]. split.
    - intros e He Hw. apply in_or_app. left. apply (K1 e He Hw).
    - intros Ha Hb Hd. apply in_or_app. right. apply in_map_iff. exists n. split; [reflexivity | apply (K2 Ha Hb Hd)].
  Qed.

  (* every node of the graph the sorter gets that comes from the assignments *)
  Lemma g0_node_WG stmts consts x :
    In x (g_nodes (assign_graph (s_assigns (S1 stmts)) (KN (S1 stmts) consts))) ->
    In x (g_nodes (WG (S1 stmts) consts)).
  Proof.
    intros H. unfold wire_graph, pre_of.
    destruct (preprocess_fold_facts f consts (s_assigns (S1 stmts)) fixed
                (assign_graph (s_assigns (S1 stmts)) (KN (S1 stmts) consts)) [] [] []) as [_ [H2 _]].
    apply H2. exact H.
  Qed.

  Lemma by_out_keys stmts consts n : has (acc_by (PRE (S1 stmts) consts)) n = true -> In n (fixed_out_names fixed).
  Proof.
    intros H. unfold pre_of in H.
    destruct (preprocess_fold_facts f consts (s_assigns (S1 stmts)) fixed
                (assign_graph (s_assigns (S1 stmts)) (KN (S1 stmts) consts)) [] [] []) as [_ [_ [H3 _]]].
    destruct (H3 n H) as [Hx|Hx]; [discriminate Hx | exact Hx].
  Qed.

  (* the names the banks of the bank pass give widths to *)
  Lemma bank_wires_names stmts consts x w :
    In (x, w) (bank_wires (t_banks (TT (S1 stmts) consts))) ->
    In x (bank_signal_names stmts) \/ In x (bank_specials stmts).
  Proof.
    intros H.
    assert (Horig : forall bk, In bk (t_banks (TT (S1 stmts) consts)) -> bank_origin (bank_decls stmts) bk).
    { unfold LoopProofs.T3. rewrite (S1_banks_eq fixed).
      apply (fold_banks_origin f is_lower is_upper (bank_decls stmts)); [intros b Hb; exact Hb | intros bk []]. }
    apply In_bank_wires in H. destruct H as [[sg [H1 [H2 _]]]|[bk [H1 [H2 _]]]].
    - unfold sigs_of in H1. apply in_flat_map in H1. destruct H1 as [bk [Hbk Hsg]].
      destruct (Horig bk Hbk) as [b [i [o [Hb [Hl [Hs _]]]]]]. destruct (Hs sg Hsg) as [r [Hr ->]].
      left. unfold bank_signal_names. apply in_flat_map.
      exists ((i ++ "_" ++ fst (fst r))%string, (o ++ "_" ++ fst (fst r))%string, snd (fst r), snd r). split.
      + unfold bank_regs. apply in_flat_map. exists b. split; [exact Hb|]. rewrite Hl.
        apply in_map_iff. exists r. split; [reflexivity | exact Hr].
      + exact H2.
    - destruct (Horig bk H1) as [b [i [o [Hb [Hl [_ [Hst Hbu]]]]]]]. right.
      unfold bank_specials. apply in_flat_map. exists b. split; [exact Hb|]. rewrite Hl.
      destruct H2 as [->| ->]; [left; symmetry; exact Hst | right; left; symmetry; exact Hbu].
  Qed.

  Lemma widths_none stmts consts n :
    resolve_constants f (s_consts (S1 stmts)) = Ok consts -> undeclared fixed stmts n ->
    lookup (WD (S1 stmts) consts) n = None.
  Proof.
    intros Hr [U1 [U2 [U3 U4]]]. rewrite widths_of_eq. rewrite fold_upd_lookup_notin; [reflexivity|].
    unfold all_widths. rewrite !map_app, !in_app_iff. intros [H|[H|[H|H]]].
    - apply U1. exact H.
    - rewrite wpairs_names in H. apply U2. unfold declared_names. apply in_or_app. right. exact H.
    - apply in_map_iff in H. destruct H as [[x w] [Hx Hin]]. cbn [fst] in Hx. subst x.
      destruct (bank_wires_names stmts consts n w Hin) as [K|K]; [exact (U3 K) | exact (U4 K)].
    - unfold cwidths in H. rewrite map_map in H. cbn [fst] in H.
      apply U2. unfold declared_names. apply in_or_app. left.
      apply (consts_keys_names f fixed stmts consts n Hr). apply has_In. exact H.
  Qed.

  Theorem undeclared_assigned_reported_holds_td :
    forall stmts n, In n (assigned_names stmts) -> undeclared fixed stmts n ->
      (forall cv, middle_clean f fixed is_lower is_upper cv stmts -> components_clean f fixed cv stmts ->
                  (forall c, ~ wire_cycle fixed stmts c) -> reports stmts (mkErr UndeclaredWireAssigned [n])) /\
      reports_unless before_schedule stmts (mkErr UndeclaredWireAssigned [n]).
  Proof.
    intros stmts n Ha Hu.
    assert (Hcore : forall consts order, resolve_constants f (s_consts (S1 stmts)) = Ok consts ->
              (forall m, In m order <-> In m (g_nodes (WG (S1 stmts) consts))) ->
              In (mkErr UndeclaredWireAssigned [n]) (sched_errs stmts consts order)).
    { intros consts order Hr Hn.
      assert (Hh : has (s_assigns (S1 stmts)) n = true) by (apply (S1_assigns_has fixed dmy dmy); exact Ha).
      pose proof Hh as Hl. apply has_lookup in Hl. destruct Hl as [e He].
      assert (Hord : In n order).
      { apply Hn. apply g0_node_WG.
        destruct (assign_graph_facts (s_assigns (S1 stmts)) (KN (S1 stmts) consts) (S1_assigns_NoDup fixed stmts))
          as [_ [_ G3]]. apply G3. apply has_In. exact Hh. }
      destruct (sched_errs_facts stmts consts order n Hord) as [K1 _]. apply (K1 e He).
      apply widths_none; assumption. }
    split.
    - intros cv Hm Hc Hac. apply (wrap_sched_a stmts cv _ Hm Hc Hac). intros consts order _ Hr _ _ Hn. apply Hcore; assumption.
    - apply wrap_sched_b. intros consts order _ Hr _ _ Hn. apply Hcore; assumption.
  Qed.

  Theorem undriven_read_reported_holds_td :
    forall stmts y e n, In (y, e) (assign_exprs stmts) -> In n (refs e) ->
      ~ In n (assigned_names stmts) -> ~ In n (declared_names stmts) ->
      ~ In n (bank_outputs stmts) -> ~ In n (bank_specials stmts) -> ~ In n (fixed_out_names fixed) ->
      (forall cv, middle_clean f fixed is_lower is_upper cv stmts -> components_clean f fixed cv stmts ->
                  (forall c, ~ wire_cycle fixed stmts c) -> reports stmts (mkErr UnsetUndeclaredWire [n])) /\
      reports_unless before_schedule stmts (mkErr UnsetUndeclaredWire [n]).
  Proof.
    intros stmts y e n Hye Hne Ha Hd K1 K2 K3.
    assert (Hcore : forall consts order, errs1 fixed stmts = [] ->
              resolve_constants f (s_consts (S1 stmts)) = Ok consts -> E4 (S1 stmts) consts = [] ->
              (forall m, In m order <-> In m (g_nodes (WG (S1 stmts) consts))) ->
              In (mkErr UnsetUndeclaredWire [n]) (sched_errs stmts consts order)).
    { intros consts order E1 Hr H4 Hn.
      assert (Hord : In n order).
      { apply Hn. apply g0_node_WG. apply (read_is_node f fixed is_lower is_upper stmts consts y e n E1 Hye Hne).
        apply (not_known f fixed is_lower is_upper stmts consts n Hr H4 K1 K2).
        intros Hc. apply Hd. unfold declared_names. apply in_or_app. left. exact Hc. }
      destruct (sched_errs_facts stmts consts order n Hord) as [_ K]. apply K.
      - apply lookup_None. intros Hin. apply Ha. apply (S1_assigns_has fixed dmy dmy). apply has_In. exact Hin.
      - destruct (lookup (acc_by (PRE (S1 stmts) consts)) n) as [ff|] eqn:El; [|reflexivity]. exfalso. apply K3.
        apply (by_out_keys stmts consts n). unfold has. rewrite El. reflexivity.
      - apply mem_str_false. intros Hin. apply (S1_decls_In fixed dmy dmy) in Hin. apply Hd.
        unfold declared_names. apply in_or_app. exact Hin. }
    split.
    - intros cv Hm Hc Hac. apply (wrap_sched_a stmts cv _ Hm Hc Hac). intros consts order E1 Hr H4 _ Hn. apply Hcore; assumption.
    - apply wrap_sched_b. intros consts order E1 Hr H4 _ Hn. apply Hcore; assumption.
  Qed.
End Pass5b.

Theorem undeclared_assigned_reported_holds f fixed il iu : stmt_undeclared_assigned_reported f fixed il iu.
Proof. intros TD. apply undeclared_assigned_reported_holds_td. exact TD. Qed.

Theorem undriven_read_reported_holds f fixed il iu : stmt_undriven_read_reported f fixed il iu.
Proof. intros TD. apply undriven_read_reported_holds_td. exact TD. Qed.

(* ================================================================================== *)
(* Part 10: the compiled component table                                                *)
(* ================================================================================== *)
(* a built-in name is neither a register signal nor a stall_X / bubble_X: the two side
   conditions of stmt_needed_output_reported always hold for the compiled table *)
Lemma gen_name_not_bank stmts n : In n (fixed_names gen_fixed) ->
  ~ In n (bank_outputs stmts) /\ ~ In n (bank_specials stmts).
Proof.
  intros Hn. pose proof gen_fixed_ok2 as H. unfold fixed_table_ok2 in H. apply andb_true_iff in H. destruct H as [H1 _].
  destruct (fixed_sched_ok_inv gen_fixed H1) as [_ [_ Hp]]. destruct (Hp n Hn) as [P1 [P2 P3]]. split.
  - intros Hin. unfold bank_outputs, bank_regs in Hin. apply in_map_iff in Hin. destruct Hin as [x [Hx Hin]].
    apply in_flat_map in Hin. destruct Hin as [b [_ Hin]]. destruct (bank_letters (fst b)) as [[i o]|] eqn:El; [|contradiction].
    apply in_map_iff in Hin. destruct Hin as [r [<- _]]. cbn [reg_out fst snd] in Hx. subst n.
    assert (Hc : charform o).
    { apply bank_letters_chars in El. pose proof (utf8_chars_charform (fst b) "" (or_introl eq_refl)) as Hf.
      rewrite El in Hf. apply Forall_inv_tail in Hf. apply Forall_inv in Hf. exact Hf. }
    rewrite (bank_like_sig o _ Hc) in P1. discriminate P1.
  - intros Hin. unfold bank_specials in Hin. apply in_flat_map in Hin. destruct Hin as [b [_ Hin]].
    destruct (bank_letters (fst b)) as [[i o]|]; [|contradiction].
    destruct Hin as [<-|[<-|[]]].
    + rewrite sprefix_stall in P2. discriminate P2.
    + rewrite sprefix_bubble in P3. discriminate P3.
Qed.

Theorem needed_output_reported_gen_holds : stmt_needed_output_reported_gen.
Proof.
  intros f il iu stmts c o w y e j Hc Hm Ho Hye Hoe Hj Ha.
  destruct (gen_name_not_bank stmts o) as [K1 K2].
  { apply fixed_out_in_names. apply (In_fixed_out_names gen_fixed c o w Hc Ho). }
  apply (needed_output_reported_holds f gen_fixed il iu stmts c o w y e j); assumption.
Qed.

(* ---- pass 5 on the compiled table --------------------------------------------------------------- *)
Example ex_mandatory :
  gdiags "wire x : 1; x = 1;" = [mkErr UnsetBuiltinWire ["Stat"]; mkErr UnsetBuiltinWire ["pc"]].
Proof. vm_compute. reflexivity. Qed.

Example ex_partial :
  (* every partial component is reported, with the inputs given / missing in table order *)
  gdiags "reg_dstE = 0; mem_addr = 0; mem_writebit = 1; mem_readbit = 0; pc = 0; Stat = 1;"
    = [mkErr PartialFixedInput ["mem_addr"; "mem_writebit"; "/"; "mem_input"];
       mkErr PartialFixedInput ["reg_dstE"; "/"; "reg_inputE"]] /\
  (* the exemption: the enable input is 0 - literally, or computed from constants *)
  gdiags "mem_addr = 0; mem_writebit = 0; mem_readbit = 0; pc = 0; Stat = 1;" = [] /\
  gdiags "const OFF = 0; mem_addr = 0; mem_writebit = OFF & 1; mem_readbit = OFF; pc = 0; Stat = 1;" = [] /\
  (* ... but not 0 computed from a wire *)
  gdiags "wire z : 1; z = 0; mem_addr = 0; mem_writebit = z; mem_readbit = 0; pc = 0; Stat = 1;"
    = [mkErr PartialFixedInput ["mem_addr"; "mem_writebit"; "/"; "mem_input"]].
Proof. vm_compute. repeat split; reflexivity. Qed.

Example ex_needed_output :
  (* the diagnostics name the missing inputs of the components whose outputs are read *)
  gdiags "wire x : 64; x = reg_outputA + mem_output; pc = 0; Stat = 1;"
    = [mkErr UnsetBuiltinWire ["mem_addr"]; mkErr UnsetBuiltinWire ["mem_readbit"]; mkErr UnsetBuiltinWire ["reg_srcA"]] /\
  (* one fault, two diagnostics: mem_readbit is missing for the read port whose output is read
     (UnsetBuiltinWire) and the read port is partial (PartialFixedInput); the write port, which
     shares mem_addr, is partial too *)
  gdiags "wire x : 64; x = mem_output; mem_addr = 0; pc = 0; Stat = 1;"
    = [mkErr UnsetBuiltinWire ["mem_readbit"]; mkErr PartialFixedInput ["mem_addr"; "/"; "mem_readbit"];
       mkErr PartialFixedInput ["mem_addr"; "/"; "mem_input"; "mem_writebit"]].
Proof. vm_compute. split; reflexivity. Qed.

Example ex_undeclared :
  gdiags "y = 1; z = 2; pc = 0; Stat = 1;" = [mkErr UndeclaredWireAssigned ["y"]; mkErr UndeclaredWireAssigned ["z"]] /\
  (* every undeclared name that is read gets an UnsetUndeclaredWire; the checker adds an
     UndeclaredWireRead for the FIRST complaint it has about the expression only *)
  gdiags "wire x : 64; x = nosuch + other; pc = 0; Stat = 1;"
    = [mkErr UndeclaredWireRead ["nosuch"]; mkErr UnsetUndeclaredWire ["nosuch"]; mkErr UnsetUndeclaredWire ["other"]] /\
  gdiags "wire x : 64; x = (0b11 & 0b111) + nosuch; y = x; pc = 0; Stat = 1;"
    = [mkErr MismatchedExprWidths []; mkErr UndeclaredWireAssigned ["y"]; mkErr UnsetUndeclaredWire ["nosuch"]] /\
  (* a never-assigned built-in INPUT that is read: "read but never declared" *)
  gdiags "wire x : 64; x = mem_addr; pc = 0; Stat = 1;" = [mkErr UnsetUndeclaredWire ["mem_addr"]].
Proof. vm_compute. repeat split; reflexivity. Qed.

(* the passes stop at the first that complains: 4 before 5a before 5b *)
Example ex_pass_order :
  gdiags "wire u : 8; reg_dstE = 0; y = nosuch; pc = 0; Stat = 1;" = [mkErr UnsetWire ["u"]] /\
  gdiags "reg_dstE = 0; y = nosuch; pc = 0; Stat = 1;" = [mkErr PartialFixedInput ["reg_dstE"; "/"; "reg_inputE"]] /\
  gdiags "y = nosuch; pc = 0; Stat = 1;" = [mkErr UndeclaredWireAssigned ["y"]; mkErr UnsetUndeclaredWire ["nosuch"]].
Proof. vm_compute. repeat split; reflexivity. Qed.

(* ---- non-vacuity of the (a) forms of pass 5: all their hypotheses hold of a faulty program ------- *)
Definition ex_partial_prog : list stmt := hcl "const ON = 1; reg_dstE = 0; y = nosuch; pc = 0; Stat = ON;".

Lemma no_banks_clean f il iu cv stmts : bank_decls stmts = [] -> banks_clean f il iu cv stmts.
Proof.
  intros H. assert (Hr : bank_regs stmts = []) by (unfold bank_regs; rewrite H; reflexivity).
  constructor.
  - rewrite H. intros b [].
  - unfold bank_signal_names. rewrite Hr. constructor.
  - unfold bank_signal_names, bank_specials. rewrite Hr, H. intros n [].
  - rewrite Hr. intros x r [].
  - rewrite Hr. intros x [].
  - rewrite Hr. intros x [].
  - unfold bank_outputs. rewrite Hr. intros n [].
Qed.

Example ex_partial_middle_clean :
  middle_clean gen_features gen_fixed ascii_lower ascii_upper (cv_of ex_partial_prog) ex_partial_prog.
Proof.
  split; [apply front_clean_by_computation; vm_compute; reflexivity|].
  split; [apply no_banks_clean; vm_compute; reflexivity|].
  intros n Hn. vm_compute in Hn. contradiction.
Qed.

Example ex_partial_instance :
  reports gen_features gen_fixed ascii_lower ascii_upper ex_partial_prog
          (mkErr PartialFixedInput ["reg_dstE"; "/"; "reg_inputE"]).
Proof.
  pose proof (partial_component_reported_holds gen_features gen_fixed ascii_lower ascii_upper ex_partial_prog
                (mkFixed "register file write port with reg_dstE" [("reg_dstE", 4); ("reg_inputE", 64)] None None false
                         (AWriteReg "reg_dstE" "reg_inputE")) "reg_dstE" "reg_inputE") as H.
  destruct H as [H _].
  - vm_compute. do 6 right. left. reflexivity.
  - reflexivity.
  - left. reflexivity.
  - vm_compute. left. reflexivity.
  - right. left. reflexivity.
  - intros Hx. vm_compute in Hx. repeat (destruct Hx as [Hx|Hx]; [discriminate Hx|]). exact Hx.
  - apply (H _ ex_partial_middle_clean). intros [en [e [v [Hen _]]]]. discriminate Hen.
Qed.

Theorem undeclared_assigned_reported_gen_holds : stmt_undeclared_assigned_reported_gen.
Proof.
  intros f il iu stmts n Ha Hu. apply (undeclared_assigned_reported_holds f gen_fixed il iu gen_table_distinct); assumption.
Qed.

Theorem undriven_read_reported_gen_holds : stmt_undriven_read_reported_gen.
Proof.
  intros f il iu stmts y e n H1 H2 H3 H4 H5 H6 H7.
  apply (undriven_read_reported_holds f gen_fixed il iu gen_table_distinct stmts y e n); assumption.
Qed.

(* ---- non-vacuity of the (a) forms of pass 5b ----------------------------------------------------- *)
(* without reads there is no cycle: a built-in output is never a built-in input *)
Lemma no_reads_no_cycle stmts :
  (forall y e, assigned_to stmts y e -> refs e = []) -> forall c, ~ wire_cycle gen_fixed stmts c.
Proof.
  intros Hnr c Hc.
  assert (Hflow : forall a b, wire_flows gen_fixed stmts a b ->
            In b (fixed_out_names gen_fixed) /\ In a (flat_map fixed_in_names gen_fixed)).
  { intros a b [e H1 H2 _ _ _|ff w H1 _ H3 H4].
    - rewrite (Hnr b e H1) in H2. contradiction.
    - split; [apply (In_fixed_out_names gen_fixed ff b w H1 H3)|]. apply in_flat_map. exists ff. split; assumption. }
  assert (Hdisj : forall x, In x (fixed_out_names gen_fixed) -> In x (flat_map fixed_in_names gen_fixed) -> False).
  { intros x Ho Hi. vm_compute in Ho.
    repeat (destruct Ho as [Ho|Ho]; [subst x; vm_compute in Hi; repeat (destruct Hi as [Hi|Hi]; [discriminate Hi|]); exact Hi|]).
    exact Ho. }
  unfold wire_cycle, cycle_of in Hc. destruct c as [|first rest]; [exact Hc|]. destruct Hc as [Hch Hlast].
  destruct (Hflow _ _ Hlast) as [Hout _]. destruct rest as [|b rest].
  - cbn [last] in Hlast. destruct (Hflow _ _ Hlast) as [_ Hin]. exact (Hdisj first Hout Hin).
  - cbn [chain] in Hch. destruct Hch as [Hfb _]. destruct (Hflow _ _ Hfb) as [_ Hin]. exact (Hdisj first Hout Hin).
Qed.

Definition ex_undecl_prog : list stmt := hcl "y = 1; pc = 0; Stat = 1;".

Example ex_undecl_middle_clean :
  middle_clean gen_features gen_fixed ascii_lower ascii_upper (cv_of ex_undecl_prog) ex_undecl_prog.
Proof.
  split; [apply front_clean_by_computation; vm_compute; reflexivity|].
  split; [apply no_banks_clean; vm_compute; reflexivity|].
  intros n Hn. vm_compute in Hn. contradiction.
Qed.

Example ex_undecl_components_clean : components_clean gen_features gen_fixed (cv_of ex_undecl_prog) ex_undecl_prog.
Proof.
  constructor.
  - intros c Hc Hm i Hi. vm_compute in Hc.
    repeat (destruct Hc as [Hc|Hc]; [subst c; try discriminate Hm; vm_compute in Hi; destruct Hi as [<-|[]]; vm_compute; tauto|]).
    contradiction.
  - intros c i j Hc Hm Hi Hia. exfalso. vm_compute in Hc, Hia.
    repeat (destruct Hc as [Hc|Hc];
            [subst c; try discriminate Hm; vm_compute in Hi;
             repeat (destruct Hi as [Hi|Hi]; [subst i; repeat (destruct Hia as [Hia|Hia]; [discriminate Hia|]); exact Hia|]);
             exact Hi|]).
    exact Hc.
  - intros c o w y e Hc Ho Hye Hoe. exfalso. vm_compute in Hye.
    repeat (destruct Hye as [Hye|Hye]; [injection Hye as <- <-; vm_compute in Hoe; exact Hoe|]). exact Hye.
Qed.

Example ex_undecl_instance :
  reports gen_features gen_fixed ascii_lower ascii_upper ex_undecl_prog (mkErr UndeclaredWireAssigned ["y"]).
Proof.
  destruct (undeclared_assigned_reported_gen_holds gen_features ascii_lower ascii_upper ex_undecl_prog "y") as [H _].
  - vm_compute. left. reflexivity.
  - repeat split; intros Hx; vm_compute in Hx; repeat (destruct Hx as [Hx|Hx]; [discriminate Hx|]); exact Hx.
  - apply (H _ ex_undecl_middle_clean ex_undecl_components_clean). apply no_reads_no_cycle.
    intros y e [assigns [targets [H1 [H2 H3]]]]. vm_compute in H1.
    repeat (destruct H1 as [H1|H1]; [injection H1 as <-; destruct H2 as [H2|[]]; injection H2 as _ <-; reflexivity|]).
    contradiction.
Qed.

(* ---- further instances: all hypotheses of the (a) forms hold of faulty programs ------------------ *)
Definition ex_regout_prog : list stmt :=
  hcl "wire w : 8; w = 1; register xY { a : 8 = w; } Y_a = 1; x_a = 0; pc = 0; Stat = 1;".

Example ex_regout_instance :
  reports gen_features gen_fixed ascii_lower ascii_upper ex_regout_prog (mkErr DoubleAssignedRegisterWire ["Y_a"]) /\
  reports gen_features gen_fixed ascii_lower ascii_upper ex_regout_prog (mkErr NonConstantWireRead ["w"]).
Proof.
  assert (Hf : front_clean gen_features gen_fixed (cv_of ex_regout_prog) ex_regout_prog)
    by (apply front_clean_by_computation; vm_compute; reflexivity).
  assert (Hreg : declared_register ascii_lower ascii_upper ex_regout_prog "xY" "x" "Y" "a" (Bits 8) (EWire "w")).
  { exists [("a", Bits 8, EWire "w")]. vm_compute. repeat split; try reflexivity; left; reflexivity. }
  split.
  - apply (proj1 (assigned_register_output_reported_holds _ _ _ _ ex_regout_prog _ _ _ _ _ _ Hreg
                    ltac:(vm_compute; right; left; reflexivity)) _ Hf).
  - apply (proj1 (init_reads_wire_reported_holds _ _ _ _ ex_regout_prog _ _ _ _ _ _ "w" Hreg
                    ltac:(left; reflexivity) ltac:(left; vm_compute; left; reflexivity) ltac:(vm_compute; intros [])) _ Hf).
Qed.

Definition ex_needed_prog : list stmt := hcl "wire x : 64; x = reg_outputA;".

Example ex_needed_middle_clean :
  middle_clean gen_features gen_fixed ascii_lower ascii_upper (cv_of ex_needed_prog) ex_needed_prog.
Proof.
  split; [apply front_clean_by_computation; vm_compute; reflexivity|].
  split; [apply no_banks_clean; vm_compute; reflexivity|].
  intros n Hn. vm_compute in Hn. destruct Hn as [<-|[]]. vm_compute. left. reflexivity.
Qed.

(* the mandatory inputs and the input of the port whose output is read: one list *)
Example ex_needed_instance :
  reports gen_features gen_fixed ascii_lower ascii_upper ex_needed_prog (mkErr UnsetBuiltinWire ["pc"]) /\
  reports gen_features gen_fixed ascii_lower ascii_upper ex_needed_prog (mkErr UnsetBuiltinWire ["reg_srcA"]) /\
  gbuild ex_needed_prog = Err [mkErr UnsetBuiltinWire ["Stat"]; mkErr UnsetBuiltinWire ["pc"]; mkErr UnsetBuiltinWire ["reg_srcA"]].
Proof.
  split; [|split; [|vm_compute; reflexivity]].
  - apply (proj1 (mandatory_input_reported_holds gen_features gen_fixed ascii_lower ascii_upper ex_needed_prog
                    (mkFixed "instruction memory" [("pc", 64)] (Some ("i10bytes", 80)) None true
                             (AReadMemory None "pc" "i10bytes" 10 true)) "pc"
                    ltac:(vm_compute; right; left; reflexivity) eq_refl ltac:(left; reflexivity)
                    ltac:(vm_compute; intros [H|[]]; discriminate H)) _ ex_needed_middle_clean).
  - apply (proj1 (needed_output_reported_gen_holds gen_features ascii_lower ascii_upper ex_needed_prog
                    (mkFixed "register file read port with reg_srcA" [("reg_srcA", 4)] (Some ("reg_outputA", 64)) None false
                             (AReadReg "reg_srcA" "reg_outputA")) "reg_outputA" 64 "x" (EWire "reg_outputA") "reg_srcA"
                    ltac:(vm_compute; do 4 right; left; reflexivity) eq_refl eq_refl
                    ltac:(vm_compute; left; reflexivity) ltac:(left; reflexivity) ltac:(left; reflexivity)
                    ltac:(vm_compute; intros [H|[]]; discriminate H)) _ ex_needed_middle_clean).
Qed.

(* ================================================================================== *)
(* Part 11: reported together                                                           *)
(* ================================================================================== *)
Section Together.
  Variable f : features.
  Variable fixed : list fixed_fn.
  Variable is_lower : string -> bool.
  Variable is_upper : string -> bool.
  Notation build := (build_program f fixed is_lower is_upper).

  Theorem reports_same_list_holds : stmt_reports_same_list f fixed is_lower is_upper.
  Proof. intros stmts es d Hb [es' [Hb' Hin]]. rewrite Hb in Hb'. injection Hb' as <-. exact Hin. Qed.

  Theorem bank_pass_together_holds : stmt_bank_pass_together f fixed is_lower is_upper.
  Proof.
    intros stmts cv es Hf Hb. split; [|split].
    - intros name regs H1 H2. apply (reports_same_list_holds stmts es _ Hb).
      apply (proj1 (bank_name_reported_holds f fixed is_lower is_upper stmts name regs H1 H2) cv Hf).
    - intros bn i o r w d Hreg. split; [|split].
      + intros Ha. apply (reports_same_list_holds stmts es _ Hb).
        apply (proj1 (assigned_register_output_reported_holds f fixed is_lower is_upper stmts bn i o r w d Hreg Ha) cv Hf).
      + intros rf H1 H2 H3. apply (reports_same_list_holds stmts es _ Hb).
        apply (proj1 (init_reads_wire_reported_holds f fixed is_lower is_upper stmts bn i o r w d rf Hreg H1 H2 H3) cv Hf).
      + intros Hbc Ha. apply (reports_same_list_holds stmts es _ Hb).
        apply (proj1 (unset_register_input_reported_holds f fixed is_lower is_upper stmts bn i o r w d Hreg Ha) cv Hf Hbc).
    - intros n H1 H2. apply (reports_same_list_holds stmts es _ Hb).
      apply (proj1 (unset_wire_reported_holds f fixed is_lower is_upper stmts n H1 H2) cv Hf).
  Qed.

  Theorem component_pass_together_holds : stmt_component_pass_together f fixed is_lower is_upper.
  Proof.
    intros stmts cv es Hm Hb c Hc. split; [|split].
    - intros Hman j H1 H2. apply (reports_same_list_holds stmts es _ Hb).
      apply (proj1 (mandatory_input_reported_holds f fixed is_lower is_upper stmts c j Hc Hman H1 H2) cv Hm).
    - intros Hman Hns i j H1 H2 H3 H4. apply (reports_same_list_holds stmts es _ Hb).
      apply (proj1 (partial_component_reported_holds f fixed is_lower is_upper stmts c i j Hc Hman H1 H2 H3 H4) cv Hm Hns).
    - intros Hman o w y e Ho H1 H2 H3 H4 j H5 H6. apply (reports_same_list_holds stmts es _ Hb).
      apply (proj1 (needed_output_reported_holds f fixed is_lower is_upper stmts c o w y e j Hc Hman Ho H1 H2 H3 H4 H5 H6) cv Hm).
  Qed.

  Theorem schedule_pass_together_holds : stmt_schedule_pass_together f fixed is_lower is_upper.
  Proof.
    intros TD stmts cv es Hm Hc Hac Hb. split.
    - intros n H1 H2. apply (reports_same_list_holds stmts es _ Hb).
      apply (proj1 (undeclared_assigned_reported_holds f fixed is_lower is_upper TD stmts n H1 H2) cv Hm Hc Hac).
    - intros y e n H1 H2 H3 H4 H5 H6 H7. apply (reports_same_list_holds stmts es _ Hb).
      apply (proj1 (undriven_read_reported_holds f fixed is_lower is_upper TD stmts y e n H1 H2 H3 H4 H5 H6 H7) cv Hm Hc Hac).
  Qed.
End Together.

(* ================================================================================== *)
(* Part 12: every rejection is the answer of one pass                                   *)
(* ================================================================================== *)
Lemma expr_schedule k : expr_diag k = true -> schedule_diag k = true.
Proof. intros H. unfold schedule_diag. rewrite H. reflexivity. Qed.

Lemma schedule_sched_kinds f widths consts assigns by_out decls : forall order acts errs und acts' errs' und',
  schedule f widths consts assigns by_out decls order acts errs und = (acts', errs', und') ->
  kinds schedule_diag errs -> kinds schedule_diag errs'.
Proof.
  induction order as [|n r IH]; intros acts errs und acts' errs' und' H He; cbn [schedule] in H.
  - injection H as <- <- <-. exact He.
  - destruct (lookup assigns n) as [e|].
    + destruct (lookup widths n) as [w|].
      * destruct (check f (lookup widths) (lookup consts) e) as [we|es] eqn:Ec.
        -- apply (IH _ _ _ _ _ _ H). apply kinds_app. split; [exact He|].
           destruct (wcombine w we); [apply kinds_nil | apply kinds_one; reflexivity].
        -- apply (IH _ _ _ _ _ _ H). apply kinds_app. split; [exact He|].
           apply check_kinds in Ec. destruct Ec as [_ Ec].
           apply (kinds_mono expr_diag schedule_diag es expr_schedule Ec).
      * apply (IH _ _ _ _ _ _ H). apply kinds_app. split; [exact He | apply kinds_one; reflexivity].
    + destruct (lookup by_out n) as [ff|]; [apply (IH _ _ _ _ _ _ H); exact He|].
      destruct (mem_str n decls); [|apply (IH _ _ _ _ _ _ H); exact He].
      apply (IH _ _ _ _ _ _ H). apply kinds_app. split; [exact He | apply kinds_one; reflexivity].
Qed.

Theorem rejection_classified_holds f fixed il iu : stmt_rejection_classified f fixed il iu.
Proof.
  intros TD stmts es Hb.
  destruct (middle_cases f fixed il iu stmts) as [[es' [Hb' Hk]]|[E1 [consts [Hr H4]]]].
  - rewrite Hb in Hb'. injection Hb' as <-. destruct Hk as [[Hk|[Hk|Hk]]|Hk]; tauto.
  - destruct (snd (pre_of f fixed il iu (fold_left (step1 fixed) stmts (init1 fixed)) consts)) as [|x l] eqn:E5.
    2:{ rewrite (build_pre5 f fixed il iu stmts consts E1 Hr H4) in Hb; [|rewrite E5; discriminate].
        injection Hb as <-. right. right. right. right. left. rewrite E5. split; [discriminate|].
        rewrite <- E5. unfold pre_of. apply preprocess_comp_kinds. }
    destruct (sched_reach f fixed il iu TD stmts consts E1 Hr H4 E5) as [[cyc [_ Hb']]|[order [Ht _]]].
    + rewrite Hb in Hb'. injection Hb' as ->. right. left. exists cyc. reflexivity.
    + destruct (build_sorted f fixed il iu stmts consts E1 Hr H4 E5) as [_ B2].
      destruct (sched_errs f fixed il iu stmts consts order) as [|x l] eqn:Es.
      * exfalso. revert Hb. unfold build_program. cbv zeta. unfold errs1 in E1. rewrite E1, Hr. cbn [bind].
        fold (LoopProofs.T3 f il iu (fold_left (step1 fixed) stmts (init1 fixed)) consts).
        fold (errs4_of f il iu (fold_left (step1 fixed) stmts (init1 fixed)) consts). rewrite H4.
        fold (widths_of (fold_left (step1 fixed) stmts (init1 fixed))
                        (LoopProofs.T3 f il iu (fold_left (step1 fixed) stmts (init1 fixed)) consts) consts).
        unfold assignments_to_actions.
        fold (known_of f il iu (fold_left (step1 fixed) stmts (init1 fixed)) consts).
        fold (pre_of f fixed il iu (fold_left (step1 fixed) stmts (init1 fixed)) consts).
        unfold sched_errs, wire_graph in *.
        destruct (pre_of f fixed il iu (fold_left (step1 fixed) stmts (init1 fixed)) consts) as [[[g by_out] no_out] errs0].
        cbn [snd fst acc_by] in *. subst errs0. rewrite Ht. cbn [bind].
        destruct (schedule f _ consts _ by_out _ order [] [] []) as [[acts errs] und].
        rewrite Es. cbn [bind]. discriminate.
      * rewrite (B2 order Ht) in Hb; [|rewrite Es; discriminate]. injection Hb as <-.
        right. right. right. right. right. rewrite Es. split; [discriminate|]. rewrite <- Es.
        unfold sched_errs.
        destruct (schedule f _ consts _ _ _ order [] [] []) as [[acts errs] und] eqn:Esch.
        apply kinds_app. split.
        -- apply (schedule_sched_kinds f _ _ _ _ _ _ _ _ _ _ _ _ Esch). apply kinds_nil.
        -- apply (kinds_map schedule_diag UnsetUndeclaredWire (fun n => [n])). reflexivity.
Qed.
