(* Proofs of the statements of ExprRules.v: the static checker of Expr.v accepts exactly the
   expressions derivable in the declarative width judgement, the judgement is functional,
   and every rejection carries a diagnostic. *)
From HclV Require Import Base Expr ExprSpec ExprLemmas ExprRules ExprProofs.
Open Scope N_scope.

(* ---- induction principle for the mutual judgement --------------------------------------- *)
Scheme has_width_mind := Minimality for has_width Sort Prop
  with arms_width_mind := Minimality for arms_width Sort Prop
  with items_width_mind := Minimality for items_width Sort Prop.
Combined Scheme has_width_mutind from has_width_mind, arms_width_mind, items_width_mind.

(* ---- the checker's three mux flags as left-to-right folds over the always-true flags ----- *)
Definition b2nat (b : bool) : nat := if b then 1%nat else 0%nat.

Lemma count_true_nil : count_true [] = 0%nat.
Proof. reflexivity. Qed.

Lemma count_true_cons (b : bool) (l : list bool) :
  count_true (b :: l) = (b2nat b + count_true l)%nat.
Proof. unfold count_true. cbn [filter]. destruct b; reflexivity. Qed.

Fixpoint fl_seen (l : list bool) (s : bool) : bool :=
  match l with
  | [] => s
  | b :: r => fl_seen r (s || b)
  end.

Fixpoint fl_twice (l : list bool) (s t : bool) : bool :=
  match l with
  | [] => t
  | b :: r => fl_twice r (s || b) (t || (b && s))
  end.

Fixpoint fl_unreach (l : list bool) (s u : bool) : bool :=
  match l with
  | [] => u
  | b :: r => fl_unreach r (s || b) (u || s)
  end.

Lemma fl_seen_spec (l : list bool) :
  forall s, fl_seen l s = true <-> (1 <= count_true l + b2nat s)%nat.
Proof.
  induction l as [|b r IH]; intros s.
  - cbn [fl_seen]. rewrite count_true_nil.
    destruct s; cbn [b2nat]; split; intros H; try reflexivity; try discriminate H; lia.
  - cbn [fl_seen]. rewrite IH, count_true_cons.
    destruct s, b; cbn [orb b2nat]; lia.
Qed.

Lemma fl_twice_spec (l : list bool) :
  forall s t, fl_twice l s t = false <-> t = false /\ (count_true l + b2nat s <= 1)%nat.
Proof.
  induction l as [|b r IH]; intros s t.
  - cbn [fl_twice]. rewrite count_true_nil. split.
    + intros ->. split; [reflexivity|]. destruct s; cbn [b2nat]; lia.
    + intros [-> _]. reflexivity.
  - cbn [fl_twice]. rewrite IH, count_true_cons.
    destruct s, b, t; cbn [orb andb b2nat]; split; intros [H1 H2];
      first [ discriminate H1 | exfalso; lia | split; [reflexivity | lia] ].
Qed.

Lemma fl_unreach_spec (l : list bool) :
  forall s u, fl_unreach l s u = false <->
              u = false /\ (s = true -> l = []) /\
              (forall i, nth i l false = true -> S i = List.length l).
Proof.
  induction l as [|b r IH]; intros s u.
  - cbn [fl_unreach]. split.
    + intros ->. split; [reflexivity|]. split; [reflexivity|].
      intros i Hi. destruct i; discriminate Hi.
    + intros [-> _]. reflexivity.
  - cbn [fl_unreach]. rewrite IH. split.
    + intros (Hus & Hsb & Hall).
      apply orb_false_iff in Hus. destruct Hus as [-> ->].
      split; [reflexivity|]. split; [intros Hs; discriminate Hs|].
      intros i Hi. destruct i as [|j].
      * cbn [nth] in Hi. subst b. cbn [orb] in Hsb. rewrite (Hsb eq_refl). reflexivity.
      * cbn [nth] in Hi. cbn [List.length]. f_equal. apply Hall. exact Hi.
    + intros (-> & Hs & Hall).
      assert (Es : s = false).
      { destruct s; [|reflexivity]. specialize (Hs eq_refl). discriminate Hs. }
      subst s. cbn [orb]. split; [reflexivity|]. split.
      * intros ->. specialize (Hall 0%nat eq_refl). cbn [List.length] in Hall.
        destruct r as [|x r']; [reflexivity | cbn [List.length] in Hall; lia].
      * intros i Hi. specialize (Hall (S i) Hi). cbn [List.length] in Hall. lia.
Qed.

Lemma impl_andb (x b : bool) (P : Prop) :
  (b = false <-> P) -> ((x = true -> P) <-> x && b = false).
Proof.
  intros [H1 H2]. destruct x; cbn [andb].
  - split; [intros H; apply H2, H; reflexivity | intros H _; apply H1, H].
  - split; [reflexivity | intros _ H; discriminate H].
Qed.

Lemma default_rules_flags (f : features) (flags : list bool) :
  default_rules f flags <->
  f_rmd f && negb (fl_seen flags false) = false /\
  f_dmd f && fl_twice flags false false = false /\
  f_duo f && fl_unreach flags false false = false.
Proof.
  unfold default_rules.
  assert (Hs : negb (fl_seen flags false) = false <-> (1 <= count_true flags)%nat).
  { rewrite negb_false_iff, fl_seen_spec. cbn [b2nat]. lia. }
  assert (Ht : fl_twice flags false false = false <-> (count_true flags <= 1)%nat).
  { rewrite fl_twice_spec. cbn [b2nat]. split; [intros [_ H]; lia | intros H; split; [reflexivity | lia]]. }
  assert (Hu : fl_unreach flags false false = false <->
               (forall i, nth i flags false = true -> S i = List.length flags)).
  { rewrite fl_unreach_spec. split.
    - intros (_ & _ & H). exact H.
    - intros H. split; [reflexivity|]. split; [intros E; discriminate E | exact H]. }
  rewrite <- (impl_andb (f_rmd f) _ _ Hs), <- (impl_andb (f_dmd f) _ _ Ht),
    <- (impl_andb (f_duo f) _ _ Hu).
  reflexivity.
Qed.

(* the flags of the final state of check_arms are the folds of the arms' always-true flags *)
Lemma check_arms_flags f G C (a : arms) :
  forall st st', check_arms f G C a st = Ok st' ->
    ms_seen st' = fl_seen (at_flags f C a) (ms_seen st) /\
    ms_twice st' = fl_twice (at_flags f C a) (ms_seen st) (ms_twice st) /\
    ms_unreach st' = fl_unreach (at_flags f C a) (ms_seen st) (ms_unreach st).
Proof.
  induction a as [|c v rest IH]; intros st st' H.
  - cbn [check_arms] in H. injection H as <-.
    cbn [at_flags fl_seen fl_twice fl_unreach]. auto.
  - apply check_arms_cons_inv in H. destruct H as (wc & wv & _ & _ & H).
    apply IH in H. cbn [mux_step ms_seen ms_twice ms_unreach] in H.
    cbn [at_flags fl_seen fl_twice fl_unreach]. exact H.
Qed.

Lemma check_arms_default_rules f G C (a : arms) (st' : mux_state) :
  check_arms f G C a (mux_init) = Ok st' ->
  (default_rules f (at_flags f C a) <->
   f_rmd f && negb (ms_seen st') = false /\
   f_dmd f && ms_twice st' = false /\
   f_duo f && ms_unreach st' = false).
Proof.
  intros H. apply check_arms_flags in H. destruct H as (-> & -> & ->).
  cbn [mux_init ms_seen ms_twice ms_unreach]. apply default_rules_flags.
Qed.

(* ---- binary operators: the checker's inversion relation is the four operator rules ------- *)
Lemma bin_width_has_width f G C op l r wl wr w :
  has_width f G C l wl -> has_width f G C r wr -> bin_width f op wl wr w ->
  has_width f G C (EBin op l r) w.
Proof.
  intros Hl Hr. unfold bin_width. destruct (kind op) eqn:K.
  - intros [-> Hpb]. exact (HW_logical f G C op l r wl wr K Hl Hr Hpb).
  - intros [-> [w0 H0]]. exact (HW_compare f G C op l r wl wr w0 K Hl Hr H0).
  - intros H. exact (HW_bitwise f G C op l r wl wr w K Hl Hr H).
  - intros H. exact (HW_arith f G C op l r wl wr w K Hl Hr H).
Qed.

Section Iff.
  Variables (f : features) (G : string -> option width) (C : string -> option wval).

  (* ---- soundness: what the checker accepts is derivable ---------------------------------- *)
  Lemma check_sound_all :
    (forall e w, check f G C e = Ok w -> has_width f G C e w) /\
    (forall a st st', check_arms f G C a st = Ok st' ->
       forall w, ms_width st' = Some w ->
       exists acc, ms_width st = Some acc /\ arms_width f G C a acc w) /\
    (forall items wl, check_items f G C wl items = Ok [] -> items_width f G C wl items).
  Proof.
    apply expr_arms_exprs_ind.
    - (* EConst *)
      intros v w H. cbn [check] in H. injection H as <-. apply HW_const.
    - (* EBin *)
      intros op l IHl r IHr w H.
      apply check_bin_inv in H. destruct H as (wl & wr & El & Er & Hbw).
      exact (bin_width_has_width f G C op l r wl wr w (IHl _ El) (IHr _ Er) Hbw).
    - (* EUn *)
      intros op e IHe w H. apply check_un_inv in H. destruct H as (w1 & E1 & ->).
      destruct op; cbn [un_width].
      + apply HW_unary; [discriminate | exact (IHe _ E1)].
      + apply HW_unary; [discriminate | exact (IHe _ E1)].
      + apply HW_unary; [discriminate | exact (IHe _ E1)].
      + exact (HW_not f G C e w1 (IHe _ E1)).
    - (* EMux *)
      intros a IHa w H. apply check_mux_inv in H.
      destruct H as (st & Est & Hw & Hrmd & Hdmd & Hduo).
      destruct (IHa _ _ Est w Hw) as (acc & Hacc & Harms).
      cbn [mux_init ms_width] in Hacc. injection Hacc as <-.
      apply HW_mux; [exact Harms|].
      apply (check_arms_default_rules f G C a st Est). auto.
    - (* EWire *)
      intros n w H. apply check_wire_inv in H. apply HW_wire. exact H.
    - (* ESlice *)
      intros e IHe lo hi w H. apply check_slice_inv in H.
      destruct H as (Hle & -> & w1 & E1 & Hm).
      exact (HW_slice f G C e lo hi w1 Hle (IHe _ E1) Hm).
    - (* ECat *)
      intros l IHl r IHr w H. apply check_cat_inv in H.
      destruct H as (lw & rw & El & Er & Hle & ->).
      exact (HW_cat f G C l r lw rw (IHl _ El) (IHr _ Er) Hle).
    - (* EIn *)
      intros e IHe items IHi w H. apply check_in_inv in H.
      destruct H as (-> & wl & El & Ei).
      exact (HW_in f G C e items wl (IHe _ El) (IHi _ Ei)).
    - (* ANil *)
      intros st st' H w Hw. cbn [check_arms] in H. injection H as <-.
      exists w. split; [exact Hw | apply AW_nil].
    - (* ACons *)
      intros c IHc v IHv rest IHrest st st' H w Hw.
      apply check_arms_cons_inv in H. destruct H as (wc & wv & Ec & Ev & Hrest).
      destruct (IHrest _ _ Hrest w Hw) as (acc' & Hacc' & Harms).
      cbn [mux_step ms_width] in Hacc'.
      destruct (ms_width st) as [cur|]; [|discriminate Hacc'].
      exists cur. split; [reflexivity|].
      exact (AW_cons f G C c v rest wc wv cur acc' w (IHc _ Ec) (IHv _ Ev) Hacc' Harms).
    - (* XNil *)
      intros wl _. apply IW_nil.
    - (* XCons *)
      intros e IHe rest IHrest wl H.
      apply check_items_cons_inv in H. destruct H as (wi & more & Ei & Em & Herrs).
      destruct (wcombine wl wi) as [w'|] eqn:Hc; [|discriminate Herrs].
      subst more.
      exact (IW_cons f G C wl e rest wi w' (IHe _ Ei) Hc (IHrest _ Em)).
  Qed.

  (* ---- completeness: what is derivable is accepted, with the derived width ---------------- *)
  Lemma check_complete_all :
    (forall e w, has_width f G C e w -> check f G C e = Ok w) /\
    (forall a acc w, arms_width f G C a acc w ->
       forall st, ms_width st = Some acc ->
       exists st', check_arms f G C a st = Ok st' /\ ms_width st' = Some w) /\
    (forall w items, items_width f G C w items -> check_items f G C w items = Ok []).
  Proof.
    apply (has_width_mutind f G C).
    - (* HW_const *) intros v. reflexivity.
    - (* HW_wire *) intros n w H. cbn [check]. rewrite H. reflexivity.
    - (* HW_bitwise *)
      intros op l r wl wr w K _ IHl _ IHr Hc.
      apply (check_bin_intro f G C op l r wl wr w IHl IHr).
      unfold bin_width. rewrite K. exact Hc.
    - (* HW_compare *)
      intros op l r wl wr w K _ IHl _ IHr Hc.
      apply (check_bin_intro f G C op l r wl wr (Bits 1) IHl IHr).
      unfold bin_width. rewrite K. split; [reflexivity | exists w; exact Hc].
    - (* HW_logical *)
      intros op l r wl wr K _ IHl _ IHr Hpb.
      apply (check_bin_intro f G C op l r wl wr (Bits 1) IHl IHr).
      unfold bin_width. rewrite K. split; [reflexivity | exact Hpb].
    - (* HW_arith *)
      intros op l r wl wr w K _ IHl _ IHr Hc.
      apply (check_bin_intro f G C op l r wl wr w IHl IHr).
      unfold bin_width. rewrite K. exact Hc.
    - (* HW_not *)
      intros e w _ IHe. cbn [check]. rewrite IHe. reflexivity.
    - (* HW_unary *)
      intros op e w Hne _ IHe. destruct op; cbn [check]; try exact IHe.
      contradiction Hne; reflexivity.
    - (* HW_slice *)
      intros e lo hi w Hle _ IHe Hm. cbn [check].
      destruct (N.ltb_spec hi lo) as [Hlt|_]; [lia|].
      rewrite IHe. cbn [bind]. destruct w as [iw|]; [|reflexivity].
      destruct (N.ltb_spec iw hi) as [Hlt|_]; [lia | reflexivity].
    - (* HW_cat *)
      intros l r lw rw _ IHl _ IHr Hle. cbn [check].
      rewrite IHl. cbn [bind]. rewrite IHr. cbn [bind].
      destruct (N.leb_spec (lw + rw) 128) as [_|Hgt]; [reflexivity | lia].
    - (* HW_in *)
      intros e items w _ IHe _ IHi. rewrite check_in_eq, IHe. cbn [bind].
      rewrite IHi. reflexivity.
    - (* HW_mux *)
      intros a w _ IHa Hdr. rewrite check_mux_eq.
      destruct (IHa mux_init eq_refl) as (st' & Est & Hw).
      change (mkMS (Some Unl) false false false) with mux_init.
      rewrite Est. cbn [bind].
      apply (check_arms_default_rules f G C a st' Est) in Hdr.
      destruct Hdr as (-> & -> & ->). rewrite Hw. reflexivity.
    - (* AW_nil *)
      intros acc st Hst. exists st. split; [reflexivity | exact Hst].
    - (* AW_cons *)
      intros c v rest wc wv acc acc' w _ IHc _ IHv Hcomb _ IHrest st Hst.
      rewrite check_arms_cons_eq, IHc, IHv. cbn [bind].
      apply IHrest. cbn [ms_width]. rewrite Hst. exact Hcomb.
    - (* IW_nil *) intros w. reflexivity.
    - (* IW_cons *)
      intros w e rest wi w' _ IHe Hc _ IHrest.
      rewrite check_items_cons_eq, IHe. cbn [bind]. rewrite IHrest. cbn [bind].
      rewrite Hc. reflexivity.
  Qed.
End Iff.

Theorem check_iff : stmt_check_iff.
Proof.
  intros f G C e w. split.
  - apply (proj1 (check_sound_all f G C)).
  - apply (proj1 (check_complete_all f G C)).
Qed.

Theorem has_width_unique : stmt_has_width_unique.
Proof.
  intros f G C e w w' H H'.
  apply (proj1 (check_complete_all f G C)) in H, H'.
  rewrite H in H'. injection H' as E. exact E.
Qed.

(* ---- every rejection carries a diagnostic ------------------------------------------------ *)
Lemma bind_err {A B} (r : result A) (k : A -> result B) (es : list err) :
  bind r k = Err es -> r = Err es \/ exists a, r = Ok a /\ k a = Err es.
Proof. destruct r as [a|es']; cbn [bind]; intros H; [right; eauto | left; injection H as <-; reflexivity]. Qed.

Lemma err1_nonempty {A} (k : ekind) (names : list string) (es : list err) :
  @err1 A k names = Err es -> es <> [].
Proof. unfold err1. intros H. injection H as <-. discriminate. Qed.

Ltac diag_step :=
  match goal with
  | H : Ok _ = Err _ |- _ => discriminate H
  | H : err1 _ _ = Err _ |- _ => exact (err1_nonempty _ _ _ H)
  | IH : (forall es, ?r = Err es -> es <> []), H : ?r = Err _ |- _ => exact (IH _ H)
  | IH : (forall st es, check_arms ?f ?G ?C ?a st = Err es -> es <> []),
    H : check_arms ?f ?G ?C ?a _ = Err _ |- _ => exact (IH _ _ H)
  | IH : (forall wl es, check_items ?f ?G ?C wl ?x = Err es -> es <> []),
    H : check_items ?f ?G ?C _ ?x = Err _ |- _ => exact (IH _ _ H)
  | H : bind _ _ = Err _ |- _ =>
      let a := fresh "a" in let E := fresh "E" in
      apply bind_err in H; destruct H as [H | (a & E & H)]; cbv beta in H
  | H : combine_exprs _ _ = Err _ |- _ => unfold combine_exprs in H
  | H : (if ?b then _ else _) = Err _ |- _ => destruct b
  | H : match ?x with _ => _ end = Err _ |- _ => destruct x
  end.

Section Diag.
  Variables (f : features) (G : string -> option width) (C : string -> option wval).

  Lemma reject_has_diag_all :
    (forall e es, check f G C e = Err es -> es <> []) /\
    (forall a st es, check_arms f G C a st = Err es -> es <> []) /\
    (forall items wl es, check_items f G C wl items = Err es -> es <> []).
  Proof.
    apply expr_arms_exprs_ind.
    - (* EConst *) intros v es H. cbn [check] in H. discriminate H.
    - (* EBin *)
      intros op l IHl r IHr es H. cbn [check] in H.
      destruct (kind op); repeat diag_step.
    - (* EUn *)
      intros op e IHe es H. cbn [check] in H. destruct op; repeat diag_step.
    - (* EMux *)
      intros a IHa es H. rewrite check_mux_eq in H. repeat diag_step.
    - (* EWire *)
      intros n es H. cbn [check] in H. repeat diag_step.
    - (* ESlice *)
      intros e IHe lo hi es H. cbn [check] in H. repeat diag_step.
    - (* ECat *)
      intros l IHl r IHr es H. cbn [check] in H. repeat diag_step.
    - (* EIn *)
      intros e IHe items IHi es H. rewrite check_in_eq in H.
      apply bind_err in H. destruct H as [H | (wl & El & H)]; [exact (IHe _ H)|].
      apply bind_err in H. destruct H as [H | (errs & Ei & H)]; [exact (IHi _ _ H)|].
      destruct errs as [|e0 errs]; [discriminate H|].
      injection H as <-. discriminate.
    - (* ANil *) intros st es H. cbn [check_arms] in H. discriminate H.
    - (* ACons *)
      intros c IHc v IHv rest IHrest st es H. rewrite check_arms_cons_eq in H.
      repeat diag_step.
    - (* XNil *) intros wl es H. cbn [check_items] in H. discriminate H.
    - (* XCons *)
      intros e IHe rest IHrest wl es H. rewrite check_items_cons_eq in H.
      repeat diag_step.
  Qed.
End Diag.

Theorem reject_has_diag : stmt_reject_has_diag.
Proof.
  intros f G C e es H. exact (proj1 (reject_has_diag_all f G C) e es H).
Qed.

Print Assumptions check_iff.
Print Assumptions has_width_unique.
Print Assumptions reject_has_diag.
