(* Model of src/ast.rs: widths, values, operators, the static checker
   (SpannedExpr::get_width_and_check) and the evaluator (SpannedExpr::evaluate).
   Spans are not modelled; error payloads are reduced to (kind, names). *)
From HclV Require Import Base.
Open Scope N_scope.

Inductive width := Bits (n : N) | Unl.

Record wval := mkV { bits : N; wd : width }.

(* the five Cargo features consulted by ast.rs *)
Record features := mkF {
  f_sbo : bool;   (* strict-boolean-ops *)
  f_swb : bool;   (* strict-wire-widths-binary *)
  f_rmd : bool;   (* require-mux-default *)
  f_dmd : bool;   (* disallow-multiple-mux-default *)
  f_duo : bool    (* disallow-unreachable-options *)
}.

Inductive binop :=
| Add | Sub | Mul | Div | Or | Xor | And | Equal | NotEqual | LessEqual | GreaterEqual
| Less | Greater | LogicalAnd | LogicalOr | LeftShift | RightShift.

Inductive unop := Plus | Negate | Complement | Not.

Inductive bkind := BooleanCombine | BooleanFromEqualWidth | EqualWidth | EqualWidthWeak.

Inductive tier_kind := KLeft | KNonAssoc | KIn | KBad.

Inductive expr :=
| EConst (v : wval)
| EBin (op : binop) (l r : expr)
| EUn (op : unop) (e : expr)
| EMux (a : arms)
| EWire (n : string)
| ESlice (e : expr) (lo hi : N)
| ECat (l r : expr)
| EIn (e : expr) (items : exprs)
with arms :=
| ANil
| ACons (c v : expr) (rest : arms)
with exprs :=
| XNil
| XCons (e : expr) (rest : exprs).

Scheme expr_mind := Induction for expr Sort Prop
  with arms_mind := Induction for arms Sort Prop
  with exprs_mind := Induction for exprs Sort Prop.
Combined Scheme expr_arms_exprs_ind from expr_mind, arms_mind, exprs_mind.

(* ---- WireWidth ------------------------------------------------------------------------ *)
Definition width_eqb (a b : width) : bool :=
  match a, b with
  | Unl, Unl => true
  | Bits x, Bits y => x =? y
  | _, _ => false
  end.

Definition bits_or_128 (w : width) : N := match w with Bits x => x | Unl => 128 end.

Definition possibly_boolean (w : width) : bool :=
  match w with Unl => true | Bits x => x =? 1 end.

Definition wcombine (a b : width) : option width :=
  match a, b with
  | Unl, _ => Some b
  | _, Unl => Some a
  | Bits s, Bits t => if s =? t then Some a else None
  end.

Definition wmax (a b : width) : width :=
  match a, b with
  | Unl, _ => b
  | _, Unl => a
  | Bits s, Bits t => if t <? s then a else b
  end.

(* WireWidth::mask: Unlimited => !0, Bits(0) => 0, Bits(s) => !0 >> (128 - s); widths of 128
   bits or more keep every bit *)
Definition mask (w : width) : N :=
  match w with
  | Unl => ones128
  | Bits s => if s =? 0 then 0 else if 128 <=? s then ones128 else N.shiftr ones128 (128 - s)
  end.

Definition as_width (w : width) (v : wval) : wval := mkV (N.land (bits v) (mask w)) w.

Definition is_true (v : wval) : bool := 0 <? bits v.

Definition true_value : wval := mkV 1 (Bits 1).
Definition false_value : wval := mkV 0 (Bits 1).

(* ---- BinOpCode ------------------------------------------------------------------------ *)
Definition kind (op : binop) : bkind :=
  match op with
  | LogicalAnd | LogicalOr => BooleanCombine
  | Equal | LessEqual | GreaterEqual | Less | Greater | NotEqual => BooleanFromEqualWidth
  | Add | Sub | Mul | Div => EqualWidthWeak
  | Or | Xor | And | LeftShift | RightShift => EqualWidth
  end.

Definition b2n (b : bool) : N := if b then 1 else 0.

(* u128 primitives *)
Definition wrapping_add (a b : N) : N := (a + b) mod two128.
Definition wrapping_sub (a b : N) : N := (a + two128 - b) mod two128.
Definition wrapping_mul (a b : N) : N := (a * b) mod two128.
(* u128::wrapping_shl(n: u32): the shift amount is taken modulo 128 *)
Definition wrapping_shl (a n : N) : N := (N.shiftl a (n mod 128)) mod two128.
Definition wrapping_shr (a n : N) : N := N.shiftr a (n mod 128).
(* `x as u32` *)
Definition as_u32 (x : N) : N := x mod 2 ^ 32.
(* u128::checked_shl(n).unwrap_or(0) / checked_shr *)
Definition shl_or_zero (a n : N) : N := if n <? 128 then (N.shiftl a n) mod two128 else 0.
Definition shr_or_zero (a n : N) : N := if n <? 128 then N.shiftr a n else 0.

(* BinOpCode::apply_raw (division by zero is excluded by the caller) *)
Definition apply_raw (op : binop) (l r : N) : N :=
  match op with
  | Add => wrapping_add l r
  | Sub => wrapping_sub l r
  | Mul => wrapping_mul l r
  | Div => l / r
  | Or => N.lor l r
  | Xor => N.lxor l r
  | And => N.land l r
  | Equal => b2n (l =? r)
  | NotEqual => b2n (negb (l =? r))
  | LessEqual => b2n (l <=? r)
  | GreaterEqual => b2n (r <=? l)
  | Less => b2n (l <? r)
  | Greater => b2n (r <? l)
  | LogicalAnd => b2n (negb (l =? 0) && negb (r =? 0))
  | LogicalOr => b2n (negb (l =? 0) || negb (r =? 0))
  | LeftShift => if 128 <=? r then 0 else wrapping_shl l (as_u32 r)
  | RightShift => if 128 <=? r then 0 else wrapping_shr l (as_u32 r)
  end.

Definition is_div (op : binop) : bool := match op with Div => true | _ => false end.

(* BinOpCode::apply *)
Definition apply (f : features) (op : binop) (l r : wval) : result wval :=
  do fw <- match kind op with
           | EqualWidth =>
               match wcombine (wd l) (wd r) with
               | Some w => Ok w
               | None => err1 RuntimeMismatchedWidths []
               end
           | EqualWidthWeak =>
               if f_swb f then
                 match wcombine (wd l) (wd r) with
                 | Some w => Ok w
                 | None => err1 RuntimeMismatchedWidths []
                 end
               else Ok (wmax (wd l) (wd r))
           | BooleanCombine | BooleanFromEqualWidth => Ok (Bits 1)
           end;
  if is_div op && (bits r =? 0) then err1 DivisionByZero []
  else Ok (mkV (N.land (apply_raw op (bits l) (bits r)) (mask fw)) fw).

(* UnOpCode::apply *)
Definition lnot128 (x : N) : N := N.lxor x ones128.   (* !x on u128, for x < 2^128 *)

Definition unop_apply (op : unop) (v : wval) : wval :=
  let nv := match op with
            | Plus => bits v
            | Negate => wrapping_add (lnot128 (bits v)) 1
            | Complement => lnot128 (bits v)
            | Not => if negb (bits v =? 0) then 0 else 1
            end in
  let nw := match op with Not => Bits 1 | _ => wd v end in
  mkV (N.land nv (mask nw)) nw.

(* ---- SpannedExpr::evaluated_width: the width evaluate() will produce ------------------- *)
Definition or_else (o : option width) (d : width) : width := match o with Some w => w | None => d end.

Definition sat_u8 (x : N) : N := N.min 255 x.

Section Eval.
  Variable f : features.
  Variable rho : string -> option wval.

  Fixpoint dynw (e : expr) : width :=
    match e with
    | EConst v => wd v
    | EBin op l r =>
        let lw := dynw l in let rw := dynw r in
        match kind op with
        | BooleanCombine | BooleanFromEqualWidth => Bits 1
        | EqualWidthWeak => if f_swb f then or_else (wcombine lw rw) lw else wmax lw rw
        | EqualWidth => or_else (wcombine lw rw) lw
        end
    | EUn Not _ => Bits 1
    | EUn _ e1 => dynw e1
    | EMux a => dynw_arms a Unl
    | EWire n => match rho n with Some v => wd v | None => Unl end
    | ESlice _ lo hi => Bits (hi - lo)
    | ECat l r =>
        match dynw l, dynw r with
        | Bits lb, Bits rb => Bits (sat_u8 (lb + rb))
        | _, _ => Unl
        end
    | EIn _ _ => Bits 1
    end
  with dynw_arms (a : arms) (acc : width) : width :=
    match a with
    | ANil => acc
    | ACons _ v rest => dynw_arms rest (or_else (wcombine acc (dynw v)) acc)
    end.

  (* ---- SpannedExpr::evaluate ------------------------------------------------------------ *)
  Fixpoint eval (e : expr) : result wval :=
    match e with
    | EConst v => Ok v
    | EBin op l r =>
        do lv <- eval l;
        do rv <- eval r;
        apply f op lv rv
    | EUn op e1 =>
        do v <- eval e1;
        Ok (unop_apply op v)
    | EMux a =>
        do v <- eval_arms a;
        Ok (as_width (dynw_arms a Unl) v)
    | EWire n =>
        match rho n with
        | Some v => Ok v
        | None => err1 UndeclaredWireRead [n]
        end
    | ESlice e1 lo hi =>
        do v <- eval e1;
        Ok (as_width (Bits (hi - lo)) (mkV (shr_or_zero (bits v) lo) Unl))
    | ECat l r =>
        do lv <- eval l;
        do rv <- eval r;
        match wd rv with
        | Bits rb =>
            match wd lv with
            | Bits lb =>
                Ok (as_width (Bits (sat_u8 (lb + rb)))
                             (mkV (N.lor (shl_or_zero (bits lv) rb) (bits rv)) Unl))
            | Unl => err1 NoBitWidth []
            end
        | Unl => err1 NoBitWidth []
        end
    | EIn e1 items =>
        do v <- eval e1;
        eval_items (bits v) items
    end
  with eval_arms (a : arms) : result wval :=
    match a with
    | ANil => Ok (mkV 0 Unl)
    | ACons c v rest =>
        do cv <- eval c;
        if is_true cv then eval v else eval_arms rest
    end
  with eval_items (x : N) (items : exprs) : result wval :=
    match items with
    | XNil => Ok false_value
    | XCons e1 rest =>
        do r <- eval e1;
        if x =? bits r then Ok true_value else eval_items x rest
    end.
End Eval.

Definition always_true (f : features) (C : string -> option wval) (e : expr) : bool :=
  match eval f C e with
  | Ok v => is_true v
  | Err _ => false
  end.

(* ---- SpannedExpr::get_width_and_check --------------------------------------------------- *)
Record mux_state := mkMS {
  ms_width : option width;
  ms_seen : bool;          (* seen_always_true *)
  ms_twice : bool;         (* seen_always_true_twice *)
  ms_unreach : bool        (* seen_unreachable_options *)
}.

Definition combine_exprs (a b : width) : result width :=
  match wcombine a b with
  | Some w => Ok w
  | None => err1 MismatchedExprWidths []
  end.

Section Check.
  Variable f : features.
  Variable G : string -> option width.       (* declared widths *)
  Variable C : string -> option wval.        (* constant values, for the always-true test *)

  Fixpoint check (e : expr) : result width :=
    match e with
    | EConst v => Ok (wd v)
    | EBin op l r =>
        match kind op with
        | EqualWidth =>
            do wl <- check l; do wr <- check r; combine_exprs wl wr
        | EqualWidthWeak =>
            if f_swb f then
              do wl <- check l; do wr <- check r; combine_exprs wl wr
            else
              do wl <- check l; do wr <- check r; Ok (wmax wl wr)
        | BooleanCombine =>
            if f_sbo f then
              do wl <- check l;
              if negb (possibly_boolean wl) then err1 NonBooleanWidth [] else
              do wr <- check r;
              if negb (possibly_boolean wr) then err1 NonBooleanWidth [] else
              Ok (Bits 1)
            else
              do _ <- check l; do _ <- check r; Ok (Bits 1)
        | BooleanFromEqualWidth =>
            do wl <- check l; do wr <- check r;
            do _ <- combine_exprs wl wr;
            Ok (Bits 1)
        end
    | EMux a =>
        do st <- check_arms a (mkMS (Some Unl) false false false);
        if f_rmd f && negb (ms_seen st) then err1 NoMuxDefaultOption []
        else if f_dmd f && ms_twice st then err1 MultipleMuxDefaultOption []
        else if f_duo f && ms_unreach st then err1 UnreachableOptions []
        else match ms_width st with
             | Some w => Ok w
             | None => err1 MismatchedMuxWidths []
             end
    | EUn Not e1 => do _ <- check e1; Ok (Bits 1)
    | EUn _ e1 => check e1
    | EWire n =>
        match G n with
        | Some w => Ok w
        | None => err1 UndeclaredWireRead [n]
        end
    | ESlice e1 lo hi =>
        if hi <? lo then err1 MisorderedBitIndexes [] else
        do w <- check e1;
        match w with
        | Bits iw => if iw <? hi then err1 InvalidBitIndex [] else Ok (Bits (hi - lo))
        | Unl => Ok (Bits (hi - lo))
        end
    | ECat l r =>
        do wl <- check l;
        match wl with
        | Bits lw =>
            do wr <- check r;
            match wr with
            | Bits rw => if lw + rw <=? 128 then Ok (Bits (lw + rw)) else err1 WireTooWide []
            | Unl => err1 NoBitWidth []
            end
        | Unl => err1 NoBitWidth []
        end
    | EIn e1 items =>
        do wl <- check e1;
        do errs <- check_items wl items;
        match errs with
        | [] => Ok (Bits 1)
        | _ => Err errs
        end
    end
  with check_arms (a : arms) (st : mux_state) : result mux_state :=
    match a with
    | ANil => Ok st
    | ACons c v rest =>
        do _ <- check c;
        let unreach := ms_unreach st || ms_seen st in
        let at_ := always_true f C c in
        let twice := ms_twice st || (at_ && ms_seen st) in
        let seen := ms_seen st || at_ in
        do w <- check v;
        let mw := match ms_width st with
                  | Some cur => wcombine cur w
                  | None => None
                  end in
        check_arms rest (mkMS mw seen twice unreach)
    end
  with check_items (wl : width) (items : exprs) : result (list err) :=
    match items with
    | XNil => Ok []
    | XCons e1 rest =>
        do wi <- check e1;
        do more <- check_items wl rest;
        match wcombine wl wi with
        | Some _ => Ok more
        | None => Ok (mkErr MismatchedExprWidths [] :: more)
        end
    end.
End Check.

(* ---- referenced wires (apply_to_all order, duplicates kept) ------------------------------ *)
Fixpoint refs (e : expr) : list string :=
  match e with
  | EConst _ => []
  | EBin _ l r => refs l ++ refs r
  | EUn _ e1 => refs e1
  | EMux a => refs_arms a
  | EWire n => [n]
  | ESlice e1 _ _ => refs e1
  | ECat l r => refs l ++ refs r
  | EIn e1 items => refs e1 ++ refs_items items
  end
with refs_arms (a : arms) : list string :=
  match a with
  | ANil => []
  | ACons c v rest => refs c ++ refs v ++ refs_arms rest
  end
with refs_items (items : exprs) : list string :=
  match items with
  | XNil => []
  | XCons e1 rest => refs e1 ++ refs_items rest
  end.
