(* C16 / C18: the state dump and the debug table show the true state, parseably.
   Statements about Machine.dump_memory, dump_bank, Base.hex and Machine.table_row. *)
From HclV Require Import Base Expr Disasm DisasmProofs Machine MemSpec.
Open Scope string_scope.
Open Scope N_scope.

(* ---- memory section: one row per 16-byte row that contains a used byte -------------------- *)
Definition row_of (a : N) : N := (a / 16) * 16.

(* rows of a sorted memory, ascending, each once *)
Fixpoint rows_of (m : memory) (prev : option N) : list N :=
  match m with
  | [] => []
  | (k, _) :: r =>
      let row := row_of k in
      match prev with
      | Some p => if p =? row then rows_of r prev else row :: rows_of r (Some row)
      | None => row :: rows_of r (Some row)
      end
  end.

Definition render_cell (m : memory) (row i : N) : string :=
  (match mem_get m (row + i) with Some v => " " ++ hex2 v | None => "   " end) ++ mem_cell_sep i.

Definition render_row (m : memory) (row : N) : string :=
  "|  0x" ++ pad_left "0"%char 7 (hex (row / 16)) ++ "_:  " ++
  concat_strings (map (fun i => render_cell m row (N.of_nat i)) (seq 0 16)) ++ "    |" ++ nl.

(* the memory section is exactly the header followed by the canonical rows: every used byte at
   its own address in the row labelled with its row address, unused cells blank, no other row *)
Definition stmt_dump_memory_rows : Prop :=
  forall m, wf_mem m -> dump_memory m = mem_header ++ concat_strings (map (render_row m) (rows_of m None)).

(* a row shows a byte at column i iff that address is used *)
Definition stmt_rows_cover_used : Prop :=
  forall m a, wf_mem m -> (mem_get m a <> None <-> In (row_of a) (rows_of m None) /\ mem_get m a <> None) /\
                          (forall row, In row (rows_of m None) -> exists a v, mem_get m a = Some v /\ row_of a = row).

(* ---- hexadecimal fields denote the value ---------------------------------------------------- *)
Definition stmt_hex_roundtrip : Prop :=
  forall n, unhex (hex n) = Some n.

Definition stmt_hex_length : Prop :=
  forall n w, 0 < w -> n < 2 ^ (4 * w) -> slen (hex n) <= w.

(* the value field of a debug-table row: "0x" + zero-padded hex digits of the wire's value, as
   many as its width needs *)
Definition stmt_table_value_field : Prop :=
  forall v w, wd v = Bits w -> bits v < 2 ^ w ->
    let field := pad_left "0"%char ((w + 3) / 4) (hex (bits v)) in
    (0 < w -> slen field = (w + 3) / 4) /\ unhex field = Some (bits v) \/ w = 0.

(* ---- register banks: every line delimited '| ... |' ---------------------------------------- *)
Fixpoint split_nl (s : string) (cur : string) : list string :=
  match s with
  | EmptyString => match cur with EmptyString => [] | _ => [cur] end
  | String c r => if (N_of_ascii c =? 10) then cur :: split_nl r EmptyString
                  else split_nl r (cur ++ String c EmptyString)
  end.

Definition starts_with_s (p s : string) : bool := String.prefix p s.
Fixpoint ends_with_s (p s : string) : bool :=
  if String.eqb p s then true
  else match s with EmptyString => false | String _ r => ends_with_s p r end.

Definition delimited (line : string) : bool := starts_with_s "| " line && ends_with_s " |" line.

Definition stmt_bank_lines_delimited : Prop :=
  forall vals b text,
    (forall i o w, In (i, o, w) (b_signals b) -> forallb (fun c => negb (N_of_ascii c =? 10)) (list_ascii_of_string i) = true) ->
    forallb (fun c => negb (N_of_ascii c =? 10)) (list_ascii_of_string (b_label b)) = true ->
    dump_bank vals b = Ok text ->
    forallb delimited (split_nl text EmptyString) = true.

(* the bank line names the bank, its state letter and every register with its value in hex *)
Definition stmt_memory_lines_delimited : Prop :=
  forall m, wf_mem m -> forallb delimited (split_nl (dump_memory m) EmptyString) = true.
